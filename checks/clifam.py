"""Replay of the Cli case analysis against the built whawty-auth binary (used by C04, C16, C17)."""
import base64, concurrent.futures, hashlib, os, shutil, subprocess
import fsfam

STRONG, WEAK = "zq9!Lm#48vRw^t2Ypk", "password"
RIGHT = {"user1": "Tz8_right.user.pw#1", "boss": "Tz8_right.admin.pw#2"}


def build_dir(root, kind, variant=0):
    base = os.path.join(root, "base")
    shutil.rmtree(root, ignore_errors=True)
    os.makedirs(base, mode=0o700)
    rec = lambda pw: fsfam.scrypt_record(pw.encode()).encode() + b"totp: QUJD\n"
    if kind != "empty":
        open(os.path.join(base, "user1.user"), "wb").write(rec(RIGHT["user1"]))
        if kind != "no-admin":
            open(os.path.join(base, "boss.admin"), "wb").write(rec(RIGHT["boss"]))
        if kind == "stray-file":
            open(os.path.join(base, "notes.txt"), "wb").write(b"hello\n")
        if kind == "duplicate-user":
            open(os.path.join(base, "user1.admin"), "wb").write(rec(RIGHT["user1"]))
        if variant % 2 == 1:      # the residue a crash may leave (and the property permits): a leftover file in the work area
            os.makedirs(os.path.join(base, ".tmp"), mode=0o700)
            open(os.path.join(base, ".tmp", "1789345126"), "wb").write(rec("whatever")[:40])
    cfg = os.path.join(root, "store.yaml")
    open(cfg, "w").write(fsfam.CFG % (base, base64.b64encode(fsfam.HMAC1).decode()))
    return base, cfg


def snap(base, dirs=False):
    out = {}
    for dp, dn, fn in os.walk(base):
        for f in fn:
            p = os.path.join(dp, f)
            out[os.path.relpath(p, base)] = hashlib.sha256(open(p, "rb").read()).hexdigest()[:16]
        if dirs:
            for d in dn:
                out[os.path.relpath(os.path.join(dp, d), base) + "/"] = "dir"
    return out


def run_case(exe, work, i, e):
    c = e["case"]
    base, cfg = build_dir(os.path.join(work, "c%d" % i), c["dir"], i)
    target = {"existing-user": "user1", "existing-admin": "boss", "nonexistent": "newbie", "invalid-name": "../x"}[c["target"]]
    if c["dir"] == "no-admin" and c["target"] == "existing-admin":
        return None               # there is no administrator in that directory class
    pw = {"policy-ok": STRONG, "policy-fails": WEAK, "right": RIGHT.get(target, "whatever"), "wrong": "not the password"}[c["pw"]]
    argv = [exe, "--store", cfg, "--policy-type", "zxcvbn", "--policy-condition", "score >= 3"]
    if not c["docheck"]:
        argv.append("--do-check=false")
    cmd = c["cmd"]
    if cmd == "check":
        argv += ["check"]
    elif cmd in ("list", "list-full"):
        argv += ["list"] + (["--full"] if cmd == "list-full" else [])
    elif cmd == "remove":
        argv += ["remove", target]
    elif cmd.startswith("set-admin"):
        argv += ["set-admin", target, cmd.split("-")[-1]]
    else:
        argv += [cmd, target, pw]
    readonly = c["cmd"] in ("check", "list", "list-full", "authenticate")      # these may not even create the work area
    before = snap(base, readonly)
    try:
        r = subprocess.run(argv, stdout=subprocess.PIPE, stderr=subprocess.STDOUT, text=True, timeout=30, stdin=subprocess.DEVNULL)
        rc, out = r.returncode, r.stdout[-300:]
    except subprocess.TimeoutExpired:
        rc, out = -9, "timeout"
    after = snap(base, readonly)
    shutil.rmtree(os.path.join(work, "c%d" % i), ignore_errors=True)
    return {"edge": e, "rc": rc, "out": out, "changed": before != after, "argv": argv[5:]}


def replay(ctx, prop, only=None):
    res = ctx.run_tlc("Cli.tla", "MC_Cli.cfg", workers=1, timeout=300, name="cli")
    ctx.tlc_must_pass(res, "MC_Cli.cfg")
    edges = [e for e in res["edges"] if only is None or only(e["case"])]
    exe = ctx.build_agent()
    work = os.path.join(ctx.scratch, "clicases")
    os.makedirs(work, exist_ok=True)
    with concurrent.futures.ThreadPoolExecutor(max_workers=16) as ex:
        results = [r for r in ex.map(lambda ie: run_case(exe, work, ie[0], ie[1]), enumerate(edges)) if r]
    for r in results:
        c, want = r["edge"]["case"], r["edge"]["outcome"]
        key = "cli:%s:%s:%s%s:%s" % (c["cmd"], c["dir"], c["target"], "" if c["docheck"] else ":nocheck", c["pw"])
        ok = r["rc"] == 0
        if want == "ok" and not ok:
            ctx.violation(prop, key + ":refused", "`%s` exited with %d: %s" % (" ".join(r["argv"]), r["rc"], r["out"]))
        elif want == "fail" and ok and c["cmd"] not in ("remove",):
            ctx.violation(prop, key + ":exit-0", "`%s` exited with status 0 although the model demands a failure: %s" % (" ".join(r["argv"]), r["out"]))
        if want == "fail" and r["changed"]:
            ctx.violation(prop, key + ":store-changed", "`%s` (exit %d) changed the store although it must not" % (" ".join(r["argv"]), r["rc"]))
        if want == "ok" and r["edge"]["writes"] and not r["changed"]:
            ctx.violation(prop, key + ":no-effect", "`%s` exited with 0 but the store did not change" % " ".join(r["argv"]))
        if want == "ok" and not r["edge"]["writes"] and r["changed"]:
            ctx.violation(prop, key + ":unexpected-effect", "`%s` changed the store" % " ".join(r["argv"]))
    ctx.coverage["cli_cases"] = len(results)
    ctx.coverage["states"] = ctx.coverage.get("states", 0) + res["distinct"]
    ctx.coverage["transitions"] = ctx.coverage.get("transitions", 0) + res["generated"]
    ctx.coverage["evaluations"] = ctx.coverage.get("evaluations", 0) + len(results)
    return len(results)


def unhashable_default_leg(ctx, prop):
    """The default parameter set loads but cannot produce a hash (scryptauth without `cost`: N = 1 is refused by scrypt
    itself).  Every write must fail and leave the directory exactly as it was - no reservation, no work file - and the
    user must not exist afterwards; the records of the usable set keep working."""
    import base64, fsfam
    exe = ctx.build_agent()
    root = os.path.join(ctx.scratch, "unhashable")
    base = os.path.join(root, "base")
    os.makedirs(os.path.join(base, ".tmp"), exist_ok=True)
    good = fsfam.scrypt_record(b"pw").encode()
    open(os.path.join(base, "boss.admin"), "wb").write(good)
    open(os.path.join(base, "carol.user"), "wb").write(good + b"totp: QUJD\n")
    cfg = os.path.join(root, "store.yaml")
    key = base64.b64encode(fsfam.HMAC1).decode()
    open(cfg, "w").write('basedir: "%s"\ndefault: 7\nparams:\n  - id: 1\n    scryptauth:\n      hmackey: %s\n      cost: 2\n'
                         '  - id: 7\n    scryptauth:\n      hmackey: %s\n' % (base, key, key))
    env = dict(os.environ, WHAWTY_AUTH_STORE_CONFIG=cfg)
    run = lambda *a: subprocess.run([exe] + list(a), env=env, stdout=subprocess.PIPE, stderr=subprocess.STDOUT, text=True, timeout=30,
                                    stdin=subprocess.DEVNULL)
    r = run("check")
    if r.returncode != 0:
        return 0          # this tree refuses such a configuration altogether: nothing to observe
    n = 1
    before = snap(base, dirs=True)
    for cmd in (["add", "dave", "some password"], ["update", "carol", "another password"], ["add", "dave", "some password"]):
        r = run(*cmd)
        n += 1
        after = snap(base, dirs=True)
        if r.returncode == 0:
            continue      # the set can hash after all on this tree
        if after != before:
            diff = sorted(set(after.items()) ^ set(before.items()))
            ctx.violation(prop, "failed-write-changed-store:unhashable-default:" + cmd[0],
                          "`%s` failed (exit %d) and the directory changed: %s" % (" ".join(cmd[:2]), r.returncode, diff[:4]))
            before = after
    r = run("authenticate", "carol", "pw")
    n += 1
    if r.returncode != 0 and snap(base, dirs=True).get("carol.user") == before.get("carol.user"):
        ctx.violation(prop, "login-refused-after-failed-update:unhashable-default", "carol's record is unchanged, exit %d: %s" % (r.returncode, r.stdout[-200:]))
    shutil.rmtree(root, ignore_errors=True)
    return n
