"""C15 Operations touch only their target; failures and read-only calls change nothing."""
import fsfam, storefam
from c08 import model

WRONG = {"MC_StoreFS_bad_noreservationcleanup.cfg": "FailureChangesNothing",
         "MC_StoreFS_known_faultaftercommit.cfg": "FailureChangesNothing"}


def run(ctx):
    thorough = ctx.tier == "thorough"
    model(ctx, WRONG)
    # semantic failures, read-only calls, aux preservation, other users untouched: every Store edge
    storefam.run_family(ctx, seeds=[ctx.seed] if not thorough else [ctx.seed, ctx.seed + 1])
    # every single system-call failure in every operation
    drv = fsfam.Driver(ctx)
    cases = fsfam.standard_cases(thorough)
    bl = fsfam.baselines(ctx, drv, cases)
    fsfam.judge_traces(ctx, [(b["case"], b["lines"]) for b in bl], "syscalls")
    n, jobs, _ = fsfam.fault_runs(ctx, drv, bl, errnos=fsfam.ERRNOS if thorough else ("ENOSPC", "EACCES"))
    # read-only operations: no mutating system call at all
    ro = 0
    for op in ("auth", "exists", "list", "listfull", "check"):
        c = fsfam.Case("ro-" + op, op, had="user", pw="old")
        r = drv.run(c, "ro-" + op)
        if r["parsed"] is None or not r["parsed"]["ended"]:
            ctx.inconclusive.append("read-only run %s failed" % op)
            continue
        for call in r["parsed"]["region"]:
            ro += 1
            mut = call["name"] in fsfam.MUTATING or (call["name"] in ("openat", "open") and any(
                f in call["args"] for f in ("O_CREAT", "O_WRONLY", "O_RDWR", "O_TRUNC", "O_APPEND")))
            if mut and call["ret"] is not None and call["ret"] >= 0:
                ctx.violation("C15", "readonly-mutating-call:%s:%s" % (op, call["name"]),
                              "%s issued %s(%s)" % (op, call["name"], call["args"][:120]))
    cov = ctx.coverage
    cov["fault_runs"] = n
    cov["fault_runs_requested"] = jobs
    cov["readonly_calls_inspected"] = ro
    cov["evaluations"] = cov.get("evaluations", 0) + n
    cov["distinct_nontrivial"] = cov.get("distinct_nontrivial", 0) + n
    cov["rule"] = (cov.get("rule", "") + "; plus one real run per (operation instance, system call of that operation, "
                   "errno) with strace failing exactly that call")
    ctx.assumptions += ["a fault run counts only if strace reports (INJECTED) on the intended call"]
