"""C15 Operations touch only their target; failures and read-only calls change nothing."""
import fsfam, storefam
from c08 import model

WRONG = {"MC_StoreFS_bad_noreservationcleanup.cfg": "FailureChangesNothing",
         "MC_StoreFS_known_faultaftercommit.cfg": "FailureChangesNothing"}


def run(ctx):
    thorough = ctx.tier == "thorough"
    model(ctx, WRONG)
    # semantic failures, read-only calls, aux preservation, other users untouched: every Store edge
    storefam.run_family(ctx, seeds=[ctx.seed] if not thorough else [ctx.seed, ctx.seed + 1])
    # one long-lived library object: simulated histories (records with auxiliary data put there by the environment)
    # and every short history of the core operations
    storefam.histories(ctx, 300 if not thorough else 3000)
    storefam.short_histories(ctx)
    # writes that fail inside the library before any system call of their own (the default set cannot hash)
    import clifam
    ctx.coverage["unhashable_default_runs"] = clifam.unhashable_default_leg(ctx, "C15")
    # every single system-call failure in every operation
    drv = fsfam.Driver(ctx)
    cases = fsfam.standard_cases(thorough)
    bl = fsfam.baselines(ctx, drv, cases)
    fsfam.judge_traces(ctx, [(b["case"], b["lines"]) for b in bl], "syscalls")
    n, jobs, _ = fsfam.fault_runs(ctx, drv, bl, errnos=fsfam.ERRNOS if thorough else ("ENOSPC", "EACCES"))
    # two writer processes on one directory: the loser of a race reports failure and leaves the winner's record alone
    cov_over = fsfam.overtaken_writer_runs(ctx, drv, bl)
    ctx.coverage["overtaken_writer_runs"] = cov_over
    # TwoWriters.tla: every (operation, operation, initial record, call boundary) outcome of the generator configuration on
    # two real processes - a process that reports failure has changed nothing, whatever the other one did meanwhile
    tw = fsfam.two_writers_model(ctx, thorough)
    fsfam.two_writer_runs(ctx, drv, tw, {"torn": "C08", "loser": "C15", "others": "C15", "seq": "C15", "crash": "C15"})
    # read-only operations: no mutating system call at all
    ro = 0
    for op in ("auth", "exists", "list", "listfull", "check"):
        c = fsfam.Case("ro-" + op, op, had="user", pw="old")
        r = drv.run(c, "ro-" + op)
        if r["parsed"] is None or not r["parsed"]["ended"]:
            ctx.inconclusive.append("read-only run %s failed" % op)
            continue
        for call in r["parsed"]["region"]:
            ro += 1
            mut = call["name"] in fsfam.MUTATING or (call["name"] in ("openat", "open") and any(
                f in call["args"] for f in ("O_CREAT", "O_WRONLY", "O_RDWR", "O_TRUNC", "O_APPEND")))
            if mut and call["ret"] is not None and call["ret"] >= 0:
                ctx.violation("C15", "readonly-mutating-call:%s:%s" % (op, call["name"]),
                              "%s issued %s(%s)" % (op, call["name"], call["args"][:120]))
    # the built binary: read-only commands (also on a directory with crash residue in the work area, or without a work area)
    # and every refused command leave the directory byte-identical
    import clifam
    clifam.replay(ctx, "C15", only=lambda c: c["cmd"] in ("check", "list", "list-full", "authenticate") or c["pw"] in ("policy-fails", "wrong")
                  or c["target"] in ("invalid-name",))
    # the running agent: logins (right, wrong, unknown user) over every transport with upgrades off, and management requests
    # over HTTP without a session, change nothing
    import agentfam as af
    files = {"u1": {"present": True, "pw": "p1", "set": 1, "adm": False}, "u2": {"present": True, "pw": "p2", "set": 2, "adm": True},
             "u3": {"present": False, "pw": "", "set": 0, "adm": False}}
    steps, i = [], 0
    for via in ("sasl", "http", "basic", "ldap", "api"):
        for u, pw in (("u1", "p1"), ("u1", "p2"), ("u3", "p1"), ("u2", "p2"), ("u2", "p3")):
            i += 1
            steps.append({"t": "send", "c": "r%d" % i, "k": "auth", "u": u, "p": pw, "a": False, "via": via})
    for k, u, pw, a in (("add", "u3", "p3", True), ("update", "u1", "p3", False), ("remove", "u1", "", False), ("setadmin", "u1", "", True),
                        ("update", "u2", "p1", False)):
        i += 1
        steps.append({"t": "send", "c": "r%d" % i, "k": k, "u": u, "p": pw, "a": a, "via": "http"})      # no session: refused
    steps += [{"t": "sleep", "n": 50}, {"t": "free"}]
    scs = [{"name": "readonly-frontends-%s" % (mode or "off"), "mode": mode, "default": 2, "files": files, "passwords": af.PASSWORDS, "steps": steps,
            "gated": False, "seed": 3, "frontends": True, "http_admin": ["u2", "p2"], "novalidate": True, "expect_unchanged": True,
            "expect_prop": "C15", "expect_key": "frontend-request-changed-store"} for mode in ("", "http://127.0.0.1:9/api/update")]
    results, events = af.run_scenarios(ctx, scs, "c15")
    af.judge(ctx, scs, results, events, "c15", "C15")
    cov = ctx.coverage
    cov["agent_requests"] = sum(1 for e in events if e["ev"] == "call")
    cov["fault_runs"] = n
    cov["fault_runs_requested"] = jobs
    cov["readonly_calls_inspected"] = ro
    cov["evaluations"] = cov.get("evaluations", 0) + n
    cov["distinct_nontrivial"] = cov.get("distinct_nontrivial", 0) + n
    cov["rule"] = (cov.get("rule", "") + "; plus one real run per (operation instance, system call of that operation, "
                   "errno) with strace failing exactly that call")
    ctx.assumptions += ["a fault run counts only if strace reports (INJECTED) on the intended call"]
