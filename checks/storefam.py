"""Binding A for the Store module: TLC enumerates every edge of the bounded store model, the Go
harness `storereplay` executes each edge against the real store.Dir.  Shared by C01, C02, C03,
C12, C14, C15, C16 (each keeps the violations tagged with its own property)."""
import json, os, subprocess
import vlib


def tlc_store(ctx, cfg, timeout=900, workers=1, heap="6g"):
    res = ctx.run_tlc("MC_Store.tla", cfg, workers=workers, timeout=timeout, heap=heap)
    ctx.tlc_must_pass(res, cfg)
    return res


def replay(ctx, edges, name, seed=None, workers=None, sweep=False):
    exe = ctx.build("./cmd/storereplay")
    ef = os.path.join(ctx.scratch, name + ".edges.ndjson")
    vlib.write_ndjson(ef, edges)
    of = os.path.join(ctx.scratch, name + ".result.json")
    sc = os.path.join(ctx.scratch, "replay-" + name)
    r = subprocess.run([exe, "-edges", ef, "-scratch", sc, "-seed", str(seed if seed is not None else ctx.seed),
                        "-workers", str(workers or vlib.NCPU), "-out", of] + (["-lengthsweep"] if sweep else []),
                       stdout=subprocess.PIPE, stderr=subprocess.STDOUT, text=True)
    if r.returncode != 0:
        ctx.fatal("storereplay failed (%d): %s" % (r.returncode, r.stdout[-2000:]))
    out = json.load(open(of))
    for v in (out["violations"] or []):
        ctx.violation(v["prop"], v["key"], v["detail"], edge=v.get("edge"), input=v.get("input"), source=name)
    return out


def add_cov(ctx, res, out, label):
    c = ctx.coverage
    c["states"] = c.get("states", 0) + res["distinct"]
    c["transitions"] = c.get("transitions", 0) + res["generated"]
    c["traces_validated_against_impl"] = c.get("traces_validated_against_impl", 0) + out["edges"]
    c["evaluations"] = c.get("evaluations", 0) + out["executions"]
    c["distinct_nontrivial"] = c.get("distinct_nontrivial", 0) + out["distinct"]
    c.setdefault("per_config", {})[label] = {
        "tlc_distinct_states": res["distinct"], "tlc_states_generated": res["generated"],
        "edges_replayed": out["edges"], "real_executions": out["executions"], "per_op": out["per_op"],
        "near_miss_passwords": out.get("near_misses", 0), "tlc_wall_s": round(res["wall"], 1),
        "replay_wall_s": round(out["elapsed_s"], 1)}
    for s in out["samples"][:3]:
        ctx.sample(s)


def run_family(ctx, want_names=False, want_quick=True, only_ops=None, seeds=None, sweep=False):
    """quick: exhaustive 2-user model, every edge replayed. thorough: + more seeds + 3-set model."""
    seeds = seeds or [ctx.seed]
    if want_quick:
        res = tlc_store(ctx, "MC_Store_quick.cfg")
        edges = res["edges"]
        if only_ops:
            edges = [e for e in edges if e["op"] in only_ops]
        for s in seeds:
            out = replay(ctx, edges, "quick-s%d" % s, seed=s, sweep=sweep)
            add_cov(ctx, res, out, "MC_Store_quick seed %d" % s)
    if want_names:
        res = tlc_store(ctx, "MC_Store_names.cfg")
        edges = [e for e in res["edges"] if e["name"] not in ("u1", "")]
        for s in seeds:
            out = replay(ctx, edges, "names-s%d" % s, seed=s)
            add_cov(ctx, res, out, "MC_Store_names seed %d" % s)
    ctx.coverage["exhaustive"] = True
    ctx.coverage["rule"] = ("every transition of the bounded Store model printed by TLC (BFS, VIEW without the "
                            "observation variable) is one replayed edge; distinct = distinct edge records")


def short_histories(ctx, name="exh"):
    """EVERY history of 5 core operations on one user (MC_SimStore_exh.cfg, BFS) on one long-lived library object."""
    res = ctx.run_tlc("MC_SimStore.tla", "MC_SimStore_exh.cfg", workers=1, timeout=900, name="simstore-exh")
    hs = res["hists"]
    if res["status"] != "ok" or not hs:
        ctx.inconclusive.append("SimStore (exhaustive short histories): %s, %d histories" % (res["status"], len(hs)))
        return
    _replay_histories(ctx, hs, name)
    ctx.coverage["short_histories_exhaustive"] = len(hs)


def histories(ctx, n, name="hist"):
    """Model histories (tlc -simulate on SimStore) replayed against ONE real directory each, no re-materialisation
    between the steps: salts, time stamps and aux bytes are carried by the real files."""
    # TLC's simulator evaluates the printing invariant on every successor of the last state, so each simulated
    # trace arrives as a bundle of histories that differ only in their last step: keep two per trace
    res = ctx.run_tlc("MC_SimStore.tla", "MC_SimStore.cfg", workers=1, simulate=n, depth=32, timeout=900, name="simstore")
    hs, seen = [], {}
    for h in res["hists"]:
        key = json.dumps(h[:-1], sort_keys=True)
        seen[key] = seen.get(key, 0) + 1
        if seen[key] <= 2:
            hs.append(h)
    if not hs:
        ctx.inconclusive.append("SimStore produced no histories (%s)" % res["status"])
        return
    _replay_histories(ctx, hs, name)
    ctx.sample({"history_first_steps": [{k: e[k] for k in ("op", "name", "pw", "adm", "def", "res")} for e in hs[0][:5]]})


def _replay_histories(ctx, hs, name):
    exe = ctx.build("./cmd/storereplay")
    bf = os.path.join(ctx.scratch, name + ".ndjson")
    vlib.write_ndjson(bf, hs)
    of = os.path.join(ctx.scratch, name + ".result.json")
    r = subprocess.run([exe, "-behaviours", bf, "-scratch", os.path.join(ctx.scratch, "replay-" + name), "-seed", str(ctx.seed),
                        "-workers", str(vlib.NCPU), "-out", of], stdout=subprocess.PIPE, stderr=subprocess.STDOUT, text=True)
    if r.returncode != 0:
        ctx.fatal("storereplay (histories) failed: " + r.stdout[-2000:])
    out = json.load(open(of))
    for v in (out["violations"] or []):
        ctx.violation(v["prop"], "history:" + v["key"], v["detail"], edge=v.get("edge"))
    c = ctx.coverage
    c["histories_replayed"] = c.get("histories_replayed", 0) + out["behaviours"]
    c["history_steps"] = c.get("history_steps", 0) + out["edges"]
    c["evaluations"] = c.get("evaluations", 0) + out["executions"]
    c["traces_validated_against_impl"] = c.get("traces_validated_against_impl", 0) + out["behaviours"]
