"""C11 Concurrent requests are linearizable; acknowledged changes are never undone."""
import json, os
import agentfam as af
from c10 import load_scenario

MODES = (("local", "local"), ("", "off"))


def run(ctx):
    thorough = ctx.tier == "thorough"
    suffix = "thorough" if thorough else "quick"
    cov = ctx.coverage
    cov["states"] = cov["transitions"] = 0
    cov["per_config"] = {}
    for mode in ("local", "off"):
        cfg = "MC_Agent_%s_%s.cfg" % (mode, suffix)
        res = ctx.run_tlc("MC_Agent.tla", cfg, workers=16, timeout=1500, heap="12g")
        ctx.tlc_must_pass(res, cfg)
        cov["states"] += res["distinct"]
        cov["transitions"] += res["generated"]
        cov["per_config"][cfg] = {"distinct": res["distinct"], "generated": res["generated"], "status": res["status"]}
    scenarios = []
    # non-vacuity + adversarial scenario: an upgrade applied without re-checking undoes an acknowledged change
    cex, res = af.tlc_cex(ctx, "MC_Agent_bad_norecheck.cfg", "bad_norecheck")
    cov["per_config"]["MC_Agent_bad_norecheck.cfg"] = {"status": res["status"], "expected": "violation"}
    if cex:
        sc = af.scenario_from_cex(cex, "cex-stale-upgrade", "local")
        scenarios.append(sc)
        ctx.sample({"adversarial_scenario": sc["name"], "steps": sc["steps"]})
    sims = af.simulated_scenarios(ctx, 40 if not thorough else 400)
    for i, sc in enumerate(sims):       # every second behaviour goes through the real frontends
        if i % 2:
            af.with_frontends(sc, ctx.seed * 31 + i)
    scenarios += sims
    scenarios += af.crosstalk_scenarios()
    nload = 8 if not thorough else 40
    for i in range(nload):
        mode = ["local", ""][i % 2]
        sc = load_scenario("load-%d-%s" % (i, mode or "off"), mode, ctx.seed * 1000 + i,
                           clients=[3, 8, 16][i % 3], calls=10 if not thorough else 30,
                           users=("u1", "u2") if i % 4 else ("u1",))
        scenarios.append(af.with_frontends(sc, i) if i % 2 == 0 else sc)
    # many overlapping logins with different expected answers on one interface / one listener: nobody gets another one's answer
    for i in range(3 if not thorough else 10):
        sc = load_scenario("login-storm-%d" % i, "", ctx.seed * 517 + i, clients=24, calls=30 if not thorough else 60, kinds=["auth"])
        scenarios.append(af.with_frontends(sc, 100 + i) if i % 3 == 2 else sc)
    results, events = af.run_scenarios(ctx, scenarios, "c11")
    nval = af.judge(ctx, scenarios, results, events, "c11", "C11")
    cov["traces_validated_against_impl"] = nval
    cov["evaluations"] = len(events)
    cov["distinct_nontrivial"] = len({json.dumps({k: e.get(k) for k in ("ev", "c", "k", "u", "p", "a", "ok")}) for e in events})
    cov["rule"] = ("each recorded run of the real dispatcher (gated model behaviours, TLC counterexamples of wrong "
                   "variants, seeded concurrent loads) is validated line by line against TraceAgent; the exec.* hook "
                   "is the linearization point so validation is linear")
    ctx.assumptions += ["dispatcher scheduling (Go select) is not forced beyond the gated scenarios; every order that "
                        "occurs is judged", "pi identifies passwords by independent digest recomputation"]
