"""C11 Concurrent requests are linearizable; acknowledged changes are never undone."""
import json, os
import agentfam as af
from c10 import load_scenario

MODES = (("local", "local"), ("", "off"))


def binary_leg(ctx, rounds):
    """The built `whawty-auth run` process with a saslauthd and an HTTP listener, local upgrades on: a saslauthd login with the
    old password (its hash is upgradeable) overlaps an administrator's password change over the web API.  Whatever the order,
    once both are answered the new password is the valid one - all listeners share one dispatcher."""
    import base64, http.client, socket, struct, subprocess, time
    import fsfam
    from c04 import free_port
    exe, drv = ctx.build_agent(), ctx.build("./cmd/storedrv")
    root = os.path.join(ctx.scratch, "c11bin")
    base = os.path.join(root, "base")
    os.makedirs(base, mode=0o700)
    cfg = os.path.join(root, "store.yaml")
    # (argon2id with 32 MiB: verifying the old password takes some 10 ms, which keeps the login and its upgrade in flight long
    # enough for the password change to overlap them)
    mk = lambda default: open(cfg, "w").write((fsfam.CFG % (base, base64.b64encode(fsfam.HMAC1).decode())).replace(
        "default: 1", "default: %d" % default).replace("memory: 8", "memory: 32768"))
    mk(2)
    users = ["user%d" % i for i in range(rounds)]
    run = lambda *a: subprocess.run([exe, "--store", cfg] + list(a), stdout=subprocess.PIPE, stderr=subprocess.STDOUT, text=True, timeout=60)
    if run("init", "boss", "boss password 1").returncode != 0:
        ctx.inconclusive.append("binary leg: init failed")
        return 0
    for u in users:
        run("add", u, "old password of " + u)
    mk(1)                              # all records are argon2id now, the default is the scrypt set: upgradeable
    sock, port = os.path.join(root, "sasl.sock"), free_port()
    lcfg = os.path.join(root, "listener.yaml")
    open(lcfg, "w").write("saslauthd:\n  listen:\n  - %s\nhttp:\n  listen:\n  - 127.0.0.1:%d\n" % (sock, port))
    proc = subprocess.Popen([exe, "--store", cfg, "--do-upgrades", "local", "run", "--listener", lcfg], stdout=subprocess.DEVNULL, stderr=subprocess.DEVNULL)
    try:
        for _ in range(200):
            try:
                socket.create_connection(("127.0.0.1", port), timeout=0.2).close()
                if os.path.exists(sock):
                    break
            except OSError:
                time.sleep(0.05)
        def post(path, body):
            c = http.client.HTTPConnection("127.0.0.1", port, timeout=10)
            c.request("POST", path, body=json.dumps(body), headers={"Content-Type": "application/json"})
            r = c.getresponse(); out = r.read(); c.close()
            return r.status, (json.loads(out) if out[:1] == b"{" else {})
        st, out = post("/api/authenticate", {"username": "boss", "password": "boss password 1"})
        token = out.get("session")
        if st != 200 or not token:
            ctx.inconclusive.append("binary leg: administrator login failed (%s)" % st)
            return 0
        def sasl(u, pw):
            s = socket.socket(socket.AF_UNIX); s.settimeout(10); s.connect(sock)
            s.sendall(b"".join(struct.pack(">H", len(x)) + x for x in (u.encode(), pw.encode(), b"imap", b"")))
            data = b""
            try:
                while len(data) < 4:
                    b = s.recv(4096)
                    if not b:
                        break
                    data += b
            except OSError:
                pass
            s.close()
            return data[2:4] == b"OK"
        lib = lambda u, pw: json.loads(subprocess.run([drv, "-cfg", cfg, "-op", "auth", "-user", u, "-pwfile", pw], stdout=subprocess.PIPE).stdout.decode().strip().splitlines()[-1])["ok"]
        n = 0
        for i, u in enumerate(users):
            old, new = "old password of " + u, "new password of %s #%d" % (u, i)
            import threading
            res = {}
            t1 = threading.Thread(target=lambda: res.__setitem__("sasl", sasl(u, old)))
            t2 = threading.Thread(target=lambda: res.__setitem__("upd", post("/api/update", {"session": token, "username": u, "newpassword": new})[0]))
            first, second = (t1, t2) if i % 3 else (t2, t1)
            first.start(); time.sleep([0, 0.002, 0.01, 0.03, 0.06][i % 5]); second.start()
            t1.join(); t2.join()
            time.sleep(0.25)
            n += 1
            if res.get("upd") != 200:
                ctx.inconclusive.append("binary leg: update of %s answered %s" % (u, res.get("upd")))
                continue
            pf = os.path.join(root, "pw"); open(pf, "w").write(new)
            po = os.path.join(root, "pwold"); open(po, "w").write(old)
            if not lib(u, pf) or lib(u, po):
                ctx.violation("C11", "acked-change-undone:across-listeners", "user %s: the password change over the web API was acknowledged (200), "
                              "yet afterwards new password valid=%s, old password valid=%s (saslauthd login with the old password: %s)" % (
                                  u, lib(u, pf), lib(u, po), res.get("sasl")))
        return n
    finally:
        proc.kill(); proc.wait()


def run(ctx):
    thorough = ctx.tier == "thorough"
    suffix = "thorough" if thorough else "quick"
    cov = ctx.coverage
    cov["states"] = cov["transitions"] = 0
    cov["per_config"] = {}
    for mode in ("local", "off"):
        cfg = "MC_Agent_%s_%s.cfg" % (mode, suffix)
        res = ctx.run_tlc("MC_Agent.tla", cfg, workers=16, timeout=1500, heap="12g")
        ctx.tlc_must_pass(res, cfg)
        cov["states"] += res["distinct"]
        cov["transitions"] += res["generated"]
        cov["per_config"][cfg] = {"distinct": res["distinct"], "generated": res["generated"], "status": res["status"]}
    scenarios = []
    # non-vacuity + adversarial scenario: an upgrade applied without re-checking undoes an acknowledged change
    cex, res = af.tlc_cex(ctx, "MC_Agent_bad_norecheck.cfg", "bad_norecheck")
    cov["per_config"]["MC_Agent_bad_norecheck.cfg"] = {"status": res["status"], "expected": "violation"}
    if cex:
        sc = af.scenario_from_cex(cex, "cex-stale-upgrade", "local")
        scenarios.append(sc)
        ctx.sample({"adversarial_scenario": sc["name"], "steps": sc["steps"]})
    # a queued upgrade overtaken by a writer the agent knows nothing of (a CLI command beside it): the upgrade, made for the old
    # password, must be dropped - the directory ends with the external writer's password
    up1 = {"u1": {"present": True, "pw": "p1", "set": 1, "adm": False}, "u2": {"present": True, "pw": "p2", "set": 2, "adm": True}}
    scenarios.append({"name": "upgrade-overtaken-by-external-writer", "mode": "local", "default": 2, "files": up1, "passwords": af.PASSWORDS, "gated": True,
                      "seed": 1, "forced": False, "filler": 0, "novalidate": True,
                      "steps": [{"t": "send", "c": "c1", "k": "auth", "u": "u1", "p": "p1", "a": False}, {"t": "recv"}, {"t": "upsend"},
                                {"t": "extupdate", "u": "u1", "p": "p2"}, {"t": "recv"}, {"t": "free"}],
                      "expect_idle": {"u1": {"set": 2, "pw": "p2", "adm": False}}, "expect_prop": "C11", "expect_key": "acked-change-undone:external-writer"})
    # the stale-upgrade interleaving once more, with a record whose last-change time is the current second: whatever the agent
    # compares to find out that the record has changed since the login, the time stamp's resolution is one second
    for i in range(2):
        scenarios.append({"name": "stale-upgrade-same-second-%d" % i, "mode": "local", "default": 2, "files": up1, "passwords": af.PASSWORDS, "gated": True,
                          "seed": 1, "forced": False, "filler": 0, "novalidate": True,
                          "steps": [{"t": "stampnow", "u": "u1"}, {"t": "send", "c": "c2", "k": "auth", "u": "u1", "p": "p1", "a": False}, {"t": "recv"},
                                    {"t": "send", "c": "c1", "k": "update", "u": "u1", "p": "p2", "a": False}, {"t": "upsend"}, {"t": "recv"}, {"t": "recv"},
                                    {"t": "free"}],
                          "expect_idle": {"u1": {"set": 2, "pw": "p2", "adm": False}}, "expect_prop": "C11", "expect_key": "acked-change-undone:same-second"})
    sims = af.simulated_scenarios(ctx, 40 if not thorough else 400)
    for i, sc in enumerate(sims):       # every second behaviour goes through the real frontends
        if i % 2:
            af.with_frontends(sc, ctx.seed * 31 + i)
    scenarios += sims
    scenarios += af.crosstalk_scenarios()
    nload = 8 if not thorough else 40
    for i in range(nload):
        mode = ["local", ""][i % 2]
        sc = load_scenario("load-%d-%s" % (i, mode or "off"), mode, ctx.seed * 1000 + i,
                           clients=[3, 8, 16][i % 3], calls=10 if not thorough else 30,
                           users=("u1", "u2") if i % 4 else ("u1",))
        scenarios.append(af.with_frontends(sc, i) if i % 2 == 0 else sc)
    # many overlapping logins with different expected answers on one interface / one listener: nobody gets another one's answer
    for i in range(3 if not thorough else 10):
        sc = load_scenario("login-storm-%d" % i, "", ctx.seed * 517 + i, clients=24, calls=30 if not thorough else 60, kinds=["auth"])
        scenarios.append(af.with_frontends(sc, 100 + i) if i % 3 == 2 else sc)
    results, events = af.run_scenarios(ctx, scenarios, "c11")
    nval = af.judge(ctx, scenarios, results, events, "c11", "C11")
    cov["traces_validated_against_impl"] = nval
    cov["binary_cross_listener_rounds"] = binary_leg(ctx, 20 if not thorough else 80)
    # TwoWriters.tla: what the serialisation is for.  Serialised operations are explained by a sequential order (MC_TwoWriters_serial,
    # SomeOrderExplains / OneFilePerUser); the same library calls interleaved freely are not (refuted variants), and the races the
    # model predicts are reproduced with two real processes (the outcomes with two files for one user)
    import fsfam
    tw = [o for o in fsfam.two_writers_model(ctx, thorough) if o["view"]["U"] != "absent" and o["view"]["A"] != "absent"]
    fsfam.two_writer_runs(ctx, fsfam.Driver(ctx), tw, {"torn": "C08", "loser": "C15", "others": "C15", "seq": "C11", "crash": "C11"})
    cov["evaluations"] = len(events)
    cov["distinct_nontrivial"] = len({json.dumps({k: e.get(k) for k in ("ev", "c", "k", "u", "p", "a", "ok")}) for e in events})
    cov["rule"] = ("each recorded run of the real dispatcher (gated model behaviours, TLC counterexamples of wrong "
                   "variants, seeded concurrent loads) is validated line by line against TraceAgent; the exec.* hook "
                   "is the linearization point so validation is linear")
    ctx.assumptions += ["dispatcher scheduling (Go select) is not forced beyond the gated scenarios; every order that "
                        "occurs is judged", "pi identifies passwords by independent digest recomputation"]
