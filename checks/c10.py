"""C10 The agent never wedges: every request is eventually answered."""
import json, os
import agentfam as af


def load_scenario(name, mode, seed, clients, calls, users=("u1", "u2"), kinds=None, files=None):
    kinds = kinds or ["auth", "auth", "update", "add", "remove", "setadmin", "list"]
    files = files or {"u1": {"present": True, "pw": "p1", "set": 1, "adm": False},
                      "u2": {"present": True, "pw": "p2", "set": 2, "adm": True}}
    return {"name": name, "mode": mode, "default": 2, "files": files, "passwords": af.PASSWORDS,
            "gated": False, "seed": seed,
            "steps": [{"t": "load", "clients": clients, "calls": calls, "kinds": kinds,
                       "users": list(users), "pws": ["p1", "p2", "p3"]}, {"t": "free"}]}


def run(ctx):
    thorough = ctx.tier == "thorough"
    suffix = "thorough" if thorough else "quick"
    cov = ctx.coverage
    cov["states"] = cov["transitions"] = 0
    cov["per_config"] = {}
    # 1. the design as implemented: deadlock freedom + every call returns, in every upgrade mode
    for mode in ("local", "off", "remote"):
        cfg = "MC_Agent_%s_%s.cfg" % (mode, suffix)
        res = ctx.run_tlc("MC_Agent.tla", cfg, workers=16, timeout=1500, heap="12g")
        ctx.tlc_must_pass(res, cfg)
        cov["states"] += res["distinct"]
        cov["transitions"] += res["generated"]
        cov["per_config"][cfg] = {"distinct": res["distinct"], "generated": res["generated"],
                                  "status": res["status"], "wall_s": round(res["wall"], 1)}
    # 2. non-vacuity: the blocking self-send must be refuted; its counterexample is replayed on the code
    scenarios = []
    cex, res = af.tlc_cex(ctx, "MC_Agent_bad_blocking.cfg", "bad_blocking")
    cov["per_config"]["MC_Agent_bad_blocking.cfg"] = {"status": res["status"], "expected": "violation",
                                                      "distinct": res["distinct"]}
    if cex:
        sc = af.scenario_from_cex(cex, "cex-blocking-upgrade-send", "local")
        scenarios.append(sc)
        ctx.sample({"adversarial_scenario": sc["name"], "steps": sc["steps"][:8], "n_steps": len(sc["steps"])})
    cex2, res2 = af.tlc_cex(ctx, "MC_Agent_bad_remote_backpressure.cfg", "bad_remote_backpressure")
    cov["per_config"]["MC_Agent_bad_remote_backpressure.cfg"] = {"status": res2["status"], "expected": "violation"}
    # a caller that stops waiting while the reply still goes to its own unbuffered channel: the dispatcher blocks for good
    res3 = ctx.run_tlc("MC_Agent.tla", "MC_Agent_bad_callergivesup.cfg", workers=4, timeout=600)
    cov["per_config"]["MC_Agent_bad_callergivesup.cfg"] = {"status": res3["status"], "expected": "violation (deadlock)"}
    if res3["status"] != "violation":
        ctx.inconclusive.append("wrong variant MC_Agent_bad_callergivesup.cfg not refuted (%s)" % res3["status"])
    # the same wedge at the real capacities (10 uploads + 10 queued + 2): a master that accepts and never answers
    up = {"u1": {"present": True, "pw": "p1", "set": 1, "adm": False}, "u2": {"present": True, "pw": "p2", "set": 2, "adm": True}}
    scenarios.append({"name": "stalled-master-burst", "mode": "stalled", "default": 2, "files": up,
                      "passwords": af.PASSWORDS, "gated": False, "seed": 1,
                      "steps": [{"t": "load", "clients": 1, "calls": 40, "kinds": ["auth"], "users": ["u1"], "pws": ["p1"]},
                                {"t": "load", "clients": 4, "calls": 6, "kinds": ["auth", "list", "update"], "users": ["u1", "u2"],
                                 "pws": ["p1", "p2"]}, {"t": "free"}]})
    # many logins of one upgradeable user at once: all but the first queued upgrade are outdated when their turn comes and
    # must simply be skipped (the dispatcher goes on serving)
    for i, (cl, calls) in enumerate(((8, 3), (2, 2), (16, 2))):
        scenarios.append({"name": "login-burst-upgradeable-%d" % i, "mode": "local", "default": 2, "files": up, "passwords": af.PASSWORDS,
                          "gated": False, "seed": 1 + i,
                          "steps": [{"t": "load", "clients": cl, "calls": calls, "kinds": ["auth"], "users": ["u1"], "pws": ["p1"]},
                                    {"t": "sleep", "n": 50},
                                    {"t": "load", "clients": 2, "calls": 3, "kinds": ["auth", "list", "update"], "users": ["u1", "u2"], "pws": ["p1", "p2"]},
                                    {"t": "free"}]})
    # the same under gates: the second login is served while the first login's upgrade request is still queued (Go's select
    # chooses between the two ready channels, hence several attempts), then a list call must still be answered
    A = lambda c: {"t": "send", "c": c, "k": "auth", "u": "u1", "p": "p1", "a": False}
    for i in range(8 if not thorough else 24):
        scenarios.append({"name": "double-login-queued-upgrade-%d" % i, "mode": "local", "default": 2, "files": up, "passwords": af.PASSWORDS,
                          "gated": True, "seed": 1, "forced": False, "filler": 0,
                          "steps": [A("c1"), {"t": "recv"}, {"t": "upsend"}, A("c2"), {"t": "recv"}, {"t": "upsend"}, {"t": "recv"}, {"t": "recv"},
                                    {"t": "send", "c": "c3", "k": "list", "u": "", "p": "", "a": False}, {"t": "recv"}, {"t": "free"}]})
    # a request that waits long in its queue (the dispatcher is held for 6 s by its gate): it is answered when its turn comes and
    # the caller is still there to take the answer - no give-up on either side may leave the dispatcher stuck
    for via in ("api", "sasl") if not thorough else ("api", "sasl", "http", "ldap", "basic"):
        scenarios.append({"name": "slow-turn-%s" % via, "mode": "", "default": 2, "files": up, "passwords": af.PASSWORDS, "gated": True,
                          "seed": 1, "forced": False, "filler": 0, "frontends": via != "api", "http_admin": ["u2", "p2"],
                          "steps": ([{"t": "token"}] if via != "api" else []) +
                                   [{"t": "send", "c": "c1", "k": "auth", "u": "u1", "p": "p1", "a": False, "via": via}, {"t": "sleep", "n": 6000},
                                    {"t": "recv"}, {"t": "send", "c": "c2", "k": "list", "u": "", "p": "", "a": False}, {"t": "recv"},
                                    {"t": "send", "c": "c3", "k": "auth", "u": "u2", "p": "p2", "a": False, "via": via}, {"t": "recv"}, {"t": "free"}]})
    # ... and longer than any round number a caller might give up after (10 s; thorough: 30 s, 60 s): whoever stops waiting,
    # the dispatcher must go on serving
    for hold in ([11000] if not thorough else [11000, 31000, 61000]):
        scenarios.append({"name": "very-slow-turn-%d" % hold, "mode": "", "default": 2, "files": up, "passwords": af.PASSWORDS, "gated": True,
                          "seed": 1, "forced": False, "filler": 0,
                          "steps": [{"t": "send", "c": "c1", "k": "auth", "u": "u1", "p": "p1", "a": False}, {"t": "sleep", "n": hold},
                                    {"t": "recv"}, {"t": "send", "c": "c2", "k": "list", "u": "", "p": "", "a": False}, {"t": "recv"},
                                    {"t": "send", "c": "c3", "k": "auth", "u": "u2", "p": "p2", "a": False}, {"t": "recv"}, {"t": "free"}]})
    # web clients that hang up while their login waits for its turn: nobody is there to take the answer, the dispatcher goes on
    scenarios.append({"name": "web-clients-hang-up", "mode": "", "default": 2, "files": up, "passwords": af.PASSWORDS, "gated": True, "seed": 1,
                      "forced": False, "filler": 0, "frontends": True, "http_admin": ["u2", "p2"], "novalidate": True,
                      "steps": [{"t": "hangup", "u": "u1", "p": "p1", "n": 4}, {"t": "sleep", "n": 800},
                                {"t": "send", "c": "c1", "k": "list", "u": "", "p": "", "a": False},
                                {"t": "send", "c": "c2", "k": "auth", "u": "u2", "p": "p2", "a": False, "via": "sasl"}, {"t": "free"}]})
    # a hooks directory that is unusable (world-writable) while many changes are made: whatever the hooks caller does about it,
    # the notifications must keep being taken off their channel (capacity 32)
    hd2 = os.path.join(ctx.scratch, "c10-hooks-bad.d")
    os.makedirs(hd2, exist_ok=True)
    open(os.path.join(hd2, "10-log"), "w").write("#!/bin/sh\nexit 0\n")
    os.chmod(os.path.join(hd2, "10-log"), 0o755)
    scenarios.append({"name": "hooks-dir-unusable-many-changes", "mode": "", "default": 2, "files": up, "passwords": af.PASSWORDS, "gated": False, "seed": 7,
                      "novalidate": True, "hooks_dir": hd2,
                      "steps": [{"t": "chmodhooks", "n": 0o777}, {"t": "load", "clients": 4, "calls": 30, "quiet": True, "kinds": ["update", "update", "auth"],
                                                                  "users": ["u1"], "pws": ["p1", "p3"]},
                                {"t": "chmodhooks", "n": 0o755}, {"t": "send", "c": "c9", "k": "list", "u": "", "p": "", "a": False}, {"t": "free"}]})
    # reloads on an agent without a hooks directory (the default): the new-store messages must keep being taken off their channel
    scenarios.append({"name": "reloads-without-hooks-dir", "mode": "", "default": 2, "files": up, "passwords": af.PASSWORDS, "gated": False, "seed": 1,
                      "novalidate": True,
                      "steps": [{"t": "send", "c": "c1", "k": "auth", "u": "u1", "p": "p1", "a": False}, {"t": "hup", "n": 2}, {"t": "send", "c": "c2", "k": "list", "u": "", "p": "", "a": False},
                                {"t": "hup", "n": 2}, {"t": "send", "c": "c3", "k": "list", "u": "", "p": "", "a": False}, {"t": "hup", "n": 2},
                                {"t": "send", "c": "c4", "k": "auth", "u": "u2", "p": "p2", "a": False}, {"t": "free"}]})
    # ... and with one (the hooks caller runs its real loop): reloads without any change in between, then changes
    hd = os.path.join(ctx.scratch, "c10-hooks.d")
    os.makedirs(hd, exist_ok=True)
    open(os.path.join(hd, "10-log"), "w").write("#!/bin/sh\nexit 0\n")
    os.chmod(os.path.join(hd, "10-log"), 0o755)
    scenarios.append({"name": "reloads-with-hooks-dir", "mode": "", "default": 2, "files": up, "passwords": af.PASSWORDS, "gated": False, "seed": 1,
                      "novalidate": True, "hooks_dir": hd,
                      "steps": [{"t": "send", "c": "c1", "k": "update", "u": "u1", "p": "p3", "a": False}, {"t": "hup", "n": 2}, {"t": "hup", "n": 2}, {"t": "hup", "n": 2},
                                {"t": "send", "c": "c2", "k": "auth", "u": "u2", "p": "p2", "a": False}, {"t": "send", "c": "c3", "k": "update", "u": "u1", "p": "p1", "a": False},
                                {"t": "hup", "n": 2}, {"t": "hup", "n": 2}, {"t": "send", "c": "c4", "k": "list", "u": "", "p": "", "a": False}, {"t": "free"}]})
    # the upgrade queue (= the update queue in local mode) kept near its capacity by clients while logins of an upgradeable user
    # keep asking for upgrades; every write fails with an I/O error, so the user stays upgradeable
    scenarios.append({"name": "upgrade-queue-at-capacity", "mode": "local", "default": 2, "files": up, "passwords": af.PASSWORDS, "gated": False, "seed": 5,
                      "novalidate": True,
                      "steps": [{"t": "breaktmp"}, {"t": "load", "clients": 13, "calls": 12000 if not thorough else 60000, "quiet": True,
                                                    "kinds": ["update", "update", "update", "auth"], "users": ["u1"], "pws": ["p1"]}, {"t": "fixtmp"}, {"t": "free"}]})
    scenarios += af.simulated_scenarios(ctx, 12 if not thorough else 100)
    # transient accept errors (EMFILE) must not stop the saslauthd frontend from answering
    scenarios.append({"name": "sasl-accept-emfile", "mode": "", "default": 2, "files": up, "passwords": af.PASSWORDS,
                      "gated": False, "seed": 1, "frontends": True, "http_admin": ["u2", "p2"],
                      "steps": [{"t": "fdstorm", "u": "u1", "p": "p1"}, {"t": "free"}]})
    # 3. seeded concurrent load, all modes (an unreachable master for remote)
    nload = 6 if not thorough else 30
    for i in range(nload):
        mode = ["local", "", "http://127.0.0.1:9/api/update"][i % 3]
        sc = load_scenario("load-%d-%s" % (i, (mode or "off")[:6]), mode, ctx.seed * 100 + i,
                           clients=16 if i % 2 else 6, calls=12 if not thorough else 40)
        scenarios.append(af.with_frontends(sc, i) if i % 2 else sc)
    results, events = af.run_scenarios(ctx, scenarios, "c10")
    nval = af.judge(ctx, scenarios, results, events, "c10", "C10")
    cov["traces_validated_against_impl"] = nval
    cov["evaluations"] = len(events)
    cov["distinct_nontrivial"] = len({json.dumps({k: e.get(k) for k in ("ev", "c", "k", "u", "p", "a", "ok")}) for e in events})
    cov["scenarios"] = [r["name"] for r in results]
    cov["rule"] = "events recorded from the real dispatcher; distinct = distinct (event, client, op, args, result) tuples"
    # the process around the dispatcher: one goroutine per listener, start-up environments of Listeners.tla on the real binary
    import listenfam
    cov["listener_probes"] = listenfam.replay(ctx, "C10")
    # the hooks loop and the dispatcher: notification channel exactly full, then a reload, then the loop goes on
    import c19
    cov["hooks_full_queue_reload_scenarios"] = c19.full_queue_reload_leg(ctx, "C10")
    ctx.assumptions += ["liveness is proved on the bounded model (3 clients, capacity 2) under weak fairness of the "
                        "dispatcher, hooks consumer and upgrader; on the code it is observed as completion of finite "
                        "gated scenarios and seeded loads within a watchdog",
                        "Go's select choice cannot be forced; gated scenarios keep one channel ready at each receive"]
