"""Binding A for Listeners.tla (C04, C10): every start-up environment of the model (which listener address can be bound,
which certificate can be read) is built for real, the real `whawty-auth run` binary is started in it and compared with the
declarative outcome `Expected(env)` the state machine is tied to by its invariants:

  serves  the listener answers and every credential class gets exactly the store's verdict (LDAP / LDAPS: the name is
          cut at '@'), over TLS for https / ldaps (self-signed certificate made with openssl)
  dead    the address could not be bound: nobody may answer there on behalf of the agent
  mute    the certificate could not be read: the code leaves the bound port behind, nobody accepts; no verdict may come
  alive   the process keeps running iff at least one listener serves; with none it ends by itself

The wrong design FailFast (one listener that cannot start stops the agent) is refuted by TLC on every run."""
import base64, concurrent.futures, http.client, json, os, random, shutil, socket, ssl, struct, subprocess, time
import fsfam

PW = b"correct horse"
ORDER = ["sasl1", "sasl2", "http", "https", "ldap", "ldaps"]


def _free_port():
    s = socket.socket()
    s.bind(("127.0.0.1", 0))
    p = s.getsockname()[1]
    s.close()
    return p


def _ber(tag, content):
    n = len(content)
    if n < 128:
        ln = bytes([n])
    else:
        b = n.to_bytes((n.bit_length() + 7) // 8, "big")
        ln = bytes([0x80 | len(b)]) + b
    return bytes([tag]) + ln + content


_CTX = ssl.create_default_context()
_CTX.check_hostname = False
_CTX.verify_mode = ssl.CERT_NONE


def probe_sasl(path, user, pw, tmo=5):
    s = socket.socket(socket.AF_UNIX)
    s.settimeout(tmo)
    s.connect(path)
    s.sendall(b"".join(struct.pack(">H", len(x)) + x for x in (user, pw, b"imap", b"")))
    data = b""
    try:
        while True:
            b = s.recv(65536)
            if not b:
                break
            data += b
    except OSError:
        pass
    s.close()
    return len(data) >= 4 and data[2:4] == b"OK"


def probe_http(port, user, pw, tls, tmo=5, mode="basic"):
    c = (http.client.HTTPSConnection("127.0.0.1", port, timeout=tmo, context=_CTX) if tls
         else http.client.HTTPConnection("127.0.0.1", port, timeout=tmo))
    if mode == "basic":
        c.putrequest("GET", "/basic-auth")
        c.putheader("Authorization", "Basic " + base64.b64encode(user + b":" + pw).decode())
        c.endheaders()
        r = c.getresponse()
        r.read()
        c.close()
        return r.status == 200
    c.request("POST", "/api/authenticate", body=json.dumps({"username": user.decode(), "password": pw.decode()}),
              headers={"Content-Type": "application/json"})
    r = c.getresponse()
    out = r.read()
    c.close()
    try:
        return r.status == 200 and bool(json.loads(out).get("session"))
    except Exception:
        return False


def probe_ldap(port, user, pw, tls, tmo=5):
    msg = _ber(0x30, _ber(0x02, b"\x01") + _ber(0x60, _ber(0x02, b"\x03") + _ber(0x04, user) + _ber(0x80, pw)))
    s = socket.create_connection(("127.0.0.1", port), timeout=tmo)
    if tls:
        s = _CTX.wrap_socket(s)
    s.sendall(msg)
    data = b""
    try:
        while len(data) < 2 or len(data) < 2 + data[1]:
            b = s.recv(4096)
            if not b:
                break
            data += b
    except OSError:
        pass
    s.close()
    i = data.find(b"\x61")
    if i < 0:
        return False
    j = data.find(b"\x0a\x01", i)
    return j >= 0 and data[j + 2] == 0


CREDS = {"u/right": (b"alice", PW), "u/wrong": (b"alice", b"not the password"), "u@realm/right": (b"alice@corp.example", PW),
         "nobody/right": (b"nobody", PW)}


def make_cert(root):
    crt, key = os.path.join(root, "tls.crt"), os.path.join(root, "tls.key")
    r = subprocess.run(["openssl", "req", "-x509", "-newkey", "rsa:2048", "-nodes", "-keyout", key, "-out", crt, "-days", "2",
                        "-subj", "/CN=localhost"], stdout=subprocess.PIPE, stderr=subprocess.STDOUT)
    return (crt, key) if r.returncode == 0 and os.path.exists(crt) else None


def one_env(ctx, exe, root, edge, cert, idx):
    """Returns (violations [(prop, key, detail)], inconclusive [str], probes)."""
    env, exp, alive, verdicts = edge["env"], edge["expected"], edge["alive"], edge["verdicts"]
    tag = ",".join("%s=%s" % (l, env[l]) for l in ORDER if env[l] != "ok") or "all-ok"
    d = os.path.join(root, "e%d" % idx)
    shutil.rmtree(d, ignore_errors=True)
    base = os.path.join(d, "base")
    os.makedirs(base, mode=0o700)
    open(os.path.join(base, "alice.admin"), "wb").write(fsfam.scrypt_record(PW).encode())
    cfg = os.path.join(d, "store.yaml")
    open(cfg, "w").write(fsfam.CFG % (base, base64.b64encode(fsfam.HMAC1).decode()))
    holders, viol, inc, n = [], [], [], 0
    addr = {}
    # --- the environment
    for l in ("sasl1", "sasl2"):
        if env[l] == "ok":
            addr[l] = os.path.join(d, l + ".sock")
            if l == "sasl2":
                open(addr[l], "w").write("stale")            # a stale entry at the path is removed by the agent first
        elif l == "sasl1":
            addr[l] = os.path.join(d, "no-such-dir", "s.sock")
        else:
            addr[l] = os.path.join(d, "occupied")            # a non-empty directory: cannot be removed, cannot be bound
            os.makedirs(os.path.join(addr[l], "x"))
    for l in ("http", "https", "ldap", "ldaps"):
        if env[l] == "busy":
            h = socket.socket()
            h.bind(("127.0.0.1", 0))
            h.listen(8)
            holders.append(h)
            addr[l] = h.getsockname()[1]
        else:
            addr[l] = _free_port()
    def tlsblock(l):
        crt = cert[0] if env[l] != "badtls" else os.path.join(d, "missing.crt")
        return "  tls:\n    certificate: %s\n    certificate-key: %s\n" % (crt, cert[1])
    lcfg = os.path.join(d, "listener.yaml")
    open(lcfg, "w").write(
        "saslauthd:\n  listen:\n  - %s\n  - %s\n" % (addr["sasl1"], addr["sasl2"]) +
        "http:\n  listen:\n  - 127.0.0.1:%d\n" % addr["http"] +
        "https:\n  listen:\n  - 127.0.0.1:%d\n%s" % (addr["https"], tlsblock("https")) +
        "ldap:\n  listen:\n  - 127.0.0.1:%d\n" % addr["ldap"] +
        "ldaps:\n  listen:\n  - 127.0.0.1:%d\n%s" % (addr["ldaps"], tlsblock("ldaps")))
    logf = open(os.path.join(d, "agent.log"), "wb")
    proc = subprocess.Popen([exe, "--store", cfg, "run", "--listener", lcfg], stdout=logf, stderr=subprocess.STDOUT)
    def probe(l, c, tmo=5):
        u, p = CREDS[c]
        if l.startswith("sasl"):
            return [("sasl", probe_sasl(addr[l], u, p, tmo))]
        if l in ("http", "https"):
            return [("basic", probe_http(addr[l], u, p, l == "https", tmo, "basic")), ("json", probe_http(addr[l], u, p, l == "https", tmo, "json"))]
        return [("bind", probe_ldap(addr[l], u, p, l == "ldaps", tmo))]
    try:
        # --- serving listeners come up (in any order) and answer with the store's verdict
        for l in ORDER:
            if exp[l] != "serves":
                continue
            up, last = False, ""
            for _ in range(160):
                try:
                    probe(l, "u/wrong", 2)
                    up = True
                    break
                except (OSError, http.client.HTTPException, ssl.SSLError) as ex:
                    last = repr(ex)
                    if proc.poll() is not None:
                        break
                    time.sleep(0.05)
            if not up:
                viol.append(("C10", "listeners:not-serving:%s:%s" % (l, tag),
                             "listener %s can bind and read its certificate but does not answer (%s); process %s" % (
                                 l, last, "exited %s" % proc.returncode if proc.poll() is not None else "running")))
                continue
            for c in sorted(CREDS):
                try:
                    for how, got in probe(l, c):
                        n += 1
                        if got != verdicts[l][c]:
                            viol.append(("C04", "listeners:verdict:%s:%s:%s:%s" % (l, how, c, "accepted" if got else "denied"),
                                         "environment %s: %s over %s answered %s, the store's verdict for the name this transport must use is %s" % (
                                             tag, c, l, got, verdicts[l][c])))
                except (OSError, http.client.HTTPException, ssl.SSLError) as ex:
                    viol.append(("C10", "listeners:error:%s:%s" % (l, tag), "%s on %s: %r" % (c, l, ex)))
        # --- listeners that did not come up give no verdicts
        for l in ORDER:
            if exp[l] == "serves":
                continue
            if l.startswith("sasl") or exp[l] == "mute":
                for c in ("u/right",):
                    try:
                        res = probe(l, c, 1)
                    except (OSError, http.client.HTTPException, ssl.SSLError):
                        res = []
                    n += 1
                    if any(got for _, got in res):
                        viol.append(("C04", "listeners:verdict-from-dead-listener:%s" % l, "environment %s: a positive answer came from %s (%s)" % (tag, l, exp[l])))
        # --- the process lives iff somebody serves
        if alive:
            time.sleep(0.3)
            if proc.poll() is not None:
                viol.append(("C10", "listeners:agent-exited:%s" % tag, "the agent ended (status %s) although %s can serve" % (
                    proc.returncode, [l for l in ORDER if exp[l] == "serves"])))
        else:
            try:
                proc.wait(timeout=10)
            except subprocess.TimeoutExpired:
                inc.append("environment %s: no listener can serve, the model says the process ends, it is still running after 10 s" % tag)
    finally:
        if proc.poll() is None:
            proc.kill()
            proc.wait()
        for h in holders:
            h.close()
        logf.close()
        shutil.rmtree(d, ignore_errors=True)
    return viol, inc, n


def select(edges, tier, seed):
    if tier == "thorough":
        return edges
    def bad(e):
        return sum(1 for v in e["env"].values() if v != "ok")
    keep = [e for e in edges if bad(e) <= 1 or bad(e) >= 5]
    rest = [e for e in edges if e not in keep]
    random.Random(seed).shuffle(rest)
    return keep + rest[:14]


def replay(ctx, prop):
    """TLC on Listeners (code, liveness, wrong variant) + replay of the start-up environments; returns number of probes."""
    res = ctx.run_tlc("Listeners.tla", "MC_Listeners_code.cfg", workers=4, timeout=300)
    if not ctx.tlc_must_pass(res, "MC_Listeners_code.cfg"):
        return 0
    live = ctx.run_tlc("Listeners.tla", "MC_Listeners_live.cfg", workers=2, timeout=300)
    ctx.tlc_must_pass(live, "MC_Listeners_live.cfg")
    bad = ctx.run_tlc("Listeners.tla", "MC_Listeners_bad_failfast.cfg", workers=1, timeout=300)
    if bad["status"] != "violation":
        ctx.inconclusive.append("the wrong variant FailFast of Listeners was not refuted (%s)" % bad["status"])
    edges = [e for e in res["edges"] if "env" in e]
    root = os.path.join(ctx.scratch, "listen-" + prop)
    os.makedirs(root, exist_ok=True)
    cert = make_cert(root)
    if not cert:
        ctx.inconclusive.append("openssl could not make a certificate for the TLS listeners")
        return 0
    exe = ctx.build_agent()
    sel = select(edges, ctx.tier, ctx.seed)
    n = 0
    with concurrent.futures.ThreadPoolExecutor(max_workers=8) as ex:
        futs = [ex.submit(one_env, ctx, exe, root, e, cert, i) for i, e in enumerate(sel)]
        for f in futs:
            try:
                viol, inc, k = f.result()
            except Exception as exn:
                ctx.inconclusive.append("listener replay crashed: %r" % exn)
                continue
            n += k
            for p, key, detail in viol:
                ctx.violation(p, key, detail)
            ctx.inconclusive += inc
    cov = ctx.coverage
    cov["states"] = cov.get("states", 0) + res["distinct"] + live["distinct"]
    cov["listeners"] = {"model_states": res["distinct"], "model_transitions": res["generated"], "liveness_states": live["distinct"],
                        "environments_in_model": len(edges), "environments_replayed_on_binary": len(sel), "probes": n,
                        "wrong_variant_failfast": bad["status"] == "violation",
                        "rule": "each start-up environment of Listeners.tla is built for real (occupied ports, missing socket directory, unreadable "
                                "certificate), the binary is started in it; serving listeners (incl. https and ldaps over TLS, two saslauthd sockets) "
                                "must answer every credential class with the store's verdict, the others never positively, the process lives iff one serves"}
    return n
