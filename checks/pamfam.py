"""Replay of the PamClient model's server scripts against the compiled, unmodified pam_whawty.c
(stub PAM headers, AddressSanitizer + UBSan) with a scripted unix-socket server (C20, encoder part of C13)."""
import concurrent.futures, os, re, socket, struct, subprocess, threading, time, json

TIMEOUT_S = 1
PREFIX = {"OK": b"OK", "OK-msg": b"OK successfully authenticated", "NO": b"NO", "NO-msg": b"NO wrong credentials",
          "O": b"O", "empty": b"", "KO": b"KO", "ok-lowercase": b"ok", "OK-256": b"OK ", "OK-257": b"OK ", "NO-65535": b"NO ",
          "OK-65535": b"OK ", "OK-declared-longer": b"OK m", "OK-declared-shorter": b"OK abcdef", "NO-then-OK": b"NOOK x",
          "len0-then-OK": b"OK", "len1-O-then-K": b"OK"}


def body_of(r):
    """The reply body for a model reply: its characteristic prefix, padded/cut to the model's byte count."""
    b = PREFIX[r["id"]]
    return (b + b"m" * r["body"])[:r["body"]]


CREDS = [(b"alice", b"secret"), (b"u" * 255, b"p" * 255), (b"u" * 256, b"p" * 256), (b"u" * 257, b"p" * 257),
         (b"x" * 4096, b"y" * 5000), (b"", b""), (b"a", b"\xc3\xbc\xff:\n pw"), (b"bob@example.org", b"p" * 300)]
OPTS = [["use_first_pass"], ["try_first_pass", "debug"], [], ["debug", "not_set_pass"], ["bogus_option", "timeout=0"],
        ["timeout=abc", "use_first_pass"], ["sock=", "use_first_pass"], ["timeout=-1", "debug"], ["timeout=-7", "use_first_pass"],
        ["timeout=", "debug", "use_first_pass"]]


def build(ctx):
    repo = ctx.snapshot_repo()
    exe = os.path.join(ctx.scratch, "bin", "pamdrv")
    os.makedirs(os.path.dirname(exe), exist_ok=True)
    hp = os.path.join(os.path.dirname(os.path.dirname(os.path.abspath(__file__))), "harness", "pam")
    r = subprocess.run(["clang", "-g", "-O1", "-fsanitize=address,undefined", "-fno-omit-frame-pointer", "-Wall", "-Wl,--wrap=write", "-Wl,--wrap=send",
                        "-I" + os.path.join(hp, "stub"), "-o", exe, os.path.join(hp, "pamdrv.c"),
                        os.path.join(repo, "pam", "pam_whawty.c")], stdout=subprocess.PIPE, stderr=subprocess.STDOUT, text=True)
    if r.returncode != 0:
        ctx.fatal("cannot compile pam_whawty.c with the stub headers:\n" + r.stdout[-2000:])
    return exe


def enc(b):
    b = b[:256]
    return struct.pack(">H", len(b)) + b


def expected_request(user, pw):
    return enc(user) + enc(pw) + b"\0\0" + b"\0\0"


def run_script(exe, work, idx, edge, creds=None, writecap=0):
    s = edge["script"]
    r = s["reply"]
    user, pw = creds or CREDS[idx % len(CREDS)]
    if creds is None:                 # short writes on the agent's socket, rotating over the scripts
        writecap = [0, 0, 1, 0, 5, 0, 64][idx % 7]
    opts = OPTS[(idx // 3) % len(OPTS)] if creds is None else ["use_first_pass"]
    if r["body"] >= 250 and "debug" not in opts:          # long replies always also with the debug log on
        opts = opts + ["debug"]
    if s.get("prompt") == "slow":     # the script is about the conversation: the password must come from it
        opts = [o for o in opts if o not in ("use_first_pass", "try_first_pass")]
    mode = "conv" if "use_first_pass" not in opts and "try_first_pass" not in opts else "stack"
    d = os.path.join(work, "c%d" % idx)
    os.makedirs(d, exist_ok=True)
    open(os.path.join(d, "user"), "wb").write(user)
    open(os.path.join(d, "pw"), "wb").write(pw)
    sock = os.path.join(d, "s")
    got = bytearray()
    srv = None
    state = {"accepted": False}
    reply = struct.pack(">H", r["L"]) + body_of(r)
    assert len(reply) == 2 + r["body"], (r, len(reply))
    stop = threading.Event()

    def serve():
        try:
            c, _ = srv.accept()
        except Exception:
            return
        state["accepted"] = True
        c.settimeout(0.05)

        def drain():
            try:
                while True:
                    b = c.recv(65536)
                    if not b:
                        return
                    got.extend(b)
            except Exception:
                return
        t0 = time.time()
        delay = {"none": 0.0, "short": 0.35, "long": 1.7}[s["delay"]]
        if not s.get("reads", True):      # a server that does not read the request: (part of) its reply at once, then close
            try:
                if reply[:s["cut"]]:
                    c.sendall(reply[:s["cut"]])
                c.close()
            except Exception:
                pass
            return
        while time.time() - t0 < delay:
            drain()
        drain()
        try:
            out = reply[:s["cut"]]
            if len(out) > 3:              # two segments, so that the length and the body arrive separately
                c.sendall(out[:2]); time.sleep(0.02); c.sendall(out[2:])
            elif out:
                c.sendall(out)
        except Exception:
            pass
        if s["after"] == "close":
            drain()
            try:
                c.shutdown(socket.SHUT_RDWR)
            except Exception:
                pass
            c.close()
        else:
            stop.wait(8)
            drain()
            c.close()

    th = None
    if s["reachable"]:
        srv = socket.socket(socket.AF_UNIX, socket.SOCK_STREAM)
        if os.path.exists(sock):
            os.unlink(sock)          # a re-run of the same script
        srv.bind(sock)
        srv.listen(4)
        srv.settimeout(6)
        th = threading.Thread(target=serve, daemon=True)
        th.start()
    argv = [exe, os.path.join(d, "user"), os.path.join(d, "pw"), mode, "4" if s["staleErrno"] else "0"]
    argv += [o for o in opts if not o.startswith("sock=") and not o.startswith("timeout=")] + ["timeout=%d" % TIMEOUT_S, "sock=" + sock]
    argv += [o for o in opts if o.startswith("timeout=") and (not o[8:].isdigit() or o == "timeout=0")]   # invalid ones: must be ignored
    env = dict(os.environ, ASAN_OPTIONS="detect_leaks=1:abort_on_error=0", UBSAN_OPTIONS="print_stacktrace=1:halt_on_error=0")
    if writecap:
        env["PAMDRV_WRITECAP"] = str(writecap)
    prompt_ms = 0
    if s.get("prompt") == "slow" and mode == "conv":   # the conversation takes longer than the socket timeout
        prompt_ms = TIMEOUT_S * 1000 + 500
        env["PAMDRV_PROMPT_DELAY_MS"] = str(prompt_ms)
    if s.get("signals", "none") != "none":     # handled signals in the host process, spaced closer than the timeout
        env["PAMDRV_SIGNALS"] = "%s:%d" % (s["signals"], 400)
    t0 = time.time()
    try:
        p = subprocess.run(argv, stdout=subprocess.PIPE, stderr=subprocess.PIPE, timeout=9, env=env)
        out, err, rc, hung = p.stdout.decode(), p.stderr.decode(errors="replace"), p.returncode, False
    except subprocess.TimeoutExpired as ex:
        out, err, rc, hung = "", "", -9, True
    wall = time.time() - t0
    stop.set()
    if th:
        th.join(2)
    if srv:
        srv.close()
    m = re.search(r"RC (\d+) MS (\d+)", out)
    return {"idx": idx, "edge": edge, "hung": hung, "rc": int(m.group(1)) if m else None, "ms": int(m.group(2)) if m else None,
            "wall": wall, "stderr": err[-1500:], "exit": rc, "request": bytes(got), "accepted": state["accepted"],
            "want_request": expected_request(user, pw), "creds": (len(user), len(pw)), "opts": opts, "prompt_ms": prompt_ms}


def judge(ctx, results, prop="C20"):
    n = 0
    for r in results:
        s = r["edge"]["script"]
        tag = "%s/cut=%s/%s/%s%s%s" % (s["reply"]["id"], s["cut"], s["delay"], s["after"], "/stale-errno" if s["staleErrno"] else "",
                                       "/signals-" + s["signals"] if s.get("signals", "none") != "none" else "")
        n += 1
        if r["hung"]:
            key = "no-termination:stale-errno-eintr" if s["staleErrno"] and s["after"] == "close" else "no-termination:" + tag
            if r.get("prompt_ms"):
                key = "no-termination:slow-conversation"
            if s.get("signals", "none") != "none":
                key = "no-termination:signals-" + s["signals"]
            ctx.violation(prop, key, "pam_sm_authenticate did not return within 9 s (script %s, errno on entry %s)" % (tag, "EINTR" if s["staleErrno"] else 0))
            continue
        if r["exit"] == -13:
            ctx.violation(prop, "killed-by-sigpipe:" + ("no-read" if not s.get("reads", True) else tag), "the process that called pam_sm_authenticate was "
                          "killed by SIGPIPE (script %s, user/pw lengths %s): no PAM code at all" % (tag, r["creds"]))
            continue
        if "AddressSanitizer" in r["stderr"] or "runtime error" in r["stderr"] or r["exit"] not in (0,):
            ctx.violation(prop, "memory-error:" + s["reply"]["id"], "exit %s: %s" % (r["exit"], r["stderr"][-800:]))
            continue
        if r["rc"] is None:
            ctx.inconclusive.append("pamdrv gave no result for %s" % tag)
            continue
        success = r["rc"] == 0
        if success != r["edge"]["success"]:
            ctx.violation(prop, "success=%s:%s" % (success, tag), "model success=%s, module returned %d after %d ms (user/pw lengths %s, options %s)" % (
                r["edge"]["success"], r["rc"], r["ms"], r["creds"], r["opts"]))
        if r["ms"] - r.get("prompt_ms", 0) > 4500:
            ctx.violation(prop, "too-slow:" + tag, "%d ms with timeout=%d" % (r["ms"], TIMEOUT_S))
        if s["reachable"] and r["accepted"] and s.get("reads", True) and not (s["delay"] == "none" and s["after"] == "close" and s["cut"] > 0):
            # the request is complete whenever the server kept reading (it may stop early once it has answered and closed)
            if r["request"] != r["want_request"]:
                ctx.violation(prop, "request-bytes:%d/%d" % r["creds"], "module sent %d bytes %r..., the wire format is %d bytes %r..." % (
                    len(r["request"]), r["request"][:12], len(r["want_request"]), r["want_request"][:12]))
    return n


def run_all(ctx, edges, workers=48):
    exe = build(ctx)
    work = os.path.join(ctx.scratch, "pam")
    os.makedirs(work, exist_ok=True)
    with concurrent.futures.ThreadPoolExecutor(max_workers=workers) as ex:
        results = list(ex.map(lambda ie: run_script(exe, work, ie[0], ie[1]), enumerate(edges)))
    # the module waits at most TIMEOUT_S for the scripted server; on a loaded machine the server thread itself can be late.
    # A result that could be explained by that (an expected success that came out as "unavailable", or a slow return) is
    # re-run alone; a defect of the module shows again, a scheduling hiccup does not.
    for k, r in enumerate(results):
        late = (r["edge"]["success"] and r["rc"] not in (0, None) and not r["hung"]) or (r["ms"] is not None and r["ms"] > 4500)
        for _ in range(2):
            if not late:
                break
            r2 = run_script(exe, work, r["idx"], r["edge"])
            late = (r2["edge"]["success"] and r2["rc"] not in (0, None) and not r2["hung"]) or (r2["ms"] is not None and r2["ms"] > 4500)
            if not late:
                results[k] = r2
    return results


def run_sequence(exe, work, idx, edges):
    """Several authentications in ONE process (one scripted server each): the module must not carry state over."""
    d = os.path.join(work, "q%d" % idx)
    os.makedirs(d, exist_ok=True)
    open(os.path.join(d, "user"), "wb").write(b"alice")
    open(os.path.join(d, "pw"), "wb").write(b"secret")
    socks, threads, srvs = [], [], []
    for k, e in enumerate(edges):
        s = e["script"]
        sp = os.path.join(d, "s%d" % k)
        socks.append(sp)
        if not s["reachable"]:
            continue
        srv = socket.socket(socket.AF_UNIX, socket.SOCK_STREAM)
        if os.path.exists(sp):
            os.unlink(sp)
        srv.bind(sp)
        srv.listen(2)
        srv.settimeout(8)
        srvs.append(srv)
        reply = struct.pack(">H", s["reply"]["L"]) + body_of(s["reply"])

        def serve(srv=srv, reply=reply, s=s):
            try:
                c, _ = srv.accept()
            except Exception:
                return
            c.settimeout(0.05)
            try:
                c.recv(65536)
            except Exception:
                pass
            try:
                if reply[:s["cut"]]:
                    c.sendall(reply[:s["cut"]])
                c.shutdown(socket.SHUT_RDWR)
            except Exception:
                pass
            c.close()
        t = threading.Thread(target=serve, daemon=True)
        t.start()
        threads.append(t)
    env = dict(os.environ, ASAN_OPTIONS="detect_leaks=1:abort_on_error=0", PAMDRV_SOCKS=",".join(socks))
    try:
        p = subprocess.run([exe, os.path.join(d, "user"), os.path.join(d, "pw"), "stack", "0", "use_first_pass", "timeout=%d" % TIMEOUT_S],
                           stdout=subprocess.PIPE, stderr=subprocess.PIPE, timeout=12, env=env)
        rcs = [int(x) for x in re.findall(r"RC (\d+)", p.stdout.decode())]
        err = p.stderr.decode(errors="replace")[-800:]
    except subprocess.TimeoutExpired:
        rcs, err = None, "timeout"
    for t in threads:
        t.join(1)
    for srv in srvs:
        srv.close()
    return {"edges": edges, "rcs": rcs, "stderr": err}


def judge_sequences(ctx, results, prop="C20"):
    n = 0
    for r in results:
        n += 1
        if r["rcs"] is None or len(r["rcs"]) != len(r["edges"]):
            ctx.violation(prop, "sequence:no-result", "%s %s" % (r["rcs"], r["stderr"][-300:]))
            continue
        for k, (e, rc) in enumerate(zip(r["edges"], r["rcs"])):
            if (rc == 0) != e["success"]:
                s = e["script"]
                ctx.violation(prop, "sequence:call-%d-success=%s:%s/cut=%s" % (k + 1, rc == 0, s["reply"]["id"], s["cut"]),
                              "authentication %d of one process returned %d, the server script demands success=%s (previous replies: %s)" % (
                                  k + 1, rc, e["success"], [x["script"]["reply"]["id"] for x in r["edges"][:k]]))
    return n


GRID = [0, 1, 2, 127, 128, 254, 255, 256, 257, 300, 511, 512, 513, 4096]


def encoder_grid(ctx, saslreplay_exe, edge, prop="C13"):
    """The module's request bytes against the bytes of the real Go encoder for the same fields, for every pair of
    boundary lengths (fields over the 256-byte limit: the module clamps them, the Go encoder is given the clamped field)."""
    import random
    rng = random.Random(ctx.seed)
    exe = build(ctx)
    work = os.path.join(ctx.scratch, "pamgrid")
    os.makedirs(work, exist_ok=True)
    creds = []
    for lu in GRID:
        for lp in GRID:
            u = bytes(rng.choice(b"abcdefghijklmnopqrstuvwxyz0123456789@._-") for _ in range(lu))
            p = bytes(rng.randrange(1, 256) for _ in range(lp))         # arbitrary bytes except NUL (C strings)
            creds.append((u, p))
    gin, gout = os.path.join(work, "grid.json"), os.path.join(work, "golden.json")
    json.dump([[u[:256].hex(), p[:256].hex()] for u, p in creds], open(gin, "w"))
    r = subprocess.run([saslreplay_exe, "-encgrid", gin, "-out", gout], stdout=subprocess.PIPE, stderr=subprocess.STDOUT, text=True)
    if r.returncode != 0:
        ctx.fatal("saslreplay -encgrid failed: " + r.stdout[-1500:])
    golden = json.load(open(gout))
    caps = [0, 1, 3, 100, 255, 257]      # bytes accepted per write(): unlimited, and short writes of several sizes
    with concurrent.futures.ThreadPoolExecutor(max_workers=32) as ex:
        results = list(ex.map(lambda ic: run_script(exe, work, ic[0], edge, creds=ic[1], writecap=caps[ic[0] % len(caps)]), enumerate(creds)))
    n = 0
    for res, g, (u, p) in zip(results, golden, creds):
        if g.get("err"):
            ctx.violation(prop, "go-encoder-refused:%d/%d" % (len(u[:256]), len(p[:256])), g["err"])
            continue
        if res["hung"] or not res["accepted"]:
            ctx.inconclusive.append("pam encoder grid: no request recorded for %d/%d" % (len(u), len(p)))
            continue
        n += 1
        want = bytes.fromhex(g["bytes"])
        if res["request"] != want:
            ctx.violation(prop, "pam-encoder-differs:%d/%d" % (len(u), len(p)),
                          "module sent %d bytes %r..., the Go encoder gives %d bytes %r..." % (len(res["request"]), res["request"][:8], len(want), want[:8]))
    return n
