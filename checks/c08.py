"""C08 A crash at any instant leaves each hash file old-complete or new-complete."""
import fsfam

WRONG = {"MC_StoreFS_bad_nofsynctmp.cfg": "CrashAtomic", "MC_StoreFS_bad_inplace.cfg": "CrashAtomic",
         "MC_StoreFS_bad_inplace_reader.cfg": "ReaderSeesWhole"}


def model(ctx, wrong):
    res = ctx.run_tlc("MC_StoreFS.tla", "MC_StoreFS_code.cfg", workers=1, timeout=300)
    ctx.tlc_must_pass(res, "MC_StoreFS_code.cfg")
    cov = ctx.coverage
    cov["states"] = cov.get("states", 0) + res["distinct"]
    cov["transitions"] = cov.get("transitions", 0) + res["generated"]
    cov.setdefault("per_config", {})["MC_StoreFS_code.cfg"] = {"distinct": res["distinct"], "status": res["status"]}
    for cfg, inv in wrong.items():
        r = ctx.run_tlc("MC_StoreFS.tla", cfg, workers=1, timeout=300)
        refuted = r["status"] == "violation" and any(inv in e for e in r["errors"])
        cov["per_config"][cfg] = {"status": r["status"], "expected": "violation of " + inv, "refuted": refuted}
        if not refuted:
            ctx.inconclusive.append("wrong variant %s not refuted (%s %s)" % (cfg, r["status"], r["errors"][:1]))


def run(ctx):
    model(ctx, WRONG)
    drv = fsfam.Driver(ctx)
    cases = fsfam.standard_cases(ctx.tier == "thorough")
    bl = fsfam.baselines(ctx, drv, cases)
    fsfam.judge_traces(ctx, [(b["case"], b["lines"]) for b in bl], "syscalls")
    per_case, nkill, njobs = fsfam.kill_runs(ctx, drv, bl)
    fsfam.judge_traces(ctx, per_case, "killstates")
    nread, nreadjobs = fsfam.reader_runs(ctx, drv, bl)
    nslow, nslowjobs = fsfam.slow_reader_runs(ctx, drv)
    ctx.coverage["slow_reader_runs"] = {"judged": nslow, "reader_calls_on_the_user_file": nslowjobs}
    # TwoWriters.tla: a second writer process working on the same user while the first is inside its operation - whatever the
    # interleaving, a final name never shows a torn or mixed record (WholeFiles), checked on real process pairs
    tw = [o for o in fsfam.two_writers_model(ctx, ctx.tier == "thorough") if o["cut"] not in ("statA", "done")]
    fsfam.two_writer_runs(ctx, drv, tw, {"torn": "C08", "loser": "C15", "others": "C08", "seq": "C15", "crash": "C08"})
    cov = ctx.coverage
    cov["concurrent_reader_observations"] = nread
    cov["traces_validated_against_impl"] = len(bl) + nkill
    cov["evaluations"] = len(bl) + nkill
    cov["distinct_nontrivial"] = nkill
    cov["kill_points_requested"] = njobs
    cov["rule"] = ("one strace'd run per operation instance, plus one run killed before each of its mutating system "
                   "calls; distinct_nontrivial = kill runs whose injection was verified to land on the intended call")
    ctx.sample({"case": bl[0]["case"].name, "posixfs_events": bl[0]["lines"]})
    ctx.assumptions += ["standard persistence model (data durable after fsync of the file, directory entries after "
                        "fsync of the directory, rename atomic); power loss is modelled, not performed",
                        "strace -e inject kills the process instead of executing the call (verified per run by the "
                        "position of the last logged call)"]
