"""C07 Session tokens are unforgeable, instance-bound, identity-bound and expire."""
import json, os
import vlib


def run(ctx):
    thorough = ctx.tier == "thorough"
    res = ctx.run_tlc("Session.tla", "MC_Session_quick.cfg", workers=1, timeout=600)
    ctx.tlc_must_pass(res, "MC_Session_quick.cfg")
    edges = res["edges"]
    if not thorough:          # quick: every edge of the states with at most one tick of history per token pair
        edges = [e for i, e in enumerate(edges) if e["now"] <= 3]
    inp = os.path.join(ctx.scratch, "session.edges.ndjson")
    vlib.write_ndjson(inp, edges)
    outp = os.path.join(ctx.scratch, "session.result.json")
    rc, out = ctx.inpkg_test(["session_test.go"], "TestVerifSession", timeout=1500, env={"VERIF_IN": inp, "VERIF_OUT": outp})
    if rc != 0 or not os.path.exists(outp):
        ctx.fatal("session replay failed (rc %d):\n%s" % (rc, out[-3000:]))
    r = json.load(open(outp))
    for v in r["violations"] or []:
        ctx.violation("C07", v["key"], v["detail"], edge=v.get("edge"))
    cov = ctx.coverage
    cov.update({"states": res["distinct"], "transitions": res["generated"],
                "traces_validated_against_impl": r["edges"], "evaluations": r["checks"],
                "distinct_nontrivial": len({json.dumps(e, sort_keys=True) for e in edges}),
                "per_kind": r["per_kind"], "tokens_generated_for_nonce_check": r["generated"],
                "distinct_nonces": r["distinct_nonces"], "exhaustive": True,
                "rule": "every Check edge of the bounded Session model is concretised against real webSessionFactory "
                        "objects: every bit / every truncation length / every text position for the first token of a "
                        "state, 8 positions otherwise; evaluations = calls of webSessionFactory.Check"})
    for e in edges[:2] + edges[len(edges) // 2:len(edges) // 2 + 1]:
        ctx.sample(e)
    ctx.assumptions += ["AES-GCM is an ideal AEAD (cryptographic strength assumed)",
                        "back-dated tokens are produced with the factory's own sealToken (white box) instead of waiting; "
                        "one real-time expiry (1 s lifetime, 2.2 s wait) is exercised per run",
                        "the base64 text layer is outside the property: a text mutation that decodes to the same bytes is the same token"]
