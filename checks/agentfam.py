"""Bindings for the Agent module (C10, C11, C12, C17, C19 notify side).

Scenarios (JSON) are generated from TLC counterexamples of the wrong variants and from simulated
behaviours of the code variant, executed by harness/inpkg/agent_test.go against the real dispatcher
(gates steer it, a watchdog detects wedges), and the recorded event trace is validated by TLC
against TraceAgent.tla (every Agent invariant evaluated at every step of the real trace)."""
import json, os, re, shutil, subprocess, copy
import vlib

REAL_CAP = 10
CHANS = ["auth", "update", "add", "remove", "setadmin", "list"]

PASSWORDS = {"p1": "correct horse", "p2": "Tr0ub4dor&3", "p3": "x", "": ""}


def copy_concrete(ctx):
    ctx.snapshot_repo()
    dst = os.path.join(ctx.repo, "verifconcrete")
    shutil.rmtree(dst, ignore_errors=True)
    shutil.copytree(os.path.join(vlib.VERIF, "harness", "go", "concrete"), dst)


# ----------------------------------------------------------------------------- model -> scenario
def steps_from_states(states, actions, cap_model):
    """states: list of model states (dicts), actions[i] = name of the action leading to states[i+1].
    Returns (steps, forced) where forced says whether every receive had a single non-empty channel."""
    steps, deferred, realq = [], [], {k: 0 for k in CHANS}
    forced = True
    filler = 0

    def real_send(req):
        steps.append({"t": "send", "c": req["c"], "k": req["op"]["k"], "u": req["op"]["u"],
                      "p": req["op"]["p"], "a": req["op"]["a"]})
        realq[req["op"]["k"]] += 1

    for i, act in enumerate(actions):
        s, n = states[i], states[i + 1]
        if act == "ClientSend":
            c = [c for c in s["cl"] if s["cl"][c]["pc"] == "calling" and n["cl"][c]["pc"] == "waiting"][0]
            deferred.append({"c": c, "op": s["cl"][c]["op"]})
        elif act == "DispRecv":
            k = n["disp"]["req"]["op"]["k"]
            if n["disp"]["req"]["c"] != "upgrade":
                for r in [r for r in deferred if r["op"]["k"] == k]:
                    real_send(r)
                    deferred.remove(r)
            if any(realq[o] for o in CHANS if o != k):
                forced = False
            steps.append({"t": "recv"})
            realq[k] = max(0, realq[k] - 1)
        elif act == "DispReload":
            steps.append({"t": "hup", "n": n["dflt"]})
        elif act == "DispUpgradeSend":
            for r in list(deferred):
                real_send(r)
                deferred.remove(r)
            # the model's channel capacity is smaller than the real one: pad a full model channel
            if len(s["chans"]["update"]) >= cap_model and s["chans"]["update"]:
                tmpl = s["chans"]["update"][-1]
                while realq["update"] < REAL_CAP:
                    filler += 1
                    real_send({"c": "f%d" % filler, "op": tmpl["op"]})
            steps.append({"t": "upsend"})
            if len(n["chans"]["update"]) > len(s["chans"]["update"]):
                realq["update"] += 1
    last = states[-1]
    if last["disp"]["pc"] == "upsend":     # a deadlock counterexample stops right before the send
        for r in list(deferred):
            real_send(r)
            deferred.remove(r)
        if len(last["chans"]["update"]) >= cap_model and last["chans"]["update"]:
            tmpl = last["chans"]["update"][-1]
            while realq["update"] < REAL_CAP:
                filler += 1
                real_send({"c": "f%d" % filler, "op": tmpl["op"]})
        steps.append({"t": "upsend"})
    for r in deferred:
        real_send(r)
    steps.append({"t": "free"})
    return steps, forced, filler


def scenario_from_cex(path, name, mode, cap_model=2):
    d = json.load(open(path))["counterexample"]
    states = [s[1] for s in d["state"]]
    actions = [a[1]["name"] for a in d["action"]]
    # TLC lists actions as [[from-state], {name..}, [to-state]] triples; align defensively
    if len(actions) >= len(states):
        actions = actions[:len(states) - 1]
    steps, forced, filler = steps_from_states(states, actions, cap_model)
    files = {u: {"present": f["present"], "pw": f["pw"], "set": f["set"], "adm": f["adm"]}
             for u, f in states[0]["files"].items()}
    if any(st.get("t") == "hup" for st in steps) and not any(f["present"] and f["adm"] for f in files.values()):
        files["u9"] = {"present": True, "pw": "p2", "set": 2, "adm": True}     # a reload is refused unless the directory has an administrator
    return {"name": name, "mode": "local" if mode == "local" else ("" if mode == "off" else mode),
            "default": 2, "files": files, "passwords": PASSWORDS, "steps": steps, "gated": True,
            "seed": 1, "forced": forced, "filler": filler}


def tlc_cex(ctx, cfg, name):
    """Run a wrong-variant config; TLC must find a violation; returns path of the JSON counterexample."""
    out = os.path.join(ctx.scratch, name + ".cex.json")
    res = ctx.run_tlc("MC_Agent.tla", cfg, workers=4, timeout=600, name=name,
                      extra=["-dumpTrace", "json", out])
    if res["status"] != "violation" or not os.path.exists(out):
        ctx.inconclusive.append("wrong variant %s was not refuted by TLC (status %s): non-vacuity test failed"
                                % (cfg, res["status"]))
        return None, res
    return out, res


# ----------------------------------------------------------------------------- run + validate
def run_scenarios(ctx, scenarios, label):
    copy_concrete(ctx)
    work = os.path.join(ctx.scratch, "agent-" + label)
    os.makedirs(work, exist_ok=True)
    inp = os.path.join(work, "scenarios.json")
    json.dump(scenarios, open(inp, "w"))
    rc, out = ctx.inpkg_test(["agent_test.go"], "TestVerifAgentScenarios", timeout=1500,
                             env={"VERIF_IN": inp, "VERIF_OUT": work,
                                  "VERIF_SCRATCH": os.path.join(ctx.scratch, "agentdirs-" + label)})
    if rc != 0 or not os.path.exists(os.path.join(work, "results.json")):
        ctx.fatal("agent scenario driver failed (rc %d):\n%s" % (rc, out[-3000:]))
    results = json.load(open(os.path.join(work, "results.json")))
    events = [json.loads(l) for l in open(os.path.join(work, "trace.ndjson"))]
    return results, events


TRACE_CFG = """SPECIFICATION TraceSpec
CONSTANTS
    Clients = {%(clients)s}
    Users = {%(users)s}
    Pws = {%(pws)s}
    Sets = {1, 2, 3}
    Default = %(default)d
    PolicyOK = {%(policyok)s}
    Cap = 10
    NCap = 32
    UCap = 10
    SemCap = 10
    Mode = "%(mode)s"
    UpgradeSend = "drop"
    UpgradeRecheck = "full"
    UpgraderSem = "drop"
    Reloads = {}
    IOFaults = TRUE
    CallerWait = "forever"
    MaxCalls = 1
    Kinds = {"auth", "update", "add", "remove", "setadmin", "list"}
    InitFiles <- MCInit1
    TraceFile = "trace.ndjson"
CONSTRAINT TraceConstraint
INVARIANTS TraceAckedNotUndone TraceOwed TraceNoUpgradeWhenOff
POSTCONDITION TraceAccepted
CHECK_DEADLOCK FALSE
"""


def q(xs):
    return ", ".join('"%s"' % x for x in sorted(xs))


def validate(ctx, events, mode, name, default=2, policyok=None):
    """Validates a concatenation of recorded runs against TraceAgent; returns (accepted, line, detail)."""
    clients = {e["c"] for e in events if e.get("c")} | {"c1"}
    users = set()
    for e in events:
        if e["ev"] in ("reset", "idle"):
            users |= set(e["files"].keys())
    absent = {"present": False, "pw": "", "set": 0, "adm": False}
    for e in events:
        if e["ev"] in ("reset", "idle"):
            e["files"] = {u: e["files"].get(u, absent) for u in users}
    events = [dict(e) for e in events]
    for e in events:   # TLC's Json module wants uniform records; nested maps only where read
        e.pop("err", None)
        e.pop("policyok", None)
        e.pop("via", None)
        e.pop("master", None)
        e.pop("master_hits", None)
        e.setdefault("admknown", True)
        e.pop("seq", None)
        e.pop("ts", None)
        e.pop("checkerr", None)
    trace = "".join(json.dumps(e, separators=(",", ":")) + "\n" for e in events)
    if policyok is None or (policyok and "/" not in list(policyok)[0]):     # tags only: the verdict does not depend on the user
        tags = policyok if policyok is not None else ("p1", "p2", "p3")
        policyok = ["%s/%s" % (u, t) for u in users for t in tags]
    pws = {"p1", "p2", "p3", "p4"} | {e["p"] for e in events if e.get("p")} | {f.get("pw") for e in events if e["ev"] in ("reset", "idle")
                                                                                for f in e["files"].values() if f.get("pw")}
    cfg = TRACE_CFG % {"clients": q(clients), "users": q(users), "default": default,
                       "policyok": q(policyok), "mode": mode, "pws": q(sorted(pws))}
    res = ctx.run_tlc("MC_TraceAgent.tla", "trace.cfg", workers=1, timeout=900, name="trace-" + name,
                      defines={"trace.ndjson": trace, "trace.cfg": cfg})
    hwm = None
    inv = None
    for line in open(res["outfile"]):
        m = re.match(r'<<"HWM", (\d+), (\d+)>>', line)
        if m:
            hwm = (int(m.group(1)), int(m.group(2)))
        m = re.match(r"Error: Invariant (\w+) is violated", line)
        if m:
            inv = m.group(1)
    res["hwm"], res["inv"] = hwm, inv
    if res["status"] == "ok" and hwm and hwm[0] == hwm[1] + 1:
        return True, res
    if res["status"] in ("timeout", "error") and not inv and not hwm:
        tail = subprocess.run(["tail", "-30", res["outfile"]], stdout=subprocess.PIPE, text=True).stdout
        ctx.inconclusive.append("trace validation %s did not run: %s\n%s" % (name, res["status"], tail))
        return None, res
    return False, res


def classify_rejection(events, res, default_prop):
    """Which property does a rejected real trace violate?  Based on the first line TLC could not match."""
    if res.get("inv") == "TraceAckedNotUndone":
        # the only writer besides the clients is the internal hash upgrade: both C11 and C12 forbid what happened
        return ("C12" if default_prop == "C12" else "C11"), "acked-change-undone", "an acknowledged client write was changed by something else (an internal upgrade)"
    if res.get("inv") == "TraceOwed":
        return "C19", "notify-mismatch", "notifications do not match successful mutations"
    if res.get("inv") == "TraceNoUpgradeWhenOff":
        return "C12", "upgrade-while-off", "an upgrade request exists although upgrades are off"
    hwm = res.get("hwm")
    if not hwm:
        return default_prop, "trace-rejected", "trace rejected (no high-water mark)"
    i = hwm[0] - 1            # 0-based index of the first unmatched line
    e = events[i] if i < len(events) else {"ev": "?"}
    prev = events[i - 1] if i > 0 else {"ev": "?"}
    d = "line %d %s (previous: %s)" % (hwm[0], json.dumps(e)[:300], json.dumps(prev)[:200])
    if e["ev"] == "upskip":
        return "C12", "valid-upgrade-skipped", "an upgrade whose password still authenticates was skipped: " + d
    if e["ev"] == "upbegin":
        return "C12", "upgrade-without-request", "an upgrade began that no successful login had requested: " + d
    pd = next((x for x in reversed(events[:i]) if x["ev"] in ("exec", "upbegin", "upskip", "upsent", "updrop", "notify", "reset")), {"ev": "?"})
    if e["ev"] == "exec" and pd["ev"] == "upbegin":
        return ("C12" if default_prop == "C12" else "C11"), "stale-upgrade-applied", "upgrade applied although its password no longer authenticates / hash no longer upgradeable: " + d
    start = max((j for j in range(i + 1) if events[j]["ev"] == "reset"), default=0)
    if e["ev"] == "upsent":
        # the send belongs to a successful login with an upgradeable hash: if there is one in this run that has not had its
        # send yet, the send was merely overtaken by another request's execution - requests were not executed one at a time
        owed = 0
        for x in events[start:i]:
            if x["ev"] == "exec" and x["k"] == "auth" and x["ok"] and x["upg"] and x["u"] == e["u"] and x["p"] == e["p"]:
                owed += 1
            elif x["ev"] in ("upsent", "updrop") and x["u"] == e["u"] and x["p"] == e["p"]:
                owed -= 1
        if owed > 0 and not (pd["ev"] == "exec" and pd["k"] == "auth" and pd["u"] == e["u"] and pd["p"] == e["p"]):
            return "C11", "overlapping-execution", "another request was executed between a login and its upgrade send: " + d
        return "C12", "upgrade-without-upgradeable-login", d
    if e["ev"] == "notify" or (e["ev"] in ("exec", "upbegin") and pd["ev"] == "exec" and pd["k"] in ("update", "add", "remove", "setadmin") and pd["ok"]):
        if e["ev"] == "exec":
            # was the notification skipped, or only overtaken by an execution that should not have been possible yet?
            nxt = next((x for x in events[i + 1:] if x["ev"] in ("notify", "reset") or (x["ev"] == "exec" and x["k"] in ("update", "add", "remove", "setadmin") and x["ok"])), None)
            if nxt is not None and nxt["ev"] == "notify":
                return "C11", "overlapping-execution", "a request was executed while the dispatcher had not finished the previous one: " + d
        return "C19", "notify-mismatch", d
    if e["ev"] == "exec" and e["k"] == "auth":
        # (the response as a whole is what C11 speaks about; the flag by itself is C12's subject)
        return (("C11" if default_prop == "C11" else "C12"), "auth-upgradeable-flag", d) if e["ok"] else ("C11", "auth-response", d)
    if e["ev"] == "exec":
        return "C11", "exec-%s-response" % e["k"], d
    if e["ev"] == "ret":
        return "C11", "response-not-linearizable", d
    if e["ev"] == "idle":
        return "C11", "idle-directory-differs", d
    return default_prop, "trace-rejected", d


# ----------------------------------------------------------------------------- simulated behaviours
AUTH_VIAS = ["api", "sasl", "http", "basic", "ldap"]
WRITE_VIAS = ["api", "http"]


def with_frontends(sc, seed):
    """Route the scenario's client calls through the real frontends (seeded choice per call)."""
    import random
    rng = random.Random(seed)
    sc["frontends"] = True
    sc["http_admin"] = ["u2", "p2"]
    for st in sc["steps"]:
        if st.get("t") == "send":
            if st["k"] == "auth":
                st["via"] = rng.choice(AUTH_VIAS) if st["u"] and PASSWORDS.get(st["p"], "") else "api"
            else:
                st["via"] = rng.choice(WRITE_VIAS)
        elif st.get("t") == "load":
            st["vias"] = AUTH_VIAS
    sc["steps"] = [{"t": "token"}] + sc["steps"]
    return sc


def crosstalk_scenarios():
    """Two overlapping logins for one account with different passwords / a write acknowledged only after it
    was executed - through every frontend, with the dispatcher held so that the requests really overlap."""
    files = {"u1": {"present": True, "pw": "p1", "set": 2, "adm": False},
             "u2": {"present": True, "pw": "p2", "set": 2, "adm": True}}
    out = []
    for via in ("sasl", "http", "basic", "ldap", "api"):
        for order in (("p1", "p2"), ("p2", "p1")):
            steps = [{"t": "token"},
                     {"t": "send", "c": "a", "k": "auth", "u": "u1", "p": order[0], "a": False, "via": via},
                     {"t": "send", "c": "b", "k": "auth", "u": "u1", "p": order[1], "a": False, "via": via},
                     {"t": "send", "c": "d", "k": "auth", "u": "u2", "p": order[0], "a": False, "via": via},
                     {"t": "recv"}, {"t": "recv"}, {"t": "recv"}, {"t": "free"}]
            out.append({"name": "crosstalk-%s-%s" % (via, order[0]), "mode": "", "default": 2, "files": files,
                        "passwords": PASSWORDS, "steps": steps, "gated": True, "seed": 1, "frontends": True,
                        "http_admin": ["u2", "p2"]})
    for k, u, p, a in (("remove", "u1", "", False), ("update", "u1", "p3", False), ("setadmin", "u1", "", True),
                       ("add", "u3", "p3", False)):
        steps = [{"t": "token"},
                 {"t": "send", "c": "w", "k": k, "u": u, "p": p, "a": a, "via": "http"},
                 {"t": "sleep", "n": 30},
                 {"t": "send", "c": "r", "k": "auth", "u": u, "p": "p1", "a": False, "via": "sasl"},
                 {"t": "sleep", "n": 30},
                 {"t": "recv"}, {"t": "recv"}, {"t": "free"}]
        f3 = dict(files)
        f3["u3"] = {"present": False, "pw": "", "set": 0, "adm": False}
        out.append({"name": "ack-after-exec-%s" % k, "mode": "", "default": 2, "files": f3, "passwords": PASSWORDS,
                    "steps": steps, "gated": True, "seed": 1, "frontends": True, "http_admin": ["u2", "p2"]})
    return out


def simulated_scenarios(ctx, n, mode="local", cfg="MC_SimAgent.cfg"):
    """Behaviours of the code variant generated by `tlc -simulate` on SimAgent (history variable of
    steering steps: sends, receives with a single ready channel, upgrade sends)."""
    res = ctx.run_tlc("MC_SimAgent.tla", cfg, workers=1, simulate=n * 2, depth=100, timeout=300, name="sim-" + mode)
    out, kept = [], []
    uniq = {json.dumps(h): h for h in res["hists"] if h}
    for key in sorted(uniq, key=len, reverse=True):          # keep maximal histories only
        if any(k.startswith(key[:-1]) for k in kept):
            continue
        kept.append(key)
        h = uniq[key]
        steps = [dict(x) for x in h] + [{"t": "free"}]
        out.append({"name": "sim-%d" % len(out), "mode": "local" if mode == "local" else "", "default": 2,
                    "files": {"u1": {"present": True, "pw": "p1", "set": 1, "adm": False},
                              "u2": {"present": True, "pw": "p2", "set": 2, "adm": True}},
                    "passwords": PASSWORDS, "steps": steps, "gated": True, "seed": len(out),
                    "forced": all(x.get("forced", True) for x in h)})
        if len(out) >= n:
            break
    if not out:
        ctx.inconclusive.append("no simulated behaviours produced by %s (%s)" % (cfg, res["status"]))
    ctx.coverage.setdefault("per_config", {})[cfg] = {"behaviours": len(out), "forced": sum(1 for o in out if o["forced"]), "status": res["status"]}
    return out


# ----------------------------------------------------------------------------- grouped validation + post checks
MODE_NAME = {"local": "local", "": "off"}   # anything else (http://..., "stalled") is remote


def judge(ctx, scenarios, results, events, name, default_prop):
    """Validates every non-hung scenario (grouped by the constants of the trace spec) and applies the
    per-scenario expectations that are not part of the trace spec. Returns number of validated runs."""
    groups = {}
    for r, sc in zip(results, scenarios):
        if r["hung"]:
            ctx.violation("C10", "wedge:" + r["where"].replace(" ", "-"), "scenario %s hung: %s" % (r["name"], r["where"]))
            if ctx.pid != "C10":      # this run's own property could not be judged on that scenario
                ctx.inconclusive.append("scenario %s hung (%s): attributed to C10, the scenario was not judged for %s" % (r["name"], r["where"], ctx.pid))
            continue
        evs = events[r["first"]:r["last"]]
        reset = evs[0]
        idle = next((e for e in reversed(evs) if e["ev"] == "idle"), None)
        mode = MODE_NAME.get(sc["mode"], "remote")
        key = (mode, tuple(reset.get("policyok") or ()), sc.get("default", 2))
        if not sc.get("novalidate"):      # (two agents in one process share the hook sink: their events cannot be told apart)
            groups.setdefault(key, []).extend(evs)
        for e in evs:      # a successful reload uses the default parameter set of the configuration on disk
            if e["ev"] == "reloadok" and str(e.get("n")) != str(e.get("p")):
                ctx.violation("C12" if ctx.pid == "C12" else "C18", "reload-keeps-old-default",
                              "scenario %s: the configuration on disk names default %s, after the reload the agent uses %s" % (sc["name"], e.get("n"), e.get("p")))
        # ---- expectations outside the trace spec
        if idle is None:
            ctx.inconclusive.append("scenario %s produced no idle event" % sc["name"])
            continue
        for u, f in idle["files"].items():
            if f.get("aux") == "other":
                ctx.violation("C12" if ctx.pid == "C12" and mode == "local" else "C15", "aux-damaged:%s" % sc["name"].split("-")[0], "auxiliary data of %s changed in %s" % (u, sc["name"]))
        for u, want in (sc.get("expect_idle") or {}).items():
            got = idle["files"].get(u, {})
            bad = {k: (got.get(k), v) for k, v in want.items() if got.get(k) != v}
            if bad:
                ctx.violation(sc.get("expect_prop", default_prop), sc.get("expect_key", "idle-expectation") ,
                              "scenario %s: user %s at idle: %s (got, wanted)" % (sc["name"], u, bad))
        for u, want in (sc.get("expect_master") or {}).items():
            got = (idle.get("master") or {}).get(u, {})
            bad = {k: (got.get(k), v) for k, v in want.items() if got.get(k) != v}
            if bad:
                ctx.violation(sc.get("expect_prop", default_prop), sc.get("expect_key_master", "master-expectation"),
                              "scenario %s: user %s on the master at idle: %s (got, wanted); master served %s requests" % (
                                  sc["name"], u, bad, idle.get("master_hits")))
        pol = reset.get("policyok") or []
        if pol:     # whatever the trace says: no password failing the policy may have found its way into the directory
            for u, f in idle["files"].items():
                was = (reset["files"].get(u) or {}).get("pw")
                if f.get("present") and f.get("pw") not in (was, "?") and ("%s/%s" % (u, f["pw"])) not in pol:
                    ctx.violation("C17", "policy-failing-password-in-store", "scenario %s: user %s now has password %s, which fails the policy %r" % (
                        sc["name"], u, f["pw"], sc.get("policy_cond")))
        if sc.get("expect_unchanged") and idle.get("dirsha") != reset.get("dirsha"):
            ctx.violation(sc.get("expect_prop", default_prop), sc.get("expect_key", "directory-changed"),
                          "scenario %s: the store directory changed byte-wise although it must not" % sc["name"])
    n = 0
    # validate each group in chunks of whole runs (a run starts at its `reset` line): the cost of a step grows with the
    # number of client identities in the trace, so short traces in parallel are much cheaper than one long one
    jobs = []
    for (mode, pol, default), evs in groups.items():
        n += sum(1 for e in evs if e["ev"] == "reset")
        starts = [i for i, e in enumerate(evs) if e["ev"] == "reset"] + [len(evs)]
        chunk, k = [], 0
        for a, b in zip(starts, starts[1:]):
            if chunk and len(chunk) + (b - a) > 5000:
                jobs.append((mode, pol, default, chunk, k)); chunk = []; k += 1
            chunk = chunk + evs[a:b]
        if chunk:
            jobs.append((mode, pol, default, chunk, k))
    import concurrent.futures
    with concurrent.futures.ThreadPoolExecutor(max_workers=6) as ex:
        outs = list(ex.map(lambda j: validate(ctx, j[3], j[0], "%s-%s-%d-%d" % (name, j[0], abs(hash(j[1])) % 10000, j[4]), default=j[2],
                                              policyok=list(j[1]) or None), jobs))
    for (mode, pol, default, evs, k), (ok, tres) in zip(jobs, outs):
        if ok is False:
            prop, key, detail = classify_rejection(evs, tres, default_prop)
            i = (tres.get("hwm") or (1, 0))[0] - 1
            e = evs[i] if 0 <= i < len(evs) else {}
            pairs = set(pol) if pol else None
            passes = lambda ev: pairs is None or ("%s/%s" % (ev.get("u"), ev.get("p"))) in pairs
            if e.get("ev") == "exec" and e.get("k") in ("add", "update", "init") and e.get("ok") and not passes(e):
                prop, key = "C17", "policy-failing-password-stored:%s" % e["k"]
            elif e.get("ev") == "ret" and e.get("k") in ("add", "update") and not e.get("ok") and "policy" in str(e.get("err", "")):
                prop, key = "C17", "policy-ok-password-refused:%s" % e["k"]
            a = max((j for j in range(min(i, len(evs) - 1) + 1) if evs[j]["ev"] == "reset"), default=0)
            b = next((j for j in range(i + 1, len(evs)) if evs[j]["ev"] == "reset"), len(evs))
            ctx.violation(prop, key, detail, run_events=evs[a:b][:400], rejected_at=i - a + 1)
            if prop != ctx.pid:
                # the rest of this trace could not be judged: this run cannot claim that its own property held
                ctx.inconclusive.append("a recorded trace of this check is not a behaviour of TraceAgent (reason attributed to %s: %s %s); "
                                        "the remaining events were not validated" % (prop, key, detail[:300]))
    return n
