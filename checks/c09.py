"""C09 Acknowledged changes survive power loss."""
import fsfam
from c08 import model

WRONG = {"MC_StoreFS_bad_nofsyncdir.cfg": "AckDurableS", "MC_StoreFS_bad_nosetadminsync.cfg": "AckDurableS",
         "MC_StoreFS_bad_noremovesync.cfg": "AckDurableS", "MC_StoreFS_orig.cfg": "AckDurableS"}


def run(ctx):
    model(ctx, WRONG)
    drv = fsfam.Driver(ctx)
    cases = fsfam.standard_cases(ctx.tier == "thorough")
    bl = fsfam.baselines(ctx, drv, cases)
    fsfam.judge_traces(ctx, [(b["case"], b["lines"]) for b in bl], "syscalls")
    # a failing fsync must not be reported as success: fail each fsync / directory open once and judge the
    # system calls that really happened, together with the reported result, by the same invariants
    n, jobs, per_case = fsfam.fault_runs(ctx, drv, bl, errnos=("EIO", "ENOSPC"), only_calls=("fsync", "fdatasync", "openat"))
    fsfam.judge_traces(ctx, per_case, "faulted")
    cov = ctx.coverage
    cov["fault_traces_validated"] = n
    cov["traces_validated_against_impl"] = len(bl) + n
    cov["evaluations"] = sum(len(b["lines"]) for b in bl)
    cov["distinct_nontrivial"] = len({str(b["lines"]) for b in bl})
    cov["rule"] = ("one strace'd run per operation instance; TLC evaluates AckDurable / NoVisibleBeforeDurable over every "
                   "power-loss view (any subset of pending directory operations lost, any torn version of un-fsynced "
                   "data) after every real system call")
    for b in bl[:3]:
        ctx.sample({"case": b["case"].name, "posixfs_events": b["lines"]})
    ctx.assumptions += ["standard persistence model; power loss is derived by TLC from the observed call order, not performed"]
