"""C19 Update hooks: no change un-notified, bursts coalesced, only safe files run."""
import json, os, random, re
import vlib
import agentfam as af
from c10 import load_scenario

RATE_MS = 180


def scenarios(seed, n):
    rng = random.Random(seed)
    S = lambda ms: {"t": "sleep", "ms": ms}
    C = {"t": "change"}
    out = [
        {"name": "single", "steps": [C]},
        {"name": "two-in-interval", "steps": [C, S(40), C]},
        {"name": "many-in-interval", "steps": [C, S(20), {"t": "burst", "n": 6}]},
        {"name": "burst-40", "steps": [{"t": "burst", "n": 40}]},
        {"name": "just-before-timer", "steps": [C, S(RATE_MS - 25), C]},
        {"name": "just-after-timer", "steps": [C, S(RATE_MS + 25), C]},
        {"name": "two-intervals", "steps": [C, S(30), C, S(RATE_MS + 30), C, S(30), C, S(30), C]},
        {"name": "reload-then-change", "steps": [C, S(RATE_MS * 2), {"t": "reload", "s": "B"}, S(30), C]},
        {"name": "hanging-hook", "hang": True, "steps": [C, S(RATE_MS + 40), C, S(30), C]},
        # the hooks directory is unusable (world-writable: nothing there is eligible) while changes arrive - at the leading
        # edge, inside an interval, at the trailing edge - and is repaired: later changes start the hooks again
        {"name": "dirbad-leading", "steps": [C, S(RATE_MS * 2), {"t": "dirmode", "s": "bad"}, C, S(RATE_MS * 2), {"t": "dirmode", "s": "good"},
                                             C, S(RATE_MS * 2), C, S(30), C]},
        {"name": "dirbad-trailing", "steps": [C, S(20), {"t": "dirmode", "s": "bad"}, C, S(RATE_MS * 2), {"t": "dirmode", "s": "good"},
                                              S(20), C, S(RATE_MS * 3), C]},
        {"name": "dirbad-agent", "agent": True, "steps": [{"t": "dirmode", "s": "bad"}, C, S(RATE_MS * 3), {"t": "dirmode", "s": "good"}, C,
                                                          S(RATE_MS * 2), C]},
    ]
    # adversarial (counterexample of the no-drain variant): new-store message and notification ready at the same time
    for i in range(10):
        out.append({"name": "reload-race-%d" % i, "steps": [{"t": "hold"}, {"t": "reload", "s": "B"}, C, {"t": "release"}, S(RATE_MS * 2),
                                                            {"t": "hold"}, {"t": "reload", "s": "C"}, C, C, {"t": "release"}]})
    # the same loop behind a real dispatcher: changes through the agent's API, reloads by SIGHUP.  With the loop held the
    # first new-store message fills the channel and the second reload's send has to wait (never be dropped)
    H, R = {"t": "hold"}, {"t": "release"}
    RL = lambda x: {"t": "reload", "s": x}
    # (the loop parks at its gate only after the next message it handles: the first message after "hold" is still taken)
    out.append({"name": "agent-three-reloads-held", "agent": True,
                "steps": [C, S(RATE_MS * 2), H, RL("B"), RL("C"), RL("A"), R, S(60), C, S(RATE_MS * 2), C]})
    out.append({"name": "agent-reloads-behind-change", "agent": True,
                "steps": [C, S(RATE_MS * 2), H, C, RL("B"), RL("C"), R, S(60), C, S(30), C]})
    out.append({"name": "agent-reload-chain", "agent": True,
                "steps": [C, S(RATE_MS * 2), H, RL("B"), RL("C"), RL("A"), R, S(20), H, RL("B"), RL("C"), RL("A"), R, C, S(30), C]})
    out.append({"name": "agent-plain", "agent": True, "steps": [C, S(30), C, S(RATE_MS + 30), {"t": "reload", "s": "B"}, C, {"t": "burst", "n": 5},
                                                                 S(RATE_MS * 2), {"t": "reload", "s": "C"}, S(10), C]})
    nagent = 0
    while len(out) < n:
        steps = []
        for _ in range(rng.randint(2, 9)):
            r = rng.random()
            if r < 0.6:
                steps.append(C)
            elif r < 0.7:
                steps.append({"t": "burst", "n": rng.randint(2, 12)})
            elif r < 0.8:
                steps.append({"t": "reload", "s": rng.choice(["A", "B", "C"])})
            steps.append(S(rng.choice([0, 5, 30, 90, RATE_MS - 15, RATE_MS + 15, RATE_MS * 2])))
        # a reload to the current store is not a reload: drop consecutive duplicates
        cur, clean = "A", []
        for s in steps:
            if s.get("t") == "reload":
                if s["s"] == cur:
                    continue
                cur = s["s"]
            clean.append(s)
        nagent += 1
        out.append({"name": "random-%d" % len(out), "steps": clean, "agent": nagent % 3 == 0})
    return out[:n]


def settle(lines):
    """The driver logs `change` (and the dispatcher `reload`) from their own goroutines: such a line can land between the loop's
    `hnotify` / `htimer` line and the `hrun` / `hnewstore` line of the same round.  It says "about to ...", so it is moved in front
    of the round's first line (the loop's own order is untouched)."""
    out = list(lines)
    i = 0
    while i < len(out):
        if out[i]["ev"] in ("hnotify", "htimer"):
            j = i + 1
            env = []
            while j < len(out) and out[j]["ev"] in ("change", "reload"):
                env.append(out[j]); j += 1
            if env and j < len(out) and out[j]["ev"] in ("hrun", "hnewstore"):
                out[i:j] = env + [out[i]]
                i += len(env)
        i += 1
    return out


def validate_scenarios(ctx, scs, r, prop="C19"):
    """Per scenario: the recorded hooks-loop events against TraceHooks, the time between rounds, what the scripts saw."""
    events = r["events"]
    # ---- event order against TraceHooks (per scenario, so that one rejection does not hide the others)
    nval = 0
    import concurrent.futures

    def validate(i):
        sr = r["scenarios"][i]
        evs = events[sr["first"]:sr["last"]]
        lines = settle([{"ev": e["ev"], "s": e["s"], "p": e["p"]} for e in evs if e["ev"] not in ("hexec", "dirmode")])
        trace = "".join(json.dumps(x, separators=(",", ":")) + "\n" for x in lines)
        return ctx.run_tlc("TraceHooks.tla", "TraceHooks.cfg", workers=1, timeout=120, name="trace-hooks-%d" % i, heap="1g",
                           defines={"trace.ndjson": trace})
    with concurrent.futures.ThreadPoolExecutor(max_workers=12) as ex:
        tlcres = list(ex.map(validate, range(len(scs))))
    for (sr, sc), t in zip(zip(r["scenarios"], scs), tlcres):
        evs = events[sr["first"]:sr["last"]]
        if sr["blocked"]:
            ctx.violation(prop, "notify-send-blocked:" + sc["name"].split("-")[0], "a send to the hooks caller did not complete within 2 s")
        lines = settle([{"ev": e["ev"], "s": e["s"], "p": e["p"]} for e in evs if e["ev"] not in ("hexec", "dirmode")])
        hwm, inv = None, None
        for line in open(t["outfile"]):
            m = re.match(r'<<"HWM", (\d+), (\d+)>>', line)
            if m:
                hwm = (int(m.group(1)), int(m.group(2)))
            m = re.match(r"Error: (Invariant|Action property) (\w+) is violated", line)
            if m:
                inv = m.group(2)
        nval += 1
        if t["status"] == "ok" and hwm and hwm[0] == hwm[1] + 1:
            pass
        elif inv:
            ctx.violation(prop, "%s:%s" % (inv, sc["name"].split("-")[0]), "invariant %s false on the hooks loop's events in scenario %s" % (inv, sc["name"]), trace=lines)
        elif hwm:
            e = lines[hwm[0] - 1] if hwm[0] - 1 < len(lines) else {"ev": "?"}
            key = {"hrun": "round-with-wrong-store-or-at-wrong-time", "end": "change-without-round", "hnotify": "pending-counter",
                   "htimer": "pending-counter-at-timer", "hnewstore": "newstore-order"}.get(e["ev"], "trace-rejected:" + e["ev"])
            if e["ev"] == "hnotify" and hwm[0] < len(lines) and lines[hwm[0]]["ev"] in ("hrun", "hnewstore"):
                key = "round-with-replaced-store"
            ctx.violation(prop, key, "scenario %s: hooks loop events are not a behaviour of Hooks at line %d %s; events: %s" % (
                sc["name"], hwm[0], json.dumps(e), json.dumps(lines)[:900]))
        else:
            ctx.inconclusive.append("TraceHooks did not run for %s: %s" % (sc["name"], t["errors"][:2]))
        # bursts are coalesced: real time between round i and round i+2 is at least the rate-limit interval
        runs = [e["ts"] for e in evs if e["ev"] == "hrun"]
        # rounds that ran while the hooks directory was unusable start nothing; rounds next to a mode switch may go either way
        usable, good_runs, any_runs, after_repair = True, 0, 0, 0
        modes = [e for e in evs if e["ev"] == "dirmode"]
        for e in evs:
            if e["ev"] == "dirmode":
                usable = e["s"] == "good"
                after_repair = 0
            elif e["ev"] == "hrun":
                near = any(abs(e["ts"] - m["ts"]) < 15000 for m in modes)
                any_runs += 1 if (usable or near) else 0
                good_runs += 1 if (usable and not near) else 0
                after_repair += 1 if usable else 0
        for i in range(len(runs) - 2):
            if runs[i + 2] - runs[i] < (RATE_MS - 5) * 1000:
                ctx.violation(prop, "more-than-two-rounds-per-interval", "scenario %s: three rounds within %d ms" % (sc["name"], (runs[i + 2] - runs[i]) / 1000))
        # every round starts exactly the eligible scripts, with the argument `update` and the round's store
        nrun = len(runs)
        logl = [x for x in sr["scriptlog"] if x]
        for name in ("10-first", "20-second"):
            mine = [x for x in logl if x.startswith(name + "|")]
            if modes:
                if not (good_runs <= len(mine) <= any_runs):
                    ctx.violation(prop, "scripts-started-differs-from-rounds:hooks-directory-repaired", "scenario %s: %d..%d rounds with a usable "
                                  "hooks directory but %s ran %d times" % (sc["name"], good_runs, any_runs, name, len(mine)))
                if after_repair == 0:
                    ctx.violation(prop, "no-round-after-hooks-directory-repaired", "scenario %s: changes after the hooks directory became "
                                  "usable again started no round" % sc["name"])
            elif len(mine) != nrun:
                ctx.violation(prop, "scripts-started-differs-from-rounds", "scenario %s: %d rounds but %s ran %d times" % (sc["name"], nrun, name, len(mine)))
            for x in mine:
                f = x.split("|")
                if f[1] != "update":
                    ctx.violation(prop, "hook-arguments", x)
        stores = [e["s"] for e in evs if e["ev"] == "hrun"]
        got = [x.split("|")[2].split("/")[-1] for x in logl if x.startswith("10-first|")]
        if not modes and sorted(got) != sorted(stores):
            ctx.violation(prop, "hook-environment-store", "scenario %s: rounds carried %s but scripts saw %s" % (sc["name"], stores, got))
    return nval


def reload_chain_leg(ctx, prop):
    """Only the real-agent reload scenarios (dispatcher + hooks caller): after every chain of reloads the hooks run with the
    directory the agent serves - used by C18 (never a mixture of old and new base directory)."""
    H, R, C = {"t": "hold"}, {"t": "release"}, {"t": "change"}
    S = lambda ms: {"t": "sleep", "ms": ms}
    RL = lambda x: {"t": "reload", "s": x}
    scs = [{"name": "agent-three-reloads-held", "agent": True, "steps": [C, S(RATE_MS * 2), H, RL("B"), RL("C"), RL("A"), R, S(60), C, S(RATE_MS * 2), C]},
           {"name": "agent-reloads-behind-change", "agent": True, "steps": [C, S(RATE_MS * 2), H, C, RL("B"), RL("C"), R, S(60), C, S(30), C]},
           {"name": "agent-plain", "agent": True, "steps": [C, S(30), C, S(RATE_MS + 30), RL("B"), C, S(RATE_MS * 2), RL("C"), S(10), C]}]
    inp = os.path.join(ctx.scratch, "hooks-chain.json")
    outp = os.path.join(ctx.scratch, "hooks-chain.out.json")
    json.dump({"scenarios": scs, "entries": [], "killtest": False}, open(inp, "w"))
    rc, out = ctx.run_inpkg("TestVerifHooks", env={"VERIF_IN": inp, "VERIF_OUT": outp, "VERIF_SCRATCH": os.path.join(ctx.scratch, "hookschain")}, timeout=600)
    if rc != 0 or not os.path.exists(outp):
        ctx.inconclusive.append("hooks reload-chain driver failed (rc %s): %s" % (rc, out[-800:]))
        return 0
    return validate_scenarios(ctx, scs, json.load(open(outp)), prop)


def full_queue_reload_leg(ctx, prop):
    """The notification channel exactly full (32) while the hooks loop is held, then a reload, then the loop is let go: whichever
    message it takes first, it must come back for the others - and the dispatcher must be answered again (used by C10)."""
    H, R, C = {"t": "hold"}, {"t": "release"}, {"t": "change"}
    S = lambda ms: {"t": "sleep", "ms": ms}
    RL = lambda x: {"t": "reload", "s": x}
    scs = [{"name": "agent-full-queue-reload-%d" % i, "agent": True,
            "steps": [C, S(RATE_MS * 2), H, {"t": "burst", "n": 33}, RL("B"), R, S(RATE_MS * 3), C, S(RATE_MS * 2),
                      H, {"t": "burst", "n": 33}, RL("A"), R, S(RATE_MS * 3), C]} for i in range(4)]
    inp = os.path.join(ctx.scratch, "hooks-fullq.json")
    outp = os.path.join(ctx.scratch, "hooks-fullq.out.json")
    json.dump({"scenarios": scs, "entries": [], "killtest": False}, open(inp, "w"))
    rc, out = ctx.run_inpkg("TestVerifHooks", env={"VERIF_IN": inp, "VERIF_OUT": outp, "VERIF_SCRATCH": os.path.join(ctx.scratch, "hooksfullq")}, timeout=120)
    if rc != 0 or not os.path.exists(outp):
        # the run did not end: the goroutine dump of the test's time limit shows where the real hooks loop and dispatcher stand
        blocks = re.split(r"\n\n(?=goroutine \d+ \[)", out)
        loop = [b for b in blocks if "(*HooksCaller).run" in b.split("\ncreated by")[0] and re.match(r"goroutine \d+ \[chan send", b)]
        disp = [b for b in blocks if "dispatchRequests" in b.split("\ncreated by")[0] and re.match(r"goroutine \d+ \[chan send", b)]
        if "test timed out" in out and loop:
            ctx.violation(prop, "wedge:hooks-loop-blocked-in-a-channel-send", "the hooks loop is blocked sending on a channel (notification channel full, reload "
                          "pending)%s: %s" % ("; the dispatcher is blocked sending to it" if disp else "", loop[0][:400]))
            return 0
        ctx.inconclusive.append("hooks full-queue driver failed (rc %s): %s" % (rc, out[-800:]))
        return 0
    return validate_scenarios(ctx, scs, json.load(open(outp)), prop)


def run(ctx):
    thorough = ctx.tier == "thorough"
    cov = ctx.coverage
    cov.update({"states": 0, "transitions": 0, "per_config": {}})
    res = ctx.run_tlc("Hooks.tla", "MC_Hooks_code.cfg", workers=16, timeout=900, heap="8g")
    ctx.tlc_must_pass(res, "MC_Hooks_code.cfg")
    cov["states"] += res["distinct"]; cov["transitions"] += res["generated"]
    cov["per_config"]["MC_Hooks_code.cfg"] = {"distinct": res["distinct"], "status": res["status"]}
    for cfg in ("MC_Hooks_bad_threshold2.cfg", "MC_Hooks_bad_threshold0.cfg", "MC_Hooks_bad_nodrain.cfg", "MC_Hooks_bad_newstoredrop.cfg"):
        r = ctx.run_tlc("Hooks.tla", cfg, workers=4, timeout=300)
        cov["per_config"][cfg] = {"status": r["status"], "expected": "violation"}
        if r["status"] != "violation":
            ctx.inconclusive.append("wrong variant %s not refuted" % cfg)
    # the hooks directory as state: unusable / repaired while the agent runs (HooksDir.tla, bound by the dirbad-* scenarios)
    res = ctx.run_tlc("HooksDir.tla", "MC_HooksDir_code.cfg", workers=16, timeout=900, heap="8g")
    ctx.tlc_must_pass(res, "MC_HooksDir_code.cfg")
    cov["states"] += res["distinct"]; cov["transitions"] += res["generated"]
    cov["per_config"]["MC_HooksDir_code.cfg"] = {"distinct": res["distinct"], "status": res["status"]}
    r = ctx.run_tlc("HooksDir.tla", "MC_HooksDir_bad_armonlyifran.cfg", workers=4, timeout=300)
    cov["per_config"]["MC_HooksDir_bad_armonlyifran.cfg"] = {"status": r["status"], "expected": "violation"}
    if r["status"] != "violation":
        ctx.inconclusive.append("wrong variant MC_HooksDir_bad_armonlyifran.cfg not refuted")
    hf = ctx.run_tlc("HookFiles.tla", "MC_HookFiles.cfg", workers=1, timeout=300)
    ctx.tlc_must_pass(hf, "MC_HookFiles.cfg")
    scs = scenarios(ctx.seed, 30 if not thorough else 150)
    inp = os.path.join(ctx.scratch, "hooks.json")
    outp = os.path.join(ctx.scratch, "hooks.out.json")
    json.dump({"scenarios": scs, "entries": hf["edges"], "killtest": thorough}, open(inp, "w"))
    rc, out = ctx.run_inpkg("TestVerifHooks", env={"VERIF_IN": inp, "VERIF_OUT": outp, "VERIF_SCRATCH": os.path.join(ctx.scratch, "hooksdirs")},
                            timeout=900)
    if rc != 0 or not os.path.exists(outp):
        ctx.fatal("hooks driver failed (rc %s): %s" % (rc, out[-2000:]))
    r = json.load(open(outp))
    events = r["events"]
    nval = validate_scenarios(ctx, scs, r)
    # ---- eligibility
    for e in r["eligibility"]:
        c = e["case"]
        if e["ran"] and e["model"] == "mustnot":
            ctx.violation("C19", "ineligible-file-executed:%s:%s:%s%s" % (c["Dirmode"], c["Kind"], c["Mode"], ":hidden" if c["Hidden"] else ""), e["name"])
        if not e["ran"] and e["model"] == "must":
            ctx.violation("C19", "eligible-hook-not-started:%s:%s:%s" % (c["Dirmode"], c["Kind"], c["Mode"]), e["name"])
        if e["ran"] and not str(e["args"]).startswith("update|"):
            ctx.violation("C19", "hook-arguments", str(e["args"]))
    if thorough and r.get("killtest"):
        k = r["killtest"]
        if not k["alive_after_2s"] or k["alive_after_64s"]:
            ctx.violation("C19", "hanging-hook-not-killed", json.dumps(k))
    # ---- agent side: exactly the successful mutations notify (TraceAgent: owed / notify events)
    ascs = [load_scenario("load-%d" % i, ["", "local"][i % 2], ctx.seed * 5 + i, clients=6, calls=12) for i in range(4 if not thorough else 12)]
    # the internal hash upgrade is a change of the store like any other: it is notified too
    upf = {"u1": {"present": True, "pw": "p1", "set": 1, "adm": False}, "u2": {"present": True, "pw": "p2", "set": 3, "adm": True}}
    ascs.append({"name": "upgrade-notifies", "mode": "local", "default": 2, "files": upf, "passwords": af.PASSWORDS, "gated": False, "seed": 2,
                 "steps": [{"t": "send", "c": "c1", "k": "auth", "u": "u1", "p": "p1", "a": False}, {"t": "sleep", "n": 40},
                           {"t": "send", "c": "c2", "k": "auth", "u": "u2", "p": "p2", "a": False}, {"t": "sleep", "n": 40},
                           {"t": "send", "c": "c3", "k": "auth", "u": "u1", "p": "p2", "a": False}, {"t": "free"}]})
    results, aevents = af.run_scenarios(ctx, ascs, "c19")
    nval += af.judge(ctx, ascs, results, aevents, "c19", "C19")
    cov["traces_validated_against_impl"] = nval
    cov["evaluations"] = len(events) + len(aevents) + len(r["eligibility"])
    cov["distinct_nontrivial"] = len(scs) + len(r["eligibility"])
    cov["eligibility_cases"] = len(r["eligibility"])
    cov["rule"] = ("timing scenarios (0/1/2/many changes per interval, around the timer, reloads, gated new-store/notify races, a hanging "
                   "hook) on a real HooksCaller with a 180 ms rate limit: event order validated against TraceHooks, rounds vs real time "
                   "stamps, scripts' own logs (argument, WHAWTY_AUTH_STORE); every HookFiles case materialised; agent-side notifications "
                   "validated against TraceAgent")
    ctx.sample({"scenario": scs[1]["name"], "steps": scs[1]["steps"]})
    ctx.assumptions += ["the one-minute kill of a hanging hook is exercised in the thorough tier only (hard-coded limit)",
                        "wall-clock closeness is never compared, only event order and lower bounds on real time between rounds"]
