"""C06 Web API: management actions require the right session or password."""
import json, os
import vlib


def run(ctx):
    cfg = "MC_WebApi_thorough.cfg" if ctx.tier == "thorough" else "MC_WebApi_quick.cfg"
    res = ctx.run_tlc("WebApi.tla", cfg, workers=1, timeout=1500, heap="8g")
    ctx.tlc_must_pass(res, cfg)
    edges = res["edges"]
    if ctx.tier == "thorough" and len(edges) > 400000:
        import random
        random.Random(ctx.seed).shuffle(edges)
        edges = edges[:400000]
    inp = os.path.join(ctx.scratch, "webapi.edges.ndjson")
    vlib.write_ndjson(inp, edges)
    outp = os.path.join(ctx.scratch, "webapi.result.json")
    rc, out = ctx.inpkg_test([], "TestVerifWebApi", timeout=2400,
                             env={"VERIF_IN": inp, "VERIF_OUT": outp, "VERIF_SCRATCH": os.path.join(ctx.scratch, "webdirs")})
    if rc != 0 or not os.path.exists(outp):
        ctx.fatal("web API replay failed (rc %d):\n%s" % (rc, out[-3000:]))
    r = json.load(open(outp))
    for v in r["violations"] or []:
        ctx.violation("C06", v["key"], v["detail"], edge=v.get("edge"))
    ctx.coverage.update({"states": res["distinct"], "transitions": res["generated"],
                         "traces_validated_against_impl": r["edges"], "evaluations": r["requests"],
                         "distinct_nontrivial": len({json.dumps(e, sort_keys=True) for e in edges}),
                         "per_endpoint": r["per_endpoint"], "exhaustive": ctx.tier == "quick" or len(edges) == len(res["edges"]),
                         "rule": "every (state, endpoint, session credential, old-password credential, target, body shape) edge of "
                                 "the bounded WebApi model is one HTTP request against the real handler mux on the real dispatcher; "
                                 "status class, disclosed list, issued token and a byte-level snapshot / projection of the store "
                                 "are compared with the model"})
    for e in edges[:1] + edges[len(edges) // 3:len(edges) // 3 + 1] + edges[-1:]:
        ctx.sample(e)
    ctx.assumptions += ["HTTP-level framing (methods, chunking, content types) outside the JSON body shapes is not varied",
                        "tokens are obtained by real logins in the initial state; expired/future/other-instance tokens are "
                        "sealed with a factory's own AEAD (white box)"]
