"""C20 The PAM module succeeds only on an explicit OK from the agent."""
import json, random
import pamfam


def run(ctx):
    thorough = ctx.tier == "thorough"
    res = ctx.run_tlc("MC_PamClient.tla", "MC_PamClient_code.cfg", workers=1, timeout=300)
    ctx.tlc_must_pass(res, "MC_PamClient_code.cfg")
    bad = ctx.run_tlc("MC_PamClient.tla", "MC_PamClient_bad_staleerrno.cfg", workers=1, timeout=300)
    if bad["status"] != "violation":
        ctx.inconclusive.append("wrong variant MC_PamClient_bad_staleerrno.cfg not refuted")
    bad3 = ctx.run_tlc("MC_PamClient.tla", "MC_PamClient_bad_deadline.cfg", workers=1, timeout=300)
    if bad3["status"] != "violation":
        ctx.inconclusive.append("wrong variant MC_PamClient_bad_deadline.cfg not refuted")
    bad4 = ctx.run_tlc("MC_PamClient.tla", "MC_PamClient_bad_eintr.cfg", workers=1, timeout=300)
    if bad4["status"] != "violation" or not any("PamTerminates" in e for e in bad4["errors"]):
        ctx.inconclusive.append("wrong variant MC_PamClient_bad_eintr.cfg not refuted")
    bad2 = ctx.run_tlc("MC_PamClient.tla", "MC_PamClient_bad_sigpipe.cfg", workers=1, timeout=300)
    if bad2["status"] != "violation" or not any("PamYieldsCode" in e for e in bad2["errors"]):
        ctx.inconclusive.append("wrong variant MC_PamClient_bad_sigpipe.cfg not refuted")
    edges = res["edges"]
    if not thorough:          # quick: every reply x cut x ending once; delays and the stale errno on a seeded third
        rng = random.Random(ctx.seed)
        edges = [e for e in edges if (e["script"]["delay"] == "none" and not e["script"]["staleErrno"]) or rng.random() < 0.25 or e["script"].get("signals", "none") != "none"]
        edges = [e for e in edges if e["script"]["reads"] or e["script"]["cut"] in (0, 2, 4) or rng.random() < 0.2]
    results = pamfam.run_all(ctx, edges)
    n = pamfam.judge(ctx, results)
    # several authentications in one process: an OK answer followed by every short / negative / malformed answer
    import concurrent.futures, os
    exe = pamfam.build(ctx)
    okedge = next(e for e in res["edges"] if e["success"] and e["script"]["reply"]["id"] == "OK" and e["script"]["delay"] == "none"
                  and e["script"]["after"] == "close" and not e["script"]["staleErrno"] and e["script"]["reads"])
    seconds = [e for e in res["edges"] if e["script"]["delay"] == "none" and e["script"]["after"] == "close" and not e["script"]["staleErrno"]
               and e["script"]["reads"]]
    seqs = [[okedge, e] for e in seconds] + [[okedge, e, okedge] for e in seconds[::7]]
    work = os.path.join(ctx.scratch, "pamseq")
    os.makedirs(work, exist_ok=True)
    with concurrent.futures.ThreadPoolExecutor(max_workers=32) as ex:
        sres = list(ex.map(lambda iq: pamfam.run_sequence(exe, work, iq[0], iq[1]), enumerate(seqs)))
    for k, r in enumerate(sres):       # (see pamfam.run_all: results that a late server thread could explain are re-run alone)
        for _ in range(2):
            if r["rcs"] is not None and len(r["rcs"]) == len(r["edges"]) and not any(e["success"] and rc != 0 for e, rc in zip(r["edges"], r["rcs"])):
                break
            r = sres[k] = pamfam.run_sequence(exe, work, k, seqs[k])
    nseq = pamfam.judge_sequences(ctx, sres)
    cov = ctx.coverage
    cov.update({"states": res["distinct"], "transitions": res["generated"], "traces_validated_against_impl": n,
                "evaluations": n + nseq, "sequences_in_one_process": nseq, "distinct_nontrivial": len({json.dumps(e, sort_keys=True) for e in edges}),
                "per_config": {"MC_PamClient_code.cfg": {"distinct": res["distinct"], "scripts": len(res["edges"])},
                               "MC_PamClient_bad_staleerrno.cfg": {"status": bad["status"], "expected": "violation of PamTerminates"},
                               "MC_PamClient_bad_sigpipe.cfg": {"status": bad2["status"], "expected": "violation of PamYieldsCode"},
                               "MC_PamClient_bad_eintr.cfg": {"status": bad4["status"], "expected": "violation of PamTerminates (a stream of signals restarts the wait for ever)"},
                               "MC_PamClient_bad_deadline.cfg": {"status": bad3["status"], "expected": "stuck before the first write (never terminates)"}},
                "rule": "every server script of the PamClient model (reply x cut point x delay x close/stall x errno on entry) is played "
                        "by a scripted unix-socket server against the compiled unmodified module (ASan+UBSan), with user/password "
                        "lengths 0..5000 and option combinations rotating over the scripts"})
    for r in results[:2]:
        ctx.sample({"script": r["edge"]["script"], "model_success": r["edge"]["success"], "pam_rc": r["rc"], "ms": r["ms"]})
    ctx.assumptions += ["libpam is replaced by a 60-line stub (pam_get_user/get_item/set_item/prompt/vsyslog); the module source is unmodified",
                        "memory errors are detected by AddressSanitizer/UBSan during the replays, not by TLA+",
                        "timeout=1 is used; the select() based waiting is assumed to scale with the option"]
