"""C04 Every frontend returns exactly the store's verdict for the submitted credentials."""
import base64, concurrent.futures, http.client, json, os, socket, struct, subprocess, time
import fsfam

RIGHT = {"alice": b"correct horse", "alice@example.org": b"the at-user's own password", "bob": b"p:w:with:colons",
         "carl": "pässwörd ✓ \"quoted\" \\ back/slash \U0001F600".encode(), "dora": b"d" * 255, "erin": b"e" * 256,
         "fred": b"f" * 257, "hal": bytes(range(1, 256)) + b"\x80", "gus": b"-secret", "l" * 249: b"long name's password",
         "-dash": b"x"}


def free_port():
    s = socket.socket()
    s.bind(("127.0.0.1", 0))
    p = s.getsockname()[1]
    s.close()
    return p


class Agent:
    def __init__(self, ctx, root, extra_args=(), default=1, extra_users=None):
        self.ctx, self.root = ctx, root
        self.tmo = 5
        self.base = os.path.join(root, "base")
        os.makedirs(self.base, mode=0o700)
        for u, pw in RIGHT.items():
            if u == "-dash":
                continue            # not a valid name: cannot exist
            ext = "admin" if u == "alice" else "user"
            open(os.path.join(self.base, "%s.%s" % (u, ext)), "wb").write(fsfam.scrypt_record(pw).encode() + b"totp: QUJD\n")
        for u, pw in (extra_users or {}).items():
            open(os.path.join(self.base, "%s.user" % u), "wb").write(fsfam.scrypt_record(pw).encode())
        self.cfg = os.path.join(root, "store.yaml")
        open(self.cfg, "w").write((fsfam.CFG % (self.base, base64.b64encode(fsfam.HMAC1).decode())).replace("default: 1", "default: %d" % default))
        self.sock = os.path.join(root, "sasl.sock")
        self.http, self.ldap = free_port(), free_port()
        self.lcfg = os.path.join(root, "listener.yaml")
        open(self.lcfg, "w").write("saslauthd:\n  listen:\n  - %s\nhttp:\n  listen:\n  - 127.0.0.1:%d\nldap:\n  listen:\n  - 127.0.0.1:%d\n" % (
            self.sock, self.http, self.ldap))
        self._frag = 0
        self.exe = ctx.build_agent()
        self.drv = ctx.build("./cmd/storedrv")
        # (the agent's log goes to a file: a pipe nobody reads fills up and then blocks the agent inside its log calls)
        self.logf = open(os.path.join(root, "agent.log"), "wb")
        self.proc = subprocess.Popen([self.exe, "--store", self.cfg] + list(extra_args) + ["run", "--listener", self.lcfg], stdout=self.logf,
                                     stderr=subprocess.STDOUT)
        for _ in range(200):
            if os.path.exists(self.sock) and self._port_open(self.http) and self._port_open(self.ldap):
                return
            time.sleep(0.05)
        ctx.fatal("the agent did not come up: %s" % open(os.path.join(root, "agent.log"), "rb").read(2000))

    def _port_open(self, p):
        try:
            socket.create_connection(("127.0.0.1", p), timeout=0.2).close()
            return True
        except OSError:
            return False

    def stop(self):
        self.proc.kill()
        self.proc.wait()

    # ---- the store's own verdict, by the library on the same directory (fresh process)
    def library(self, user, pw, tag, cfg=None):
        pf = os.path.join(self.root, "pw-%s" % tag)
        open(pf, "wb").write(pw)
        r = subprocess.run([self.drv, "-cfg", cfg or self.cfg, "-op", "auth", "-user", user.decode("latin-1") if isinstance(user, bytes) else user,
                            "-pwfile", pf], stdout=subprocess.PIPE, stderr=subprocess.PIPE)
        try:
            return json.loads(r.stdout.decode().strip().splitlines()[-1])["ok"]
        except Exception:
            return False

    # ---- transports
    def sasl(self, user, pw):
        if len(user) > 65535 or len(pw) > 65535:
            return None
        s = socket.socket(socket.AF_UNIX)
        s.settimeout(self.tmo)
        s.connect(self.sock)
        msg = b"".join(struct.pack(">H", len(x)) + x for x in (user, pw, b"imap", b"realm"))
        # fragmentation: the verdict must not depend on how the bytes arrive (segments ending inside a field body,
        # inside a length prefix, byte by byte)
        mode = (len(user) + len(pw) + self._frag) % 4
        self._frag += 1
        try:
            if mode == 0:
                s.sendall(msg)
            else:
                cuts = {1: [1, 2, 3 + len(user) // 2, 2 + len(user) + 1, 4 + len(user) + max(1, len(pw) // 2)],
                        2: list(range(1, min(len(msg), 40))), 3: [2 + len(user) + 2 + max(1, len(pw) - 1)]}[mode]
                last = 0
                for c in sorted(set(x for x in cuts if 0 < x < len(msg))):
                    s.sendall(msg[last:c])
                    time.sleep(0.002)
                    last = c
                s.sendall(msg[last:])
            s.shutdown(socket.SHUT_WR)
        except OSError:
            pass        # an over-limit field is refused as soon as its length prefix is seen: the server answers and closes
        data = b""
        try:
            while True:
                b = s.recv(65536)
                if not b:
                    break
                data += b
        except OSError:
            pass
        s.close()
        if len(data) < 4:
            return False
        return data[2:4] == b"OK"

    def basic(self, user, pw):
        c = http.client.HTTPConnection("127.0.0.1", self.http, timeout=self.tmo)
        c.putrequest("GET", "/basic-auth")
        c.putheader("Authorization", "Basic " + base64.b64encode(user + b":" + pw).decode())
        c.endheaders()
        r = c.getresponse()
        r.read()
        c.close()
        return r.status == 200

    def jsonapi(self, user, pw):
        try:
            body = json.dumps({"username": user.decode("utf-8"), "password": pw.decode("utf-8")})
        except UnicodeDecodeError:
            return None
        c = http.client.HTTPConnection("127.0.0.1", self.http, timeout=self.tmo)
        c.request("POST", "/api/authenticate", body=body, headers={"Content-Type": "application/json"})
        r = c.getresponse()
        out = r.read()
        c.close()
        ok = r.status == 200
        if ok:
            try:
                ok = bool(json.loads(out).get("session"))
            except Exception:
                ok = False
        return ok

    def ldapbind(self, user, pw):
        def ber(tag, content):
            n = len(content)
            if n < 128:
                ln = bytes([n])
            else:
                b = n.to_bytes((n.bit_length() + 7) // 8, "big")
                ln = bytes([0x80 | len(b)]) + b
            return bytes([tag]) + ln + content
        bind = ber(0x60, ber(0x02, b"\x03") + ber(0x04, user) + ber(0x80, pw))
        msg = ber(0x30, ber(0x02, b"\x01") + bind)
        s = socket.create_connection(("127.0.0.1", self.ldap), timeout=self.tmo)
        s.sendall(msg)
        data = b""
        try:
            while len(data) < 2 or len(data) < 2 + data[1]:
                b = s.recv(4096)
                if not b:
                    break
                data += b
        except OSError:
            pass
        s.close()
        # LDAPMessage { id, [APPLICATION 1] BindResponse { resultCode ENUMERATED ... } }
        i = data.find(b"\x61")
        if i < 0:
            return False
        j = data.find(b"\x0a\x01", i)
        return j >= 0 and data[j + 2] == 0

    def cli(self, user, pw):
        try:
            r = subprocess.run([self.exe, "--store", self.cfg, "authenticate", user, pw], stdout=subprocess.PIPE,
                               stderr=subprocess.STDOUT, timeout=20, stdin=subprocess.DEVNULL)
        except ValueError:          # embedded NUL: cannot be passed at all
            return None
        return r.returncode == 0


def instantiate(case):
    """Concrete (user, password) byte strings for a Frontends case; base user is alice unless the class says otherwise."""
    u, p = case["user"], case["pw"]
    user = {"existing": b"alice", "existing-with-at": b"alice@example.org", "nonexistent": b"nobody", "other-case": b"Alice",
            "padded-space": b"alice ", "trailing-newline": b"alice\n", "empty": b"", "len-249": b"l" * 249, "len-256": b"l" * 256,
            "len-257": b"l" * 257, "leading-dash": b"-dash"}[u]
    owner = {"with-colons": "bob", "json-escapes-nonbmp": "carl", "len-255": "dora", "len-256": "erin", "len-257": "fred",
             "all-byte-values": "hal", "leading-dash": "gus"}.get(p)
    if owner and u == "existing":
        user = owner.encode()
    key = user.decode("latin-1")
    right = RIGHT.get(key, RIGHT["alice"])
    if u == "len-249":
        right = RIGHT["l" * 249]
    pw = {"right": right, "wrong": b"this is not it", "empty": b"", "right-plus-space": right + b" ", "right-minus-last": right[:-1],
          "case-flipped": right.swapcase() if right.swapcase() != right else right + b"X", "other-users-password": RIGHT["bob"] if key != "bob" else RIGHT["alice"], "right-nul-tail": right + b"\x00zz"}.get(p, right)
    return user, pw


def burst(ctx, ag):
    """Many simultaneous logins on one listener, right and wrong credentials mixed: every answer is the caller's own."""
    n = 0
    for name, fn in (("sasl", ag.sasl), ("basic", ag.basic), ("json", ag.jsonapi), ("ldap", ag.ldapbind)):
        jobs = []
        for i in range(600 if ctx.tier == "quick" else 4000):
            u = [b"alice", b"bob", b"carl"][i % 3]
            right = i % 2 == 0
            jobs.append((u, RIGHT[u.decode()] if right else b"wrong-%d" % i, right))
        def one(j):
            try:
                return j, fn(j[0], j[1])
            except Exception as ex:
                return j, repr(ex)
        with concurrent.futures.ThreadPoolExecutor(max_workers=64) as ex:
            for (u, pw, right), got in ex.map(one, jobs):
                n += 1
                if got is True and not right:
                    ctx.violation("C04", "concurrent-logins:wrong-password-accepted:" + name, "user %r password %r accepted while 64 logins were in flight" % (u, pw[:20]))
                elif got is False and right:
                    ctx.violation("C04", "concurrent-logins:right-password-denied:" + name, "user %r denied while 64 logins were in flight" % u)
                elif got not in (True, False):
                    ctx.violation("C04", "concurrent-logins:error:" + name, str(got))
    return n


def history(ctx, ag):
    """Verdicts follow the store through management operations made while the agent runs: a successful login, then the
    password is changed / the user removed by a separate CLI process, then the old credentials again."""
    n = 0
    fns = {"sasl": ag.sasl, "basic": ag.basic, "json": ag.jsonapi, "ldap": ag.ldapbind, "cli": ag.cli}
    def cli(*args):
        return subprocess.run([ag.exe, "--store", ag.cfg] + list(args), stdout=subprocess.PIPE, stderr=subprocess.STDOUT, timeout=20).returncode
    for i, (name, fn) in enumerate(fns.items()):
        user = ("hist%d" % i).encode()
        p1, p2 = b"first password %d" % i, b"second password %d" % i
        if cli("add", user.decode(), p1.decode()) != 0:
            ctx.inconclusive.append("could not add %r through the CLI" % user)
            continue
        steps = [("after-add", p1, True), ("after-add-again", p1, True)]
        for label, pw, want in steps:
            n += 1
            if fn(user, pw) is not want:
                ctx.violation("C04", "history:%s:%s" % (name, label), "expected %s" % want)
        cli("update", user.decode(), p2.decode())
        for label, pw, want in (("old-password-after-update", p1, False), ("new-password-after-update", p2, True)):
            n += 1
            if fn(user, pw) is not want:
                ctx.violation("C04", "history:%s:%s" % (name, label), "store verdict is %s, the frontend says otherwise" % want)
        cli("remove", user.decode())
        n += 1
        if fn(user, p2) is not False:
            ctx.violation("C04", "history:%s:login-after-remove" % name, "a removed user is still accepted")
    return n


def reload_leg(ctx, ag):
    """The store the frontends answer from is the one the agent serves now: the configuration is changed (another base
    directory in which alice has another password, bob does not exist and zoe is new; then another default set and a
    password change through the CLI), the agent is told to reload (SIGHUP), and every transport must give the verdict of the
    library on the configuration on disk."""
    import shutil, signal
    n = 0
    fns = {"sasl": ag.sasl, "basic": ag.basic, "json": ag.jsonapi, "ldap": ag.ldapbind}
    base2 = os.path.join(ag.root, "base2")
    os.makedirs(base2, mode=0o700, exist_ok=True)
    new_alice, zoe = b"alice's password in the second directory", b"zoe is new here"
    open(os.path.join(base2, "alice.admin"), "wb").write(fsfam.scrypt_record(new_alice).encode())
    open(os.path.join(base2, "zoe.user"), "wb").write(fsfam.scrypt_record(zoe).encode())
    old_cfg = open(ag.cfg).read()
    probes = [(b"alice", RIGHT["alice"]), (b"alice", new_alice), (b"bob", RIGHT["bob"]), (b"zoe", zoe), (b"zoe@somewhere", zoe)]
    def settle(user, pw, want):
        for _ in range(100):             # the reload happens between two requests of the dispatcher
            if ag.sasl(user, pw) is want:
                return True
            time.sleep(0.05)
        return False
    # a third directory that holds alice (yet another password) and zoe but no administrator: a configuration naming it loads,
    # fails the consistency check and must be refused as a whole - the agent goes on answering from the store it had
    base3 = os.path.join(ag.root, "base3")
    os.makedirs(base3, mode=0o700, exist_ok=True)
    third_alice = b"alice in the directory without administrator"
    open(os.path.join(base3, "alice.user"), "wb").write(fsfam.scrypt_record(third_alice).encode())
    open(os.path.join(base3, "zoe.user"), "wb").write(fsfam.scrypt_record(zoe).encode())
    probes.append((b"alice", third_alice))
    inuse = os.path.join(ag.root, "store-in-use.yaml")
    try:
        for stage in ("other-basedir", "refused-no-admin", "back", "refused-no-admin-2"):
            refused = stage.startswith("refused")
            if refused:
                open(ag.cfg, "w").write(old_cfg.replace(ag.base, base3))
            else:
                text = old_cfg.replace(ag.base, base2) if stage == "other-basedir" else old_cfg
                open(ag.cfg, "w").write(text)
                open(inuse, "w").write(text)
            ag.proc.send_signal(signal.SIGHUP)
            if refused:
                time.sleep(0.6)
            else:
                marker = (b"zoe", zoe, True) if stage == "other-basedir" else (b"bob", RIGHT["bob"], True)
                if not settle(*marker):
                    ctx.violation("C04", "reload:%s:frontends-answer-from-the-previous-store:sasl" % stage,
                                  "5 s after SIGHUP the saslauthd listener still denies %r, which the store configured now accepts" % marker[0])
            for i, (user, pw) in enumerate(probes):
                name_for = lambda t: user.split(b"@", 1)[0] if t == "ldap" else user
                for t, fn in fns.items():
                    want = ag.library(name_for(t), pw, "rl-%s-%d-%s" % (stage, i, t), cfg=inuse)
                    try:
                        got = fn(user, pw)
                    except Exception as ex:
                        ctx.violation("C04", "transport-error:reload:" + t, repr(ex))
                        continue
                    if got is None:
                        continue
                    n += 1
                    if got != want:
                        ctx.violation("C04", "reload:%s:%s:%s" % (stage, t, "accepted-although-store-denies" if got else "denied-although-store-accepts"),
                                      "after the reload (%s) user %r password %r..: the frontend says %s, store.Authenticate on the configuration in use (the last one that passed the check) says %s" % (
                                          stage, user, pw[:16], got, want))
    finally:
        open(ag.cfg, "w").write(old_cfg)
        ag.proc.send_signal(signal.SIGHUP)
        time.sleep(0.3)
    return n


def upgrade_pressure(ctx):
    """Local upgrades switched on, every record upgradeable (default set 2, records of set 1) and every upgrade refused by a
    password policy the stored passwords do not meet: the internal upgrade queue stays full under a burst of right-password
    logins.  Whatever happens to the upgrade requests, the verdict of each login is the store's."""
    root = os.path.join(ctx.scratch, "c04up")
    os.makedirs(root, exist_ok=True)
    # long passwords: the policy evaluation of each (refused) upgrade takes much longer than a login, so the 10-slot queue fills
    slow = {"slow%d" % i: ("correct horse battery staple %d " % i * 4).encode() for i in range(3)}
    ag = Agent(ctx, root, extra_args=["--do-upgrades", "local", "--policy-type", "zxcvbn", "--policy-condition", "entropy >= 2000"], default=2,
               extra_users=slow)
    ag.tmo = 120           # slow is fine here (every login costs a policy evaluation on top), wrong is not
    n = 0
    try:
        for name, fn in (("sasl", ag.sasl), ("basic", ag.basic), ("json", ag.jsonapi), ("ldap", ag.ldapbind)):
            jobs = [(("slow%d" % (i % 3)).encode(), i % 5 != 0) for i in range(150 if ctx.tier == "quick" else 600)]
            def one(j):
                u, right = j
                try:
                    return j, fn(u, slow[u.decode()] if right else b"wrong password")
                except Exception as ex:
                    return j, repr(ex)
            with concurrent.futures.ThreadPoolExecutor(max_workers=48) as ex:
                for (u, right), got in ex.map(one, jobs):
                    n += 1
                    if got is False and right:
                        ctx.violation("C04", "denied-although-store-accepts:%s:upgrade-queue-full" % name,
                                      "user %r with the right password denied while upgrade requests pile up (local upgrades, every upgrade refused by the policy)" % u)
                    elif got is True and not right:
                        ctx.violation("C04", "accepted-although-store-denies:%s:upgrade-queue-full" % name, "user %r wrong password accepted" % u)
                    elif got not in (True, False):
                        ctx.violation("C04", "concurrent-logins:error:" + name, str(got))
    finally:
        ag.stop()
    return n


def missing_members(ctx, ag):
    """A JSON login without a password member (or with null), sent right after a complete login of the same user: the store
    denies (user, ""), so must the API - whatever an earlier request carried."""
    n = 0
    def post(body):
        c = http.client.HTTPConnection("127.0.0.1", ag.http, timeout=5)
        c.request("POST", "/api/authenticate", body=body, headers={"Content-Type": "application/json"})
        r = c.getresponse(); out = r.read(); c.close()
        return r.status, out
    for user, pw in (("alice", RIGHT["alice"]), ("bob", RIGHT["bob"])):
        for probe in ('{"username": %s}', '{"username": %s, "password": null}', '{"password": null, "username": %s}'):
            for _ in range(6):
                for _ in range(3):
                    st, _ = post(json.dumps({"username": user, "password": pw.decode()}))
                    if st != 200:
                        ctx.inconclusive.append("missing-member leg: the complete login of %s was refused (%s)" % (user, st))
                        return n
                st, out = post(probe % json.dumps(user))
                n += 1
                if st == 200:
                    ctx.violation("C04", "accepted-although-store-denies:json:missing-password-member",
                                  "after a complete login of %s, the body %s is answered 200 %s; the store denies (%s, \"\")" % (user, probe % json.dumps(user), out[:80], user))
    return n


def run(ctx):
    thorough = ctx.tier == "thorough"
    res = ctx.run_tlc("Frontends.tla", "MC_Frontends.cfg", workers=1, timeout=300)
    ctx.tlc_must_pass(res, "MC_Frontends.cfg")
    cases = res["edges"]
    root = os.path.join(ctx.scratch, "c04")
    os.makedirs(root, exist_ok=True)
    ag = Agent(ctx, root)
    n, accepts = 0, 0
    try:
        def one(ic):
            i, e = ic
            c = e["case"]
            user, pw = instantiate(c)
            name = user.split(b"@", 1)[0] if e["name"] == "cut-at-@" else user
            try:
                want = ag.library(name, pw, "%d" % i) if b"\x00" not in name else False
                got = {"sasl": ag.sasl, "basic": ag.basic, "json": ag.jsonapi, "ldap": ag.ldapbind, "cli": ag.cli}[c["transport"]](user, pw)
            except Exception as ex:
                return (e, user, pw, None, None, repr(ex))
            return (e, user, pw, want, got, None)
        with concurrent.futures.ThreadPoolExecutor(max_workers=16) as ex:
            results = list(ex.map(one, enumerate(cases)))
        nburst = burst(ctx, ag)
        nhist = history(ctx, ag)
        nmiss = missing_members(ctx, ag)
        nreload = reload_leg(ctx, ag)
    finally:
        ag.stop()
    nup = upgrade_pressure(ctx)
    for e, user, pw, want, got, err in results:
        c = e["case"]
        key = "%s:%s/%s" % (c["transport"], c["user"], c["pw"])
        if err:
            ctx.violation("C04", "transport-error:" + key, err)
            continue
        if got is None:
            continue            # not expressible on this transport
        n += 1
        accepts += 1 if got else 0
        if got and not want:
            ctx.violation("C04", "accepted-although-store-denies:" + key, "user %r password %r..: frontend accepts, store.Authenticate(%r) does not" % (
                user[:40], pw[:24], (user.split(b"@", 1)[0] if e["name"] == "cut-at-@" else user)[:40]))
        elif want and not got and e["limits"] == "inside":
            ctx.violation("C04", "denied-although-store-accepts:" + key, "user %r password %r..: store accepts, frontend denies" % (user[:40], pw[:24]))
    import clifam
    ncli = clifam.replay(ctx, "C04", only=lambda c: c["cmd"] == "authenticate")
    # the same verdicts over TLS (https, ldaps), on a second saslauthd socket, and with other listeners unable to start
    import listenfam
    nlisten = listenfam.replay(ctx, "C04")
    cov = ctx.coverage
    cov.update({"states": res["distinct"] + cov.get("states", 0), "transitions": res["generated"], "traces_validated_against_impl": n, "evaluations": n,
                "distinct_nontrivial": len(cases), "accepted": accepts, "concurrent_logins": nburst, "history_steps": nhist, "missing_member_probes": nmiss, "probes_after_reloads": nreload, "listener_environment_probes": nlisten, "logins_under_upgrade_pressure": nup,
                "rule": "every (transport, user-name class, password class) case of Frontends is instantiated with real bytes and submitted to "
                        "the running agent binary (saslauthd socket, HTTP basic-auth, JSON API, LDAP simple bind, CLI); the expected verdict is "
                        "store.Dir.Authenticate on the same directory for the name the module says the transport must use"})
    for e, user, pw, want, got, err in results[:3]:
        ctx.sample({"case": e["case"], "name_rule": e["name"], "limits": e["limits"], "store_verdict": want, "frontend_verdict": got})
    ctx.assumptions += ["systemd socket activation (run-sa) and LDAP StartTLS are not exercised",
                        "the expected verdict comes from the library on the same directory; the library itself is judged by C01/C02"]
