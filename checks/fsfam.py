"""Bindings B and C for PosixFS / StoreFS (C08, C09, C15, C03 paths, C16 tmp):

 * every store operation is run by harness/go/cmd/storedrv under strace; the mutating system calls
   become PosixFS events validated by TLC against TracePosixFS.tla (crash/durability invariants are
   evaluated after every real call, over the kill view and every power-loss view);
 * the same operation is re-run with strace killing the process right before its k-th call (real
   crash states, compared with the model's kill view and opened by a fresh store instance) and
   with strace failing its k-th call with ENOSPC/EIO/EACCES/EMFILE (real fault outcomes).
"""
import base64, concurrent.futures, json, os, re, shutil, subprocess, hashlib, time
import vlib

CALLS = ("openat,open,creat,mkdirat,mkdir,renameat,renameat2,rename,unlink,unlinkat,rmdir,fsync,fdatasync,"
         "sync_file_range,syncfs,sync,write,pwrite64,writev,pwritev,copy_file_range,sendfile,close,ftruncate,truncate,"
         "linkat,link,symlinkat,symlink,fchmod,fchmodat,chmod,fchown,fchownat,newfstatat,statx,getdents64,read,"
         "pread64,readlinkat,faccessat,faccessat2,utimensat,mknodat,fallocate")
MUTATING = {"mkdirat", "mkdir", "renameat", "renameat2", "rename", "unlink", "unlinkat", "rmdir", "write", "pwrite64",
            "writev", "pwritev", "copy_file_range", "sendfile", "ftruncate", "truncate", "linkat", "link", "symlinkat",
            "symlink", "fchmod", "fchmodat", "chmod", "fchown", "fchownat", "utimensat", "mknodat", "fallocate",
            "creat"}
UNMODELLED = {"ftruncate", "truncate", "symlinkat", "symlink", "fchmod", "fchmodat", "chmod",
              "fchown", "fchownat", "utimensat", "mknodat", "fallocate", "sendfile", "writev", "pwritev"}
HMAC1 = bytes((0x11 + i * 7) & 0xff for i in range(32))
T0 = 1500000000

LINE_RE = re.compile(r"^(\d+)\s+(\w+)\((.*)\)\s+=\s+(-?\d+|\?)(.*)$")
STR_RE = re.compile(r'"((?:[^"\\]|\\.)*)"')
FD_RE = re.compile(r"(\d+)<([^>]*)>")


def scrypt_record(pw, ts=T0, param=1, salt=None):
    salt = salt or hashlib.sha256(b"salt" + pw).digest()
    k = hashlib.scrypt(pw, salt=salt, n=4, r=8, p=1, dklen=32)
    import hmac
    d = hmac.new(HMAC1, k, hashlib.sha256).digest()
    return "hmac_sha256_scrypt:%d:%d:%s:%s\n" % (ts, param, base64.urlsafe_b64encode(salt).decode(),
                                                 base64.urlsafe_b64encode(d).decode())


CFG = """basedir: "%s"
default: 1
params:
  - id: 1
    scryptauth:
      hmackey: %s
      cost: 2
  - id: 2
    argon2id:
      time: 1
      memory: 8
      threads: 1
      length: 32
"""

PWS = {"old": b"old-secret", "new": b"new secret :x", "third": b"third"}


def valid_line(b):
    if not b.endswith(b"\n"):
        return False
    f = b[:-1].split(b":")
    if len(f) != 5 or not f[1].lstrip(b"-").isdigit() or not f[2].isdigit():
        return False
    try:
        return len(base64.urlsafe_b64decode(f[3])) > 0 and len(base64.urlsafe_b64decode(f[4])) > 0
    except Exception:
        return False


class Case:
    """One operation instance on a freshly materialised directory."""

    def __init__(self, name, op, user="alice", had=None, target_admin=False, aux=b"", pw="new", empty_dir=False):
        self.name, self.op, self.user, self.had, self.admin, self.aux, self.pw = name, op, user, had, target_admin, aux, pw
        self.empty_dir = empty_dir

    def clone(self):
        c = Case(self.name, self.op, self.user, self.had, self.admin, self.aux, self.pw, self.empty_dir)
        c.tmp_is_file = getattr(self, "tmp_is_file", False)
        c.tmp_xdev = getattr(self, "tmp_xdev", False)
        c.warm = getattr(self, "warm", False)
        c.residue = getattr(self, "residue", False)
        c.swapdir = getattr(self, "swapdir", False)
        c.long_old = getattr(self, "long_old", False)
        return c

    def cleanup(self):
        shutil.rmtree(self.root, ignore_errors=True)
        if getattr(self, "xdev", None):
            shutil.rmtree(self.xdev, ignore_errors=True)

    def ctx(self):
        return {"op": self.op if self.op != "init" else "add", "hadOld": self.had is not None, "hasAux": len(self.aux) > 0}

    def materialise(self, root):
        shutil.rmtree(root, ignore_errors=True)
        base = os.path.join(root, "base")
        os.makedirs(base, mode=0o700)
        self.old = None
        if self.had and getattr(self, "long_old", False) and getattr(Case, "LONG_OLD", None):
            self.old = Case.LONG_OLD + self.aux
        elif self.had:
            self.old = scrypt_record(PWS["old"]).encode() + self.aux
        if self.had:
            with open(os.path.join(base, "%s.%s" % (self.user, self.had)), "wb") as f:
                f.write(self.old)
            os.chmod(os.path.join(base, "%s.%s" % (self.user, self.had)), 0o600)
        if not self.empty_dir:
            with open(os.path.join(base, "boss.admin"), "wb") as f:
                f.write(scrypt_record(b"boss-pw") .encode() + b"totp: AAAA\n")
            with open(os.path.join(base, "bob.user"), "wb") as f:
                f.write(scrypt_record(b"bob-pw").encode())
        if getattr(self, "tmp_is_file", False):          # a decoy regular file where the work area should be
            open(os.path.join(base, ".tmp"), "wb").write(b"not a directory\n")
        self.xdev = None
        if getattr(self, "tmp_xdev", False):             # the work area lives on another file system (rename fails with EXDEV)
            xd = "/var/tmp/verif-xdev-%d-%s" % (os.getpid(), re.sub(r"[^A-Za-z0-9]", "_", os.path.basename(root)))
            shutil.rmtree(xd, ignore_errors=True)
            os.makedirs(xd, mode=0o700)
            if os.stat(xd).st_dev != os.stat(base).st_dev:
                os.symlink(xd, os.path.join(base, ".tmp"))
                self.xdev = xd
            else:
                shutil.rmtree(xd, ignore_errors=True)
        cfgtext = CFG % (base, base64.b64encode(HMAC1).decode())
        if getattr(self, "long_old", False):
            cfgtext = cfgtext.replace("length: 32", "length: 6000")
        open(os.path.join(root, "store.yaml"), "w").write(cfgtext)
        if getattr(self, "residue", False):              # what a killed earlier operation may leave in the work area (permitted residue)
            td = os.path.join(base, ".tmp")
            os.makedirs(td, mode=0o700, exist_ok=True)
            junk = scrypt_record(b"some earlier password").encode() + b"stale: " + b"Z" * 3000 + b"\nmore-stale: yes\n"
            for nm in (self.user, self.user + ".user", self.user + ".admin", "%s.user.tmp" % self.user, "tmp", "0"):
                open(os.path.join(td, nm), "wb").write(junk)
        if getattr(self, "warm", False):                 # the process has used another store directory before this operation
            wb = os.path.join(root, "warm", "base")
            os.makedirs(wb, mode=0o700)
            with open(os.path.join(wb, "boss.admin"), "wb") as f:
                f.write(scrypt_record(b"boss-pw").encode())
            open(os.path.join(root, "warm.yaml"), "w").write(CFG % (wb, base64.b64encode(HMAC1).decode()))
        open(os.path.join(root, "pw"), "wb").write(PWS[self.pw])
        open(os.path.join(root, "decoy.user"), "wb").write(scrypt_record(b"decoy").encode())
        self.root, self.base = root, base
        if self.op == "setadmin":      # F = the current name, G = the requested one
            cur = self.had or ("user" if self.admin else "admin")
        else:
            cur = self.had or ("admin" if self.admin else "user")
        other = "admin" if cur == "user" else "user"
        self.F = os.path.join(base, "%s.%s" % (self.user, cur))
        self.G = os.path.join(base, "%s.%s" % (self.user, other))

    def argv(self, drv):
        a = [drv, "-cfg", os.path.join(self.root, "store.yaml"), "-op", self.op, "-user", self.user,
             "-pwfile", os.path.join(self.root, "pw")]
        if self.admin:
            a.append("-admin")
        if getattr(self, "warm", False):
            a += ["-warm", os.path.join(self.root, "warm.yaml")]
        if getattr(self, "swapdir", False):
            a.append("-swapdir")
        return a

    def role(self, path):
        path = path.replace("(deleted)", "").strip()
        if path == self.F:
            return "F"
        if path == self.G:
            return "G"
        if path.startswith(self.base + "/.tmp/") or (getattr(self, "xdev", None) and path.startswith(self.xdev + "/")):
            return "T"
        if path == self.base + "/.tmp" or (getattr(self, "xdev", None) and path == self.xdev):
            return "TD"
        if path == self.base:
            return "B"
        if os.path.dirname(path) == self.base and (path.endswith(".user") or path.endswith(".admin")):
            return "O"
        return "X"


def unescape(s):
    return s.encode("latin-1", "backslashreplace").decode("unicode_escape").encode("latin-1", "replace")


def parse_strace(path):
    """-> list of dicts for the main tid between the markers, plus counts before the region."""
    rows, main = [], None
    for line in open(path, errors="replace"):
        m = LINE_RE.match(line.rstrip("\n"))
        if not m:
            if "unfinished" in line or "resumed" in line:
                rows.append({"broken": True, "tid": int(line.split()[0]) if line.split() and line.split()[0].isdigit() else -1})
            continue
        tid, name, args, ret, rest = int(m.group(1)), m.group(2), m.group(3), m.group(4), m.group(5)
        if main is None:
            main = tid
        rows.append({"tid": tid, "name": name, "args": args, "ret": int(ret) if ret != "?" else None, "rest": rest,
                     "injected": "(INJECTED)" in rest, "strs": STR_RE.findall(args), "fds": FD_RE.findall(args)})
    region, before, inreg, seen_end = [], {}, False, False
    for r in rows:
        if r.get("broken"):
            if inreg and r["tid"] == main:
                return None
            continue
        if r["tid"] != main:
            continue
        if r["name"] == "newfstatat" and r["strs"] and r["strs"][0] == "/VERIF-MARK-BEGIN":
            inreg = True
            continue
        if r["name"] == "newfstatat" and r["strs"] and r["strs"][0] == "/VERIF-MARK-END":
            inreg, seen_end = False, True
            continue
        if inreg:
            r["ordinal"] = before.get(r["name"], 0) + 1
            before[r["name"]] = r["ordinal"]
            region.append(r)
        elif not seen_end:
            before[r["name"]] = before.get(r["name"], 0) + 1
    return {"region": region, "ended": seen_end, "main": main}


def events_of(case, region, upto=None):
    """PosixFS events of the successful mutating calls; also returns problems (unmodelled calls)."""
    evs, probs = [], []
    st = {"T": None, "line": {}, "aux": {}, "wr": {}}
    exp_aux = len(case.aux) if (case.old and case.op in ("update",)) else 0

    def wr(role, data=None, count=0):
        ln = st["line"].setdefault(role, b"")
        if data is not None:
            if not ln.endswith(b"\n"):
                i = data.find(b"\n")
                if i < 0:
                    st["line"][role] = ln + data
                    data = b""
                else:
                    st["line"][role] = ln + data[:i + 1]
                    data = data[i + 1:]
            st["aux"][role] = st["aux"].get(role, 0) + len(data)
        else:
            st["aux"][role] = st["aux"].get(role, 0) + count
        ok = valid_line(st["line"][role]) and st["aux"].get(role, 0) == exp_aux
        evs.append({"ev": "write", "n": role, "cls": "new" if ok else "torn"})

    for idx, r in enumerate(region):
        if upto is not None and idx >= upto:
            break
        name, ok = r["name"], (r["ret"] is not None and r["ret"] >= 0)
        if not ok:
            continue
        if name in ("openat", "open", "creat"):
            p = r["strs"][0] if r["strs"] else ""
            role = case.role(p)
            flags = r["args"]
            creat = "O_CREAT" in flags or name == "creat"
            wrmode = any(f in flags for f in ("O_WRONLY", "O_RDWR", "O_TRUNC", "O_APPEND"))
            if role in ("F", "G"):
                if creat and "O_EXCL" in flags:
                    evs.append({"ev": "creat", "n": role})
                elif creat or "O_TRUNC" in flags:
                    probs.append("open of the final file with %s" % flags[-60:])
                    evs.append({"ev": "write", "n": role, "cls": "torn"})
            elif role == "T":
                if creat:
                    if st["T"] is None:
                        st["T"] = p
                        evs.append({"ev": "creattmp"})
                    elif st["T"] != p:
                        evs.append({"ev": "foreign", "d": "second temporary file " + p})
            elif role == "O":
                if creat or wrmode:
                    evs.append({"ev": "foreign", "d": "write-open of another user's file " + p})
            elif role == "X":
                evs.append({"ev": "foreign", "d": "open outside the store: " + p})
        elif name in ("write", "pwrite64"):
            if not r["fds"]:
                continue
            p = r["fds"][0][1]
            if not p.startswith("/") or p.startswith(("/dev/pts", "/dev/tty", "/dev/null", "/proc/")):
                continue
            role = case.role(p)
            data = unescape(r["strs"][0]) if r["strs"] else b""
            if r["ret"] == 0:
                continue
            data = data[:r["ret"]]
            if role in ("T", "F", "G"):
                wr(role, data=data)
            else:
                evs.append({"ev": "foreign", "d": "write to " + p})
        elif name == "copy_file_range":
            if len(r["fds"]) < 2 or r["ret"] == 0:
                continue
            p = r["fds"][1][1]
            role = case.role(p)
            if role in ("T", "F", "G"):
                wr(role, count=r["ret"])
            else:
                evs.append({"ev": "foreign", "d": "copy to " + p})
        elif name in ("fsync", "fdatasync"):
            p = r["fds"][0][1] if r["fds"] else ""
            role = case.role(p)
            if role in ("T", "F", "G"):
                evs.append({"ev": "fsync", "n": role})
            elif role == "B":
                evs.append({"ev": "fsyncdir"})
        elif name in ("renameat", "renameat2", "rename"):
            a, b = case.role(r["strs"][0]), case.role(r["strs"][1])
            if a in ("T", "F", "G") and b in ("F", "G"):
                evs.append({"ev": "rename", "a": a, "b": b})
            else:
                evs.append({"ev": "foreign", "d": "rename %s -> %s" % (r["strs"][0], r["strs"][1])})
        elif name in ("linkat", "link"):
            a, b = case.role(r["strs"][0]), case.role(r["strs"][1])
            if a in ("T", "F", "G") and b in ("F", "G"):
                evs.append({"ev": "link", "a": a, "b": b})
            else:
                evs.append({"ev": "foreign", "d": "link %s -> %s" % (r["strs"][0], r["strs"][1])})
        elif name in ("unlinkat", "unlink", "rmdir"):
            role = case.role(r["strs"][0])
            if role in ("T", "F", "G"):
                evs.append({"ev": "unlink", "n": role})
            elif role in ("O", "X", "B"):
                evs.append({"ev": "foreign", "d": "unlink " + r["strs"][0]})
        elif name in ("mkdirat", "mkdir"):
            if case.role(r["strs"][0]) != "TD":
                evs.append({"ev": "foreign", "d": "mkdir " + r["strs"][0]})
        elif name in UNMODELLED:
            tgt = (r["strs"][0] if r["strs"] else (r["fds"][0][1] if r["fds"] else ""))
            if case.role(tgt) in ("O", "X"):
                evs.append({"ev": "foreign", "d": "%s on %s" % (name, tgt)})
            else:
                probs.append("unmodelled system call %s(%s)" % (name, r["args"][:80]))
    return evs, probs


def fill(e):
    d = {"ev": "", "n": "", "a": "", "b": "", "cls": "", "r": "", "op": "", "hadOld": False, "hasAux": False,
         "F": "", "G": "", "d": ""}
    d.update(e)
    return d


class Driver:
    def __init__(self, ctx):
        self.ctx = ctx
        self.drv = ctx.build("./cmd/storedrv")
        self.pidir = ctx.build("./cmd/pidir")
        self.work = os.path.join(ctx.scratch, "fs")
        os.makedirs(self.work, exist_ok=True)
        self.pwfile = os.path.join(self.work, "pws.json")
        json.dump({k: v.decode("ascii") for k, v in PWS.items()}, open(self.pwfile, "w"))
        # a real record whose first line is longer than a 4 KiB read buffer (argon2id with a digest of 6000 bytes), for the
        # cases whose user already has such a record: written once by the library itself
        ld = os.path.join(self.work, "longrec")
        os.makedirs(os.path.join(ld, "base"), exist_ok=True)
        open(os.path.join(ld, "base", "boss.admin"), "w").write(scrypt_record(b"boss-pw"))
        open(os.path.join(ld, "store.yaml"), "w").write((CFG % (os.path.join(ld, "base"), base64.b64encode(HMAC1).decode())).replace(
            "default: 1", "default: 2").replace("length: 32", "length: 6000"))
        open(os.path.join(ld, "pw"), "wb").write(PWS["old"])
        subprocess.run([self.drv, "-cfg", os.path.join(ld, "store.yaml"), "-op", "add", "-user", "alice", "-pwfile", os.path.join(ld, "pw")],
                       stdout=subprocess.PIPE, stderr=subprocess.PIPE)
        try:
            Case.LONG_OLD = open(os.path.join(ld, "base", "alice.user"), "rb").read()
        except OSError:
            Case.LONG_OLD = None

    def run(self, case, tag, inject=None):
        root = os.path.join(self.work, tag)
        case.materialise(root)
        return self.run_prepared(case, inject)

    def run_prepared(self, case, inject=None):
        root = case.root
        tr = os.path.join(root, "strace.txt")
        cmd = ["strace", "-f", "-y", "-s", "200000", "-o", tr, "-e", "trace=" + CALLS]
        if inject:
            cmd += ["-e", "inject=" + inject]
        p = subprocess.run(cmd + case.argv(self.drv), stdout=subprocess.PIPE, stderr=subprocess.PIPE, timeout=60)
        res = None
        try:
            res = json.loads(p.stdout.decode().strip().splitlines()[-1])
        except Exception:
            pass
        parsed = parse_strace(tr)
        return {"rc": p.returncode, "res": res, "parsed": parsed, "root": root, "stderr": p.stderr.decode()[-500:]}

    def pi(self, base):
        # passwords as bytes: pidir reads JSON strings; non-UTF-8 bytes are carried as runes < 256 and
        # converted back there would be wrong, so only ASCII-safe passwords are used for projection
        out = subprocess.run([self.pidir, "-dir", base, "-pws", "@" + self.pwfile], stdout=subprocess.PIPE, text=True)
        return json.loads(out.stdout or "[]") or []

    def snapshot(self, root):
        # a process under observation may still be renaming / unlinking: a name that vanishes between the listing and
        # the read means "look again", not a crash of the check
        for attempt in range(20):
            try:
                return self._snapshot(root)
            except FileNotFoundError:
                time.sleep(0.01)
        return self._snapshot(root)

    def _snapshot(self, root):
        snap = {}
        for dp, dn, fn in os.walk(root):
            for f in fn:
                p = os.path.join(dp, f)
                if f in ("strace.txt",):
                    continue
                snap[os.path.relpath(p, root)] = hashlib.sha256(open(p, "rb").read()).hexdigest()[:16] + oct(os.stat(p).st_mode & 0o777)
            for d in dn:
                snap[os.path.relpath(os.path.join(dp, d), root) + "/"] = "dir"
        return snap


def view_of(case, entries, old_bytes):
    """Projection of the real directory to the PosixFS view {F: class, G: class}."""
    v = {}
    for role, path in (("F", case.F), ("G", case.G)):
        rel = os.path.basename(path)
        e = next((x for x in entries if x["name"] == rel), None)
        if e is None:
            v[role] = "absent"
        elif e["size"] == 0:
            v[role] = "empty"
        elif old_bytes is not None and e["sha"] == hashlib.sha256(old_bytes).hexdigest()[:24]:
            v[role] = "old"
        elif e["parsed"] and e["pw"] == "new" and e["auxlen"] == (len(case.aux) if case.op == "update" else 0) and \
                (case.op != "update" or e["auxsha"] == hashlib.sha256(case.aux).hexdigest()[:24]):
            v[role] = "new"
        else:
            v[role] = "torn"
    return v


def standard_cases(thorough=False):
    big = b"long: " + b"A" * 70000 + b"\n"
    cs = [
        Case("add-user", "add"),
        Case("add-admin", "add", target_admin=True),
        Case("add-existing", "add", had="user"),
        Case("update-noaux", "update", had="user"),
        Case("update-aux", "update", had="admin", aux=b"totp: QUJD\nu2f: REVG\n"),
        Case("update-bigaux", "update", had="user", aux=big),
        Case("update-missing", "update"),
        Case("setadmin-up", "setadmin", had="user", target_admin=True),
        Case("setadmin-down", "setadmin", had="admin", target_admin=False, aux=b"totp: QUJD\n"),
        Case("setadmin-missing", "setadmin", target_admin=True),
        Case("remove-user", "remove", had="user"),
        Case("remove-admin", "remove", had="admin", aux=b"x: y\n"),
        Case("remove-missing", "remove"),
        Case("init-empty", "init", empty_dir=True, target_admin=True),
    ]
    for c in (Case("update-tmp-otherfs", "update", had="admin", aux=b"totp: QUJD\n"), Case("add-tmp-otherfs", "add")):
        c.tmp_xdev = True
        cs.append(c)
    for c in (Case("update-over-crash-residue", "update", had="user", aux=b"totp: QUJD\n"), Case("add-over-crash-residue", "add", target_admin=True)):
        c.residue = True
        cs.append(c)
    for c in (Case("update-long-record", "update", had="user"), Case("update-long-record-aux", "update", had="admin", aux=b"totp: QUJD\nu2f: REVG\n"),
              Case("setadmin-long-record", "setadmin", had="user", target_admin=True)):
        c.long_old = True
        cs.append(c)
    for c in (Case("add-after-directory-replaced", "add"), Case("update-after-directory-replaced", "update", had="user", aux=b"x: y\n"),
              Case("setadmin-after-directory-replaced", "setadmin", had="user", target_admin=True)):
        c.swapdir = True
        cs.append(c)
    for c in (Case("add-after-other-store", "add"), Case("update-after-other-store", "update", had="user", aux=b"x: y\n"),
              Case("setadmin-after-other-store", "setadmin", had="user", target_admin=True), Case("remove-after-other-store", "remove", had="admin")):
        c.warm = True
        cs.append(c)
    if thorough:
        for n, aux in (("4095", b"x" * 4095), ("4096", b"y" * 4096), ("4097", b"z" * 4097), ("nonl", b"totp: no-newline"),
                       ("crlf", b"a: b\r\nc: d\r\n"), ("bin", bytes(range(256)) * 3), ("1m", b"m" * (1 << 20))):
            cs.append(Case("update-aux-" + n, "update", had="user", aux=aux))
    return cs


# ----------------------------------------------------------------------------- orchestration
INV_PROP = {"CrashAtomic": "C08", "NoVisibleBeforeDurable": "C09", "AckDurableT": "C09",
            "FailureChangesNothing": "C15", "TmpEmptyAfterOp": "C16", "OneFilePerUser": "C16", "RecordSurvives": "C16", "OnlyOwnPaths": "C03"}


TRACE_CFG = """SPECIFICATION TraceSpec
CONSTANTS TraceFile = "trace.ndjson"
CONSTRAINT TraceConstraint
INVARIANTS %s
POSTCONDITION TraceAccepted
CHECK_DEADLOCK FALSE
"""
PROP_INVS = {"C08": ["CrashAtomic"], "C09": ["NoVisibleBeforeDurable", "AckDurableT"], "C15": ["FailureChangesNothing"],
             "C16": ["TmpEmptyAfterOp", "OneFilePerUser", "RecordSurvives"], "C03": ["OnlyOwnPaths"]}


def tlc_trace(ctx, lines, name):
    trace = "".join(json.dumps(fill(e), separators=(",", ":")) + "\n" for e in lines)
    invs = PROP_INVS.get(ctx.pid) or [i for v in PROP_INVS.values() for i in v]
    res = ctx.run_tlc("TracePosixFS.tla", "trace.cfg", workers=1, timeout=600, name=name,
                      defines={"trace.ndjson": trace, "trace.cfg": TRACE_CFG % " ".join(invs)})
    hwm, inv = None, None
    for line in open(res["outfile"]):
        m = re.match(r'<<"HWM", (\d+), (\d+)>>', line)
        if m:
            hwm = (int(m.group(1)), int(m.group(2)))
        m = re.match(r"Error: Invariant (\w+) is violated", line)
        if m:
            inv = m.group(1)
    res["hwm"], res["inv"] = hwm, inv
    res["accepted"] = res["status"] == "ok" and hwm is not None and hwm[0] == hwm[1] + 1
    return res


def judge_traces(ctx, per_case, name):
    """per_case: list of (case, lines). One TLC run over the concatenation; on failure one run per case."""
    allines = [l for _, ls in per_case for l in ls]
    res = tlc_trace(ctx, allines, name)
    ctx.coverage["states"] = ctx.coverage.get("states", 0) + res["distinct"]
    ctx.coverage["transitions"] = ctx.coverage.get("transitions", 0) + res["generated"]
    if res["accepted"]:
        return
    # find the offending runs: split the concatenation into chunks, then single runs (in parallel)
    def check_chunk(lo_hi):
        lo, hi = lo_hi
        r = tlc_trace(ctx, [l for _, ls in per_case[lo:hi] for l in ls], "%s-%d-%d" % (name, lo, hi))
        return lo, hi, r
    chunks = [(i, min(i + 8, len(per_case))) for i in range(0, len(per_case), 8)]
    with concurrent.futures.ThreadPoolExecutor(max_workers=8) as ex:
        bad = [(lo, hi) for lo, hi, r in ex.map(check_chunk, chunks) if not r["accepted"]]
        singles = [(i, i + 1) for lo, hi in bad for i in range(lo, hi)]
        results = list(ex.map(check_chunk, singles))
    for lo, hi, r in results:
        case, ls = per_case[lo]
        if r["accepted"]:
            continue
        if r["inv"]:
            ctx.violation(INV_PROP.get(r["inv"], ctx.pid), "%s:%s" % (r["inv"], case.name),
                          "invariant %s of PosixFS is false on the system calls of %s (%s)" % (r["inv"], case.name, name),
                          trace=ls)
        elif r["status"] in ("ok", "violation") and r["hwm"]:
            ctx.inconclusive.append("trace of %s is not a PosixFS behaviour at line %d: %s" % (
                case.name, r["hwm"][0], json.dumps(ls[min(r["hwm"][0] - 1, len(ls) - 1)])))
        else:
            ctx.inconclusive.append("TLC failed on trace of %s: %s %s" % (case.name, r["status"], r["errors"][:2]))


def baselines(ctx, drv, cases):
    out = []
    for c in cases:
        r = drv.run(c, "base-" + c.name)
        if r["res"] is None or r["parsed"] is None or not r["parsed"]["ended"]:
            ctx.fatal("baseline run of %s failed: rc=%s %s" % (c.name, r["rc"], r["stderr"]))
        evs, probs = events_of(c, r["parsed"]["region"])
        for pr in probs:
            ctx.inconclusive.append("%s: %s" % (c.name, pr))
        ok = r["res"]["ok"] or c.op == "remove"
        lines = [dict(ev="reset", **c.ctx())] + evs + [{"ev": "ret", "r": "ok" if ok else "fail"}]
        fv = view_of(c, drv.pi(c.base), c.old)
        out.append({"case": c, "run": r, "events": evs, "lines": lines, "ok": ok, "final_view": fv})
        # the directory after the undisturbed operation: the whole new record (with the old auxiliary data) or, if refused, no change
        init = {"F": "old" if c.had else "absent", "G": "absent"}
        if not r["res"]["ok"] and c.op != "remove":
            want = init
        elif c.op in ("add", "update", "init"):
            want = {"F": "new", "G": "absent"}
        elif c.op == "setadmin":
            want = {"F": "absent", "G": "old"} if (c.had and ((c.had == "admin") != c.admin)) else init
        elif c.op == "remove":
            want = {"F": "absent", "G": "absent"}
        else:
            want = init
        if fv != want:
            ctx.violation(ctx.pid if ctx.pid in ("C08", "C15", "C01", "C16") else "C15", "final-state:%s" % c.name,
                          "after the undisturbed %s (reported ok=%s) the user's files are %s, expected %s" % (c.op, r["res"]["ok"], fv, want))
        if getattr(c, "xdev", None):
            shutil.rmtree(c.xdev, ignore_errors=True)
    return out


def mutating_indices(region):
    return [i for i, r in enumerate(region) if r["name"] in MUTATING or (
        r["name"] in ("openat", "open") and "O_CREAT" in r["args"]) or r["name"] in ("fsync", "fdatasync")]


def kill_runs(ctx, drv, bl, workers=16):
    """Kill the driver right before each mutating call; returns list of (case, lines) for TLC."""
    jobs = []
    for b in bl:
        reg = b["run"]["parsed"]["region"]
        for k, idx in enumerate(mutating_indices(reg)):
            jobs.append((b, k, idx))

    def one(job):
        b, k, idx = job
        c0 = b["case"]
        c = c0.clone()
        call = b["run"]["parsed"]["region"][idx]
        inj = "%s:error=EINTR:signal=SIGKILL:when=%d" % (call["name"], call["ordinal"])
        for attempt in range(3):       # an injection that did not fire is retried, never judged
            r = drv.run(c, "kill-%s-%d" % (c.name, k), inject=inj)
            p = r["parsed"]
            if not (p is None or p["ended"] or r["res"] is not None):
                break
        if p is None or p["ended"] or r["res"] is not None:
            return ("inconclusive", c, k, "driver survived the kill injection %s" % inj)
        reg = p["region"]
        if len(reg) != idx + 1 or reg[-1]["name"] != call["name"]:
            return ("inconclusive", c, k, "kill landed on call %d (%s), expected %d (%s)" % (
                len(reg), reg[-1]["name"] if reg else "-", idx + 1, call["name"]))
        evs, probs = events_of(c, reg, upto=idx)
        view = view_of(c, drv.pi(c.base), c.old)
        # recovery by a fresh store instance
        rec = {}
        for tag in ("old", "new", "third"):
            open(os.path.join(c.root, "pw"), "wb").write(PWS[tag])
            a = subprocess.run([drv.drv, "-cfg", os.path.join(c.root, "store.yaml"), "-op", "auth", "-user", c.user,
                                "-pwfile", os.path.join(c.root, "pw")], stdout=subprocess.PIPE, text=True)
            try:
                rec[tag] = json.loads(a.stdout.strip().splitlines()[-1])["ok"]
            except Exception:
                rec[tag] = "crash rc=%d" % a.returncode
        chk = subprocess.run([drv.drv, "-cfg", os.path.join(c.root, "store.yaml"), "-op", "check"],
                             stdout=subprocess.PIPE, text=True)
        try:
            rec["check"] = json.loads(chk.stdout.strip().splitlines()[-1])["ok"]
        except Exception:
            rec["check"] = "crash"
        others = {e["name"]: e["sha"] for e in drv.pi(c.base) if e["name"] in ("boss.admin", "bob.user")}
        # life goes on after the crash: the next change of the same user - under the other default parameter set, so that the
        # record has another length than whatever the killed process left in the work area - must yield a whole record with
        # exactly the auxiliary data the user had, nothing of the interrupted write
        second = None
        mine = [e for e in drv.pi(c.base) if e["name"] in (c.user + ".user", c.user + ".admin") and e.get("parsed")]
        if len(mine) == 1 and rec.get("check") is True:
            cfg2 = os.path.join(c.root, "store2.yaml")
            open(cfg2, "w").write(open(os.path.join(c.root, "store.yaml")).read().replace("default: 1", "default: 2"))
            open(os.path.join(c.root, "pw"), "wb").write(PWS["third"])
            u = subprocess.run([drv.drv, "-cfg", cfg2, "-op", "update", "-user", c.user, "-pwfile", os.path.join(c.root, "pw")],
                               stdout=subprocess.PIPE, text=True)
            try:
                okupd = json.loads(u.stdout.strip().splitlines()[-1])["ok"]
            except Exception:
                okupd = None
            after = [e for e in drv.pi(c.base) if e["name"] == mine[0]["name"]]
            a3 = subprocess.run([drv.drv, "-cfg", cfg2, "-op", "auth", "-user", c.user, "-pwfile", os.path.join(c.root, "pw")], stdout=subprocess.PIPE, text=True)
            try:
                auth3 = json.loads(a3.stdout.strip().splitlines()[-1])["ok"]
            except Exception:
                auth3 = None
            second = {"updated": okupd, "before": {k: mine[0].get(k) for k in ("auxsha", "auxlen", "pw", "param")},
                      "after": {k: after[0].get(k) for k in ("auxsha", "auxlen", "pw", "param", "parsed")} if after else None, "auth": auth3}
        c.cleanup()
        lines = [dict(ev="reset", **c.ctx())] + evs + [{"ev": "killview", "F": view["F"], "G": view["G"]}]
        return ("ok", c, k, {"lines": lines, "view": view, "recovery": rec, "others": others, "call": call["name"], "second": second})

    results = []
    with concurrent.futures.ThreadPoolExecutor(max_workers=workers) as ex:
        results = list(ex.map(one, jobs))
    per_case, nkill = [], 0
    for st, c, k, info in results:
        if st != "ok":
            ctx.notes.append("kill run %s#%d discarded: %s" % (c.name, k, info))
            continue
        nkill += 1
        per_case.append((c, info["lines"]))
        v, rec = info["view"], info["recovery"]
        present = [x for x in (v["F"], v["G"]) if x not in ("absent", "empty")]
        exp_old = "old" in present
        exp_new = "new" in present
        key = None
        if rec["third"] is not False:
            key, d = "recovery:third-password", "a third password authenticates / crashes after kill: %s" % rec
        elif "torn" not in present and (rec["old"] is not exp_old or rec["new"] is not exp_new):
            key, d = "recovery:old-until-new", "view %s but fresh instance says %s" % (v, rec)
        elif rec["check"] is not True and not c.empty_dir:
            key, d = "recovery:check", "store no longer passes the consistency check after kill: %s" % rec
        elif not c.empty_dir and len(info["others"]) != 2:
            key, d = "recovery:other-users", "other users' files changed: %s" % info["others"]
        sec = info.get("second")
        if not key and sec and sec["updated"] is True:
            a, b0 = sec["after"], sec["before"]
            # (the independent projection names the password where it knows the parameter set's figures; else the login decides)
            if not a or not a["parsed"] or a["pw"] not in ("third", "") or a["param"] != 2 or sec["auth"] is not True:
                key, d = "after-crash:next-update-not-whole", "the update after the crash reported success, the record is %s" % a
            elif a["auxsha"] != b0["auxsha"] or a["auxlen"] != b0["auxlen"]:
                key, d = "after-crash:next-update-mixed-record", ("the update after the crash left %d bytes of auxiliary data (had %d): the record is "
                                                                  "mixed with what the killed process left behind" % (a["auxlen"], b0["auxlen"]))
        if key:
            ctx.violation("C08", "%s:%s:before-%s" % (key, c.name, info["call"]), d)
        ctx.sample({"kill": c.name, "before_call": info["call"], "k": k, "real_view": v, "recovery": rec}) if k == 3 else None
    return per_case, nkill, len(jobs)


def overtaken_writer_runs(ctx, drv, bl, prop="C15", only_admin=False):
    """Two writer processes on one directory: the first is stopped on entry to each of its mutating system calls, a second process
    adds / updates the same user completely, then the first goes on.  If the first one reports failure, the directory is
    exactly what the second writer left (its record must not be damaged or removed by the loser's clean-up)."""
    import time as _t
    n = 0
    for b in bl:
        c0 = b["case"]
        if c0.op != "add" or c0.had or getattr(c0, "tmp_xdev", False) or getattr(c0, "warm", False) or getattr(c0, "residue", False) or getattr(c0, "swapdir", False):
            continue
        if only_admin and not c0.admin:
            continue
        reg = b["run"]["parsed"]["region"]
        for k, idx in enumerate(mutating_indices(reg)):
            call = reg[idx]
            c = c0.clone()
            c.materialise(os.path.join(drv.work, "overtaken-%s-%d" % (c.name, k)))
            tr = os.path.join(c.root, "strace.txt")
            w = subprocess.Popen(["strace", "-f", "-o", tr, "-e", "trace=" + call["name"], "-e",
                                  "inject=%s:delay_enter=400000:when=%d" % (call["name"], call["ordinal"])] + c.argv(drv.drv),
                                 stdout=subprocess.PIPE, stderr=subprocess.PIPE)
            _t.sleep(0.12)
            pf = os.path.join(c.root, "pw-second")
            open(pf, "wb").write(PWS["third"])
            second = subprocess.run([drv.drv, "-cfg", os.path.join(c.root, "store.yaml"), "-op", "add", "-user", c.user, "-pwfile", pf] +
                                    (["-admin"] if c.admin else []), stdout=subprocess.PIPE, text=True)
            try:
                second_ok = json.loads(second.stdout.strip().splitlines()[-1])["ok"]
            except Exception:
                second_ok = None
            snap_mid = drv.snapshot(c.root)
            out, _ = w.communicate(timeout=30)
            try:
                first_ok = json.loads(out.decode().strip().splitlines()[-1])["ok"]
            except Exception:
                first_ok = None
            snap_end = drv.snapshot(c.root)
            n += 1
            diff = sorted(x for x in set(snap_mid) | set(snap_end) if snap_mid.get(x) != snap_end.get(x) and x not in ("base/.tmp/", "strace.txt", "pw-second")
                          and not x.startswith("base/.tmp/"))
            if second_ok and first_ok is False and diff:
                ctx.violation(prop, "overtaken-writer:failed-%s-changed-store:before-%s" % (c.op, call["name"]),
                              "a second process added %s while the first was stopped before %s#%d; the first then reported failure, yet the directory "
                              "changed after the second writer had finished: %s" % (c.user, call["name"], idx, diff))
            if second_ok and not any(os.path.exists(os.path.join(c.base, c.user + e)) for e in (".user", ".admin")):
                # an acknowledged add whose record is gone once both writers are done: with an administrator this is a
                # directory that was initialised "successfully" and has no administrator
                ctx.violation("C16" if c.admin else prop, "overtaken-writer:acknowledged-record-missing:before-%s" % call["name"],
                              "the second process's add of %s was acknowledged; after the first process finished (ok=%s) the user has no file" % (c.user, first_ok))
            if second_ok and first_ok:
                # both acknowledged an add of the same user: exactly one of the two records may be there - a single whole file
                v = view_of(c, drv.pi(c.base), None)
                if v["F"] in ("torn", "empty") or v["G"] != "absent":
                    ctx.violation(prop, "overtaken-writer:both-acknowledged:before-%s" % call["name"], "both writers reported success, files: %s" % v)
            c.cleanup()
    return n


def reader_runs(ctx, drv, bl, workers=8):
    """Concurrent readers in other processes: the writer is stopped for 300 ms on entry to each of its mutating
    system calls (strace delay_enter) while fresh reader processes authenticate, check and project the directory."""
    jobs = []
    for b in bl:
        if b["case"].op not in ("add", "update", "init", "setadmin"):
            continue
        reg = b["run"]["parsed"]["region"]
        for k, idx in enumerate(mutating_indices(reg)):
            jobs.append((b, k, idx))

    def one(job):
        b, k, idx = job
        c0 = b["case"]
        c = c0.clone()
        call = b["run"]["parsed"]["region"][idx]
        c.materialise(os.path.join(drv.work, "reader-%s-%d" % (c.name, k)))
        tr = os.path.join(c.root, "strace.txt")
        cmd = ["strace", "-f", "-o", tr, "-e", "trace=" + call["name"], "-e",
               "inject=%s:delay_enter=300000:when=%d" % (call["name"], call["ordinal"])] + c.argv(drv.drv)
        w = subprocess.Popen(cmd, stdout=subprocess.PIPE, stderr=subprocess.PIPE)
        import time as _t
        _t.sleep(0.09)
        v1 = view_of(c, drv.pi(c.base), c.old)
        rec = {}
        for tag in ("old", "new", "third"):
            pf = os.path.join(c.root, "rpw-" + tag)
            open(pf, "wb").write(PWS[tag])
            a = subprocess.run([drv.drv, "-cfg", os.path.join(c.root, "store.yaml"), "-op", "auth", "-user", c.user, "-pwfile", pf],
                               stdout=subprocess.PIPE, text=True)
            try:
                rec[tag] = json.loads(a.stdout.strip().splitlines()[-1])["ok"]
            except Exception:
                rec[tag] = "crash rc=%d" % a.returncode
        v2 = view_of(c, drv.pi(c.base), c.old)
        w.wait(timeout=30)
        c.cleanup()
        return c, k, call["name"], v1, v2, rec

    with concurrent.futures.ThreadPoolExecutor(max_workers=workers) as ex:
        results = list(ex.map(one, jobs))
    n = 0
    for c, k, callname, v1, v2, rec in results:
        if v1 != v2:
            ctx.notes.append("reader run %s#%d discarded: the writer moved on during the observation" % (c.name, k))
            continue
        n += 1
        present = [x for x in (v1["F"], v1["G"]) if x not in ("absent", "empty")]
        key = None
        if "torn" in present:
            key, d = "reader:torn-record-visible", "a concurrent reader sees %s" % v1
        elif rec["third"] is not False:
            key, d = "reader:third-password", "%s" % rec
        elif rec["old"] is not ("old" in present) or rec["new"] is not ("new" in present):
            key, d = "reader:old-until-new", "directory view %s but a concurrent reader's logins say %s" % (v1, rec)
        elif c.op == "update" and not present:
            key, d = "reader:user-vanished-during-update", "view %s" % v1
        if key:
            ctx.violation("C08", "%s:%s:before-%s" % (key, c.name, callname), d)
    return n, len(jobs)


def slow_reader_runs(ctx, drv, workers=8):
    """The dual of reader_runs: a READER process (one login with the right password) is stopped for 500 ms on entry to each of its
    system calls on the user's file, and meanwhile a writer process re-hashes the very same password under the other parameter
    set (a hash upgrade: the file is replaced by one rename).  Whatever the reader had seen before, its login must succeed: it
    reads either the whole old record or the whole new one, never a header of one and a digest of the other."""
    c = Case("slow-reader", "auth", had="user", aux=b"totp: QUJD\n", pw="old")
    r0 = drv.run(c, "slowreader-base")
    if not r0["parsed"] or r0["res"] is None or not r0["res"].get("ok"):
        ctx.notes.append("slow-reader baseline unusable")
        return 0, 0
    calls = [(x["name"], x["ordinal"]) for x in r0["parsed"]["region"]
             if x["name"] in ("openat", "newfstatat", "statx", "read", "pread64") and "alice." in x.get("raw", x.get("args", ""))]
    c.cleanup()

    def one(job):
        k, (name, ordinal) = job
        cc = c.clone()
        cc.materialise(os.path.join(drv.work, "slowreader-%d" % k))
        cfg2 = os.path.join(cc.root, "store2.yaml")
        open(cfg2, "w").write(open(os.path.join(cc.root, "store.yaml")).read().replace("default: 1", "default: 2"))
        tr = os.path.join(cc.root, "strace.txt")
        cmd = ["strace", "-f", "-o", tr, "-e", "trace=" + name, "-e", "inject=%s:delay_enter=500000:when=%d" % (name, ordinal)] + cc.argv(drv.drv)
        rd = subprocess.Popen(cmd, stdout=subprocess.PIPE, stderr=subprocess.PIPE)
        import time as _t
        _t.sleep(0.12)
        w = subprocess.run([drv.drv, "-cfg", cfg2, "-op", "update", "-user", cc.user, "-pwfile", os.path.join(cc.root, "pw")], stdout=subprocess.PIPE, text=True)
        early = rd.poll() is not None          # the reader was already through: nothing was overlapped
        out, _ = rd.communicate(timeout=30)
        try:
            ok = json.loads(out.decode().strip().splitlines()[-1])
        except Exception:
            ok = None
        try:
            wrote = json.loads(w.stdout.strip().splitlines()[-1])["ok"]
        except Exception:
            wrote = None
        cc.cleanup()
        return k, name, ordinal, ok, wrote, early

    with concurrent.futures.ThreadPoolExecutor(max_workers=workers) as ex:
        results = list(ex.map(one, enumerate(calls)))
    n = 0
    for k, name, ordinal, ok, wrote, early in results:
        if ok is None or wrote is not True or early:
            ctx.notes.append("slow-reader run %d discarded (reader result %s, writer %s, early %s)" % (k, ok, wrote, early))
            continue
        n += 1
        if ok.get("ok") is not True:
            ctx.violation("C08", "reader:mixed-record-evaluated:held-before-%s" % name,
                          "a login with the right password, stopped before its %s #%d on the user's file while another process re-hashed the same "
                          "password under the other parameter set, was refused: %s" % (name, ordinal, ok))
    return n, len(calls)


ERRNOS = ("ENOSPC", "EIO", "EACCES", "EMFILE")


def fault_runs(ctx, drv, bl, errnos=ERRNOS, workers=16, only_calls=None, as_prop="C15"):
    """Fail each system call of each operation once. Returns (runs, requested, per_case trace lines)."""
    jobs = []
    for b in bl:
        if getattr(b["case"], "tmp_xdev", False) or getattr(b["case"], "warm", False) or getattr(b["case"], "swapdir", False):
            continue        # xdev: the operation already fails by construction (EXDEV), a second, injected fault is outside "an I/O
                            # error"; warm: the same call sequence as the plain case, the faults are injected there
        reg = b["run"]["parsed"]["region"]
        commit = next((i for i, r in enumerate(reg) if r["name"] in ("renameat", "renameat2", "rename", "unlinkat", "unlink")
                       and r["ret"] == 0 and b["case"].role(r["strs"][-1 if r["name"].startswith("rename") else 0]) in ("F", "G")), None)
        for idx, call in enumerate(reg):
            if call["name"] == "close" or (only_calls and call["name"] not in only_calls):
                continue
            for en in errnos:
                jobs.append((b, idx, en, commit))

    def one(job):
        b, idx, en, commit = job
        c0 = b["case"]
        c = c0.clone()
        call = b["run"]["parsed"]["region"][idx]
        tag = "fault-%s-%d-%s" % (c.name, idx, en)
        c.materialise(os.path.join(drv.work, tag))
        before = drv.snapshot(c.root)
        r = drv.run_prepared(c, inject="%s:error=%s:when=%d" % (call["name"], en, call["ordinal"]))
        p = r["parsed"]
        if p is None or r["res"] is None or not p["ended"]:
            out = ("crash", c, idx, en, call, "driver died (rc %s): %s" % (r["rc"], r["stderr"][-300:]), commit)
        else:
            reg = p["region"]
            if len(reg) <= idx or not reg[idx]["injected"] or reg[idx]["name"] != call["name"]:
                out = ("inconclusive", c, idx, en, call, "injection did not land on call %d" % idx, commit)
            else:
                after = drv.snapshot(c.root)
                diff = sorted(k for k in set(before) | set(after) if before.get(k) != after.get(k)
                              and k not in ("base/.tmp/", "pw"))
                view = view_of(c, drv.pi(c.base), c.old)
                evs, _ = events_of(c, reg)
                ok = r["res"]["ok"] or c.op == "remove"
                lines = [dict(ev="reset", **c.ctx())] + evs + [{"ev": "ret", "r": "ok" if ok else "fail"}]
                out = ("ok", c, idx, en, call, {"res": r["res"], "diff": diff, "view": view, "lines": lines}, commit)
        c.cleanup()
        return out

    with concurrent.futures.ThreadPoolExecutor(max_workers=workers) as ex:
        results = list(ex.map(one, jobs))
    n = 0
    per_case = []
    for st, c, idx, en, call, info, commit in results:
        where = "%s#%d" % (call["name"], idx)
        if st == "inconclusive":
            ctx.notes.append("fault run %s %s %s discarded: %s" % (c.name, where, en, info))
            continue
        n += 1
        if st == "crash":
            ctx.violation("C15", "fault-crash:%s:%s" % (c.name, call["name"]), "%s under %s: %s" % (where, en, info))
            continue
        res, diff, view = info["res"], info["diff"], info["view"]
        fc = Case("%s[%s=%s]" % (c.name, where, en), c.op)
        per_case.append((fc, info["lines"]))
        after_commit = commit is not None and idx > commit
        if c.op == "remove":
            continue        # remove reports nothing, so there is no "reported failure" to judge
        if not res["ok"] and diff:
            if after_commit:
                key = "failure-after-commit:%s" % ("write" if c.op in ("add", "update", "init") else c.op)
            else:
                key = "failure-changed-store:%s:%s" % (c.name, call["name"])
            ctx.violation(as_prop, key, "%s of %s failed with %s, the operation reported %r, but the store changed: %s" % (
                where, c.name, en, res["err"], diff))
        if res["ok"]:
            bview = next(b["final_view"] for b in bl if b["case"].name == c.name)
            bok = next(b["ok"] for b in bl if b["case"].name == c.name)
            if bok and view != bview:
                ctx.violation("C15", "fault-ignored:%s:%s" % (c.name, call["name"]),
                              "%s failed with %s, success was reported, but the result is %s instead of %s" % (where, en, view, bview))
        if n % 97 == 0:
            ctx.sample({"fault": c.name, "call": where, "errno": en, "reported_ok": res["ok"], "changed": diff})
    return n, len(jobs), per_case


# ----------------------------------------------------------------------------- TwoWriters.tla: several processes, one directory
TW_WRONG = {"MC_TwoWriters_bad_unserialised_twofiles.cfg": "OneFilePerUser",
            "MC_TwoWriters_bad_unserialised_strayempty.cfg": "NoStrayEmpty",
            "MC_TwoWriters_bad_unserialised_order.cfg": "SomeOrderExplains",
            "MC_TwoWriters_known_three_loser.cfg": "LoserHarmless"}
TW_AUX = b"totp: QUJD\nu2f: REVG\n"
TW_PW = {1: "new", 2: "third"}


def two_writers_model(ctx, thorough=False):
    """TLC on TwoWriters: free interleaving, serialised (what the dispatcher gives), the refutations that show why the
    serialisation is needed, and the generator configuration whose printed outcomes are replayed on real processes."""
    cov = ctx.coverage
    pc = cov.setdefault("per_config", {})
    for cfg in ("MC_TwoWriters_free.cfg", "MC_TwoWriters_serial.cfg") + (("MC_TwoWriters_serial3.cfg",) if thorough else ()):
        r = ctx.run_tlc("MC_TwoWriters.tla", cfg, workers=4, timeout=600)
        ctx.tlc_must_pass(r, cfg)
        pc[cfg] = {"distinct": r["distinct"], "status": r["status"]}
        cov["states"] = cov.get("states", 0) + r["distinct"]
        cov["transitions"] = cov.get("transitions", 0) + r["generated"]
    for cfg, inv in TW_WRONG.items():
        r = ctx.run_tlc("MC_TwoWriters.tla", cfg, workers=1, timeout=300)
        refuted = r["status"] == "violation" and any(inv in e for e in r["errors"])
        pc[cfg] = {"status": r["status"], "expected": "violation of " + inv, "refuted": refuted}
        if not refuted:
            ctx.inconclusive.append("wrong variant %s not refuted (%s %s)" % (cfg, r["status"], r["errors"][:1]))
    g = ctx.run_tlc("MC_TwoWriters.tla", "MC_TwoWriters_gen.cfg", workers=1, timeout=600)
    ctx.tlc_must_pass(g, "MC_TwoWriters_gen.cfg")
    pc["MC_TwoWriters_gen.cfg"] = {"distinct": g["distinct"], "status": g["status"]}
    return [e for e in g["edges"] if isinstance(e, dict) and e.get("tw") == "outcome"]


def _tw_label(base, user, r, st):
    """model pc label of one strace'd call of process 1 (None: not a boundary the model has)"""
    name = r["name"]
    U, A = os.path.join(base, user + ".user"), os.path.join(base, user + ".admin")
    strs, args = r["strs"], r["args"]
    if name in ("openat", "open"):
        p = strs[0] if strs else ""
        if p in (U, A) and "O_EXCL" in args:
            return "creat" if "O_CREAT" in args else "open"
        if p.startswith(base + "/.tmp/") and "O_CREAT" in args:
            return "mktmp"
        return None
    if name in ("mkdirat", "mkdir"):
        return "mktmp"
    if name in ("write", "pwrite64", "copy_file_range"):
        fds = r["fds"]
        tgt = fds[-1][1] if name == "copy_file_range" and len(fds) >= 2 else (fds[0][1] if fds else "")
        if tgt.startswith(base + "/.tmp/"):
            if not st.get("wrote"):
                st["wrote"] = True
                return "write"
            return "copyaux"
        return None
    if name in ("fsync", "fdatasync"):
        p = r["fds"][0][1] if r["fds"] else ""
        return "sync" if p.startswith(base + "/.tmp/") else ("syncdir" if p == base else None)
    if name in ("renameat", "renameat2", "rename"):
        return "rename"
    if name in ("unlinkat", "unlink"):
        p = strs[0] if strs else ""
        return "unlinkA" if p == A else ("unlinkU" if p == U else None)
    return None


class TwDir:
    def __init__(self, drv, tag, init):
        self.root = os.path.join(drv.work, tag)
        shutil.rmtree(self.root, ignore_errors=True)
        self.base = os.path.join(self.root, "base")
        os.makedirs(self.base, mode=0o700)
        self.user = "alice"
        self.old = scrypt_record(PWS["old"]).encode() + TW_AUX
        if init != "absent":
            p = os.path.join(self.base, "alice." + init)
            open(p, "wb").write(self.old)
            os.chmod(p, 0o600)
        open(os.path.join(self.base, "boss.admin"), "wb").write(scrypt_record(b"boss-pw").encode() + b"totp: AAAA\n")
        open(os.path.join(self.base, "bob.user"), "wb").write(scrypt_record(b"bob-pw").encode())
        open(os.path.join(self.root, "store.yaml"), "w").write(CFG % (self.base, base64.b64encode(HMAC1).decode()))
        for p in (1, 2):
            open(os.path.join(self.root, "pw%d" % p), "wb").write(PWS[TW_PW[p]])

    def argv(self, drv, p, op):
        real = {"add": "add", "addadmin": "add", "update": "update", "setadmin": "setadmin", "unsetadmin": "setadmin", "remove": "remove"}[op]
        a = [drv.drv, "-cfg", os.path.join(self.root, "store.yaml"), "-op", real, "-user", self.user, "-pwfile", os.path.join(self.root, "pw%d" % p)]
        if op in ("addadmin", "setadmin"):
            a.append("-admin")
        return a

    def view(self, drv, init, ops):
        ents = drv.pi(self.base)
        v = {}
        for role, ext in (("U", "user"), ("A", "admin")):
            e = next((x for x in ents if x["name"] == "alice." + ext), None)
            if e is None:
                v[role] = "absent"
            elif e["size"] == 0:
                v[role] = "empty"
            elif e["sha"] == hashlib.sha256(self.old).hexdigest()[:24]:
                v[role] = "old"
            elif e["parsed"] and e["pw"] in ("new", "third"):
                p = 1 if e["pw"] == "new" else 2
                auxold = e["auxlen"] == len(TW_AUX) and e["auxsha"] == hashlib.sha256(TW_AUX).hexdigest()[:24]
                auxnone = e["auxlen"] == 0
                if ops[p - 1] in ("add", "addadmin"):
                    good = auxnone
                elif init == "absent":
                    good = auxnone                      # whatever it replaced was somebody's freshly added record
                elif all(o in ("update", "setadmin", "unsetadmin") for o in ops):
                    good = auxold
                else:
                    good = auxold or auxnone
                v[role] = "new%d" % p if good else "torn"
            else:
                v[role] = "torn"
        return v

    def others(self, drv):
        return {e["name"]: e["sha"] for e in drv.pi(self.base) if e["name"] in ("boss.admin", "bob.user")}


def two_writer_runs(ctx, drv, outcomes, props, limit=None, workers=12):
    """Every printed outcome of MC_TwoWriters_gen (operations of process 1 and 2, initial record, call boundary of process 1 at
    which process 2 runs) on real processes: process 1 is held by strace on entry to the system call the model names, process 2
    runs in one piece, process 1 goes on.  Verdicts come from the real run: no torn record (C08), a process that reports
    failure has changed nothing (C15), other users untouched (C15), sequential cuts behave like the sequential store (C01 /
    C11); a real outcome that differs from the model's in another way makes the run inconclusive (the specification no longer
    describes the code), never a violation."""
    import time as _t
    rows = outcomes if limit is None else outcomes[:limit]
    # one strace'd solo run of process 1 per (operation, initial record): where are the model's call boundaries?
    solo = {}
    for op1, init in sorted({(r["ops"][0], r["init"]) for r in rows}):
        d = TwDir(drv, "tw-solo-%s-%s" % (op1, init), init)
        tr = os.path.join(d.root, "strace.txt")
        subprocess.run(["strace", "-f", "-y", "-s", "300", "-o", tr, "-e", "trace=" + CALLS] + d.argv(drv, 1, op1),
                       stdout=subprocess.PIPE, stderr=subprocess.PIPE, timeout=60)
        p = parse_strace(tr)
        if p is None or not p["ended"]:
            ctx.inconclusive.append("two-writers: solo run of %s/%s not parsed" % (op1, init))
            continue
        st, labels = {}, {}
        for r in p["region"]:
            lab = _tw_label(d.base, d.user, r, st)
            if lab and lab not in labels:
                labels[lab] = (r["name"], r["ordinal"])
        solo[(op1, init)] = labels
        shutil.rmtree(d.root, ignore_errors=True)

    def result(out):
        try:
            return json.loads(out.decode().strip().splitlines()[-1])["ok"]
        except Exception:
            return None

    def one(row):
        ops, init, cut = row["ops"], row["init"], row["cut"]
        tag = "tw-%s-%s-%s-%s" % (ops[0], ops[1], init, cut)
        for attempt, (lead, hold) in enumerate(((0.25, 0.9), (0.7, 2.6))):
            d = TwDir(drv, tag, init)
            snaps = {}
            if cut in ("statA", "done"):
                order = (2, 1) if cut == "statA" else (1, 2)
                rets = {}
                for p in order:
                    snaps["before%d" % p] = drv.snapshot(d.root)
                    o = subprocess.run(d.argv(drv, p, ops[p - 1]), stdout=subprocess.PIPE, stderr=subprocess.PIPE, timeout=60)
                    rets[p] = result(o.stdout)
                    snaps["after%d" % p] = drv.snapshot(d.root)
                ok = True
            else:
                lab = solo.get((ops[0], init), {}).get(cut)
                if lab is None:
                    return ("nomap", row, "process 1 (%s on %s) has no call boundary %r in its solo run" % (ops[0], init, cut))
                tr = os.path.join(d.root, "strace.txt")
                snaps["before1"] = drv.snapshot(d.root)
                w = subprocess.Popen(["strace", "-f", "-ttt", "-o", tr, "-e", "trace=" + lab[0], "-e",
                                      "inject=%s:delay_enter=%d:when=%d" % (lab[0], int(hold * 1e6), lab[1])] + d.argv(drv, 1, ops[0]),
                                     stdout=subprocess.PIPE, stderr=subprocess.PIPE)
                _t.sleep(lead)
                snaps["before2"] = drv.snapshot(d.root)
                t2a = _t.time()
                o2 = subprocess.run(d.argv(drv, 2, ops[1]), stdout=subprocess.PIPE, stderr=subprocess.PIPE, timeout=60)
                t2b = _t.time()
                snaps["after2"] = drv.snapshot(d.root)
                t2c = _t.time()
                out1, _ = w.communicate(timeout=60)
                snaps["after1"] = drv.snapshot(d.root)
                rets = {1: result(out1), 2: result(o2.stdout)}
                # was process 2 (and the snapshots around it) really inside the hold of process 1?
                te, n = None, 0
                for line in open(tr, errors="replace"):
                    m = re.match(r"^(\d+)\s+(\d+\.\d+)\s+%s\(" % lab[0], line)
                    if m and "resumed" not in line:
                        n += 1
                        if n == lab[1]:
                            te = float(m.group(2))
                ok = te is not None and te + 0.01 < t2a - 0.06 and t2c < te + hold - 0.01
                snaps["window"] = [te, t2a, t2c, hold]
            if ok:
                break
            shutil.rmtree(d.root, ignore_errors=True)
        if not ok:
            return ("timing", row, "process 2 did not fit into the hold of process 1: %s" % snaps.get("window"))
        v = d.view(drv, init, ops)
        oth = d.others(drv)
        shutil.rmtree(d.root, ignore_errors=True)
        return ("ok", row, {"rets": rets, "view": v, "snaps": snaps, "others": oth})

    with concurrent.futures.ThreadPoolExecutor(max_workers=workers) as ex:
        results = list(ex.map(one, rows))
    ign = lambda k: k.startswith("base/.tmp") or k in ("strace.txt",)
    n = raced = mism = 0
    for st, row, info in results:
        ops, init, cut = row["ops"], row["init"], row["cut"]
        what = "%s||%s:%s:cut=%s" % (ops[0], ops[1], init, cut)
        if st != "ok":
            (ctx.inconclusive if st == "nomap" else ctx.notes).append("two-writers %s: %s" % (what, info))
            continue
        n += 1
        rets, v, sn = info["rets"], info["view"], info["snaps"]
        if None in rets.values():
            ctx.violation(props.get("crash", "C15"), "two-writers:crash:%s" % what, "a writer process died: %s" % rets)
            continue
        real = {"ret": ["ok" if (rets[p] or ops[p - 1] == "remove") else "fail" for p in (1, 2)], "view": v}
        if "torn" in v.values():
            ctx.violation(props.get("torn", "C08"), "two-writers:torn-record:%s" % what,
                          "after both writers finished the user's files are %s (results %s)" % (v, real["ret"]))
        if len(info["others"]) != 2:
            ctx.violation(props.get("others", "C15"), "two-writers:other-users:%s" % what, "other users' files: %s" % info["others"])
        for p in (1, 2):
            if real["ret"][p - 1] != "fail":
                continue
            if cut in ("statA", "done") or p == 2:
                a, b = sn["before%d" % p], sn["after%d" % p]
            else:
                a, b = sn["after2"], sn["after1"]          # what process 1 did after the cut; before it, its only effect can be its reservation
            diff = sorted(k for k in set(a) | set(b) if a.get(k) != b.get(k) and not ign(k))
            if p == 1 and cut not in ("statA", "done"):
                # ... and the reservation must be gone as well unless somebody else moved it away
                pass
            if diff:
                ctx.violation(props.get("loser", "C15"), "two-writers:failed-%s-changed-store:%s" % (ops[p - 1], what),
                              "process %d reported failure, yet the directory changed while it ran: %s" % (p, diff))
        model = {"ret": list(row["ret"]), "view": row["view"]}
        if real != model:
            if cut in ("statA", "done"):
                ctx.violation(props.get("seq", "C15"), "two-writers:sequential:%s" % what,
                              "two operations one after the other: real %s, sequential store semantics %s" % (real, model))
            else:
                mism += 1
                ctx.inconclusive.append("two-writers %s: real outcome %s differs from the model's %s" % (what, real, model))
        if v["U"] != "absent" and v["A"] != "absent":
            raced += 1
        if n % 61 == 0:
            ctx.sample({"two_writers": what, "model": model, "real": real})
    cov = ctx.coverage
    cov["two_writer_outcomes_replayed"] = n
    cov["two_writer_outcomes_requested"] = len(rows)
    cov["two_writer_races_confirmed_on_real_code"] = raced
    cov["two_writer_model_mismatches"] = mism
    return n
