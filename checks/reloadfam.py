"""Reload scenarios (C18): one process per sequence of on-disk configurations, validated against Reload.tla."""
import json, os, random, re


def sequences(seed, n):
    rng = random.Random(seed)
    kinds = ["A", "B", "C", "D", "E", "F", "G", "H", "unparsable", "unknownkey", "badset", "missing", "rekeyed-baddefault", "rekeyed-stray"]
    seqs = [["A", "B", "unparsable", "C", "D", "A"], ["A", "D", "B", "missing", "B", "badset", "C"], ["B", "unknownkey", "A", "A", "C"],
            ["A", "E", "C", "E", "B", "F", "G", "A"], ["C", "E", "G", "B", "F", "C"], ["A", "H", "C", "H", "B", "H", "A"], ["C", "H", "unparsable", "A"],
            ["C", "rekeyed-baddefault", "rekeyed-stray", "A", "rekeyed-stray", "B", "rekeyed-baddefault", "C"]]
    while len(seqs) < n:
        seqs.append([rng.choice(["A", "B", "C"])] + [rng.choice(kinds) for _ in range(rng.randint(3, 7))])
    return seqs[:n]


def run(ctx, prop="C18"):
    thorough = ctx.tier == "thorough"
    seqs = sequences(ctx.seed, 11 if not thorough else 40)
    lines = []
    for i, seq in enumerate(seqs):
        inp = os.path.join(ctx.scratch, "reload-%d.json" % i)
        outp = os.path.join(ctx.scratch, "reload-%d.ndjson" % i)
        json.dump([seq], open(inp, "w"))
        rc, out = ctx.run_inpkg("TestVerifReload", env={"VERIF_IN": inp, "VERIF_OUT": outp,
                                                        "VERIF_SCRATCH": os.path.join(ctx.scratch, "reload-dirs-%d" % i)}, timeout=120)
        if rc != 0 or not os.path.exists(outp):
            ctx.fatal("reload driver failed (rc %s): %s" % (rc, out[-2000:]))
        evs = [json.loads(l) for l in open(outp)]
        lines.append((seq, evs))
    allev = [e for _, evs in lines for e in evs]
    trace = "".join(json.dumps(e, separators=(",", ":")) + "\n" for e in allev)
    res = ctx.run_tlc("Reload.tla", "Reload.cfg", workers=1, timeout=300, name="reload-trace", defines={"trace.ndjson": trace})
    hwm = None
    for line in open(res["outfile"]):
        m = re.match(r'<<"HWM", (\d+), (\d+)>>', line)
        if m:
            hwm = (int(m.group(1)), int(m.group(2)))
    cov = ctx.coverage
    cov["reload_sequences"] = [s for s, _ in lines][:6]
    cov["reload_events"] = len(allev)
    cov["traces_validated_against_impl"] = cov.get("traces_validated_against_impl", 0) + len(lines)
    if res["status"] == "ok" and hwm and hwm[0] == hwm[1] + 1:
        return
    if not hwm:
        ctx.inconclusive.append("reload trace validation did not run: %s %s" % (res["status"], res["errors"][:2]))
        return
    e = allev[hwm[0] - 1]
    prev = allev[hwm[0] - 2] if hwm[0] > 1 else {}
    key = {"reloaded": "reload-outcome", "wrote": "write-after-reload", "login": "login-after-reload", "inflight": "requests-unanswered"}.get(e["ev"], e["ev"])
    if e["ev"] == "reloaded":
        key += ":ok=%s" % e["ok"]
    ctx.violation(prop, key, "the real agent's reload behaviour is not a behaviour of Reload.tla at event %d: %s (previous %s)" % (
        hwm[0], json.dumps(e), json.dumps(prev)))
