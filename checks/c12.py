"""C12 Hash upgrades preserve the password, converge, and can be switched off."""
import json
import agentfam as af
import storefam
from c10 import load_scenario

F_UP = {"u1": {"present": True, "pw": "p1", "set": 1, "adm": False},      # upgradeable (default 2)
        "u2": {"present": True, "pw": "p2", "set": 3, "adm": True},       # upgradeable, admin, other scrypt set
        "u3": {"present": True, "pw": "p3", "set": 2, "adm": False}}      # up to date


def login(c, u, p):
    return {"t": "send", "c": c, "k": "auth", "u": u, "p": p, "a": False}


def scen(name, mode, steps, **kw):
    d = {"name": name, "mode": mode, "default": 2, "files": F_UP, "passwords": af.PASSWORDS, "steps": steps,
         "gated": False, "seed": 1}
    d.update(kw)
    return d


def run(ctx):
    thorough = ctx.tier == "thorough"
    cov = ctx.coverage
    cov["states"] = cov["transitions"] = 0
    cov["per_config"] = {}
    for cfg in ("MC_Agent_local_%s.cfg", "MC_Agent_off_%s.cfg", "MC_Agent_remote_%s.cfg"):
        cfg = cfg % ("thorough" if thorough else "quick")
        res = ctx.run_tlc("MC_Agent.tla", cfg, workers=16, timeout=1500, heap="12g")
        ctx.tlc_must_pass(res, cfg)
        cov["states"] += res["distinct"]
        cov["transitions"] += res["generated"]
        cov["per_config"][cfg] = {"distinct": res["distinct"], "status": res["status"]}
    res = ctx.run_tlc("MC_Agent.tla", "MC_Agent_converge.cfg", workers=8, timeout=600)
    ctx.tlc_must_pass(res, "MC_Agent_converge.cfg")
    cov["per_config"]["MC_Agent_converge.cfg"] = {"distinct": res["distinct"], "status": res["status"]}
    cex, r2 = af.tlc_cex(ctx, "MC_Agent_bad_norecheck.cfg", "bad_norecheck")
    cov["per_config"]["MC_Agent_bad_norecheck.cfg"] = {"status": r2["status"], "expected": "violation"}
    # configuration reloads (the default set changes while upgrade requests are queued) and I/O failures of the library
    for cfg in ("MC_Agent_local_reload.cfg", "MC_Agent_local_iofault.cfg", "MC_Agent_setonly_noreload.cfg"):
        res = ctx.run_tlc("MC_Agent.tla", cfg, workers=16, timeout=1500, heap="12g")
        ctx.tlc_must_pass(res, cfg)
        cov["states"] += res["distinct"]
        cov["transitions"] += res["generated"]
        cov["per_config"][cfg] = {"distinct": res["distinct"], "status": res["status"]}
    # re-validating only "still upgradeable" is safe without reloads (above) and refuted with them: the counterexample is replayed
    cex2, r3 = af.tlc_cex(ctx, "MC_Agent_bad_setonly_reload.cfg", "bad_setonly_reload")
    cov["per_config"]["MC_Agent_bad_setonly_reload.cfg"] = {"status": r3["status"], "expected": "violation"}

    # Store level: `upgradeable` flag and the parameter set of written records, on every Store edge
    storefam.run_family(ctx, only_ops=("auth", "add", "update", "init"))

    one = lambda *steps: list(steps) + [{"t": "free"}]
    scs = []
    # idle agent, right password: the rewrite happens, same password / admin flag / aux, no longer upgradeable
    for u, p, adm in (("u1", "p1", False), ("u2", "p2", True)):
        scs.append(scen("converge-%s" % u, "local", one(login("c1", u, p)),
                        expect_idle={u: {"set": 2, "pw": p, "adm": adm, "aux": "orig"}}, expect_prop="C12",
                        expect_key="idle-upgrade-did-not-happen-or-damaged-record"))
    # the same with every kind of auxiliary data (the variants rotate with the scenario seed): byte-identical after the rewrite
    for sd in range(2, 6):
        scs.append(scen("converge-aux-%d" % sd, "local", one(login("c1", "u1", "p1"), {"t": "sleep", "n": 30}, login("c2", "u2", "p2")), seed=sd,
                        expect_idle={"u1": {"set": 2, "pw": "p1", "adm": False, "aux": "orig"}, "u2": {"set": 2, "pw": "p2", "adm": True, "aux": "orig"}},
                        expect_prop="C12", expect_key="idle-upgrade-did-not-happen-or-damaged-record"))
    # the upgrade fails with an I/O error (unusable work area): the record stays exactly as it was; once the fault is gone
    # the next login upgrades it
    for sd in (1, 2, 3):
        scs.append(scen("upgrade-io-fault-%d" % sd, "local",
                        [{"t": "breaktmp"}, login("c1", "u1", "p1"), {"t": "sleep", "n": 60}, login("c2", "u2", "p2"), {"t": "sleep", "n": 60},
                         {"t": "send", "c": "c3", "k": "update", "u": "u3", "p": "p1", "a": False}, {"t": "sleep", "n": 60},
                         {"t": "fixtmp"}, login("c4", "u1", "p1"), {"t": "free"}], seed=sd,
                        expect_idle={"u1": {"set": 2, "pw": "p1", "adm": False, "aux": "orig"}, "u2": {"set": 3, "pw": "p2", "adm": True, "aux": "orig"},
                                     "u3": {"set": 2, "pw": "p3", "adm": False, "aux": "orig"}},
                        expect_prop="C12", expect_key="failed-upgrade-damaged-record"))
    # ... or with a write that fails part-way (file-size limit of 256 bytes: the hash line fits, the 70 000-byte auxiliary line
    # does not): the record must stay byte-identical, and be upgraded once the limit is gone
    scs.append(scen("upgrade-write-cut-short", "local",
                    [{"t": "fsizelimit", "n": 256}, login("c1", "u1", "p1"), {"t": "sleep", "n": 80}, {"t": "fsizeunlimit"},
                     {"t": "sleep", "n": 20}, login("c2", "u1", "p1"), {"t": "free"}], seed=3,
                    expect_idle={"u1": {"set": 2, "pw": "p1", "adm": False, "aux": "orig"}}, expect_prop="C12", expect_key="failed-upgrade-damaged-record"))
    # a dropped upgrade request is not a lost user: the dispatcher is held while 10 password changes and 6 logins of the
    # upgradeable u1 queue up, so that logins are served while the update queue is full (their upgrade requests are dropped);
    # on the idle agent the next login of u1 upgrades the record
    for sd in (1, 2, 3):
        st = [{"t": "send", "c": "w%d" % i, "k": "update", "u": "u3", "p": "p3", "a": False} for i in range(10)]
        st += [login("l%d" % i, "u1", "p1") for i in range(6)]
        st += [{"t": "free"}, {"t": "sleep", "n": 30}, login("late", "u1", "p1"), {"t": "free"}]
        scs.append(scen("dropped-upgrade-then-login-%d" % sd, "local", st, gated=True, seed=sd,
                        expect_idle={"u1": {"set": 2, "pw": "p1", "adm": False, "aux": "orig"}, "u3": {"set": 2, "pw": "p3", "adm": False, "aux": "orig"}},
                        expect_prop="C12", expect_key="idle-upgrade-did-not-happen-or-damaged-record"))
    # up-to-date user and wrong passwords: nothing is rewritten at all
    scs.append(scen("noop-uptodate", "local", one(login("c1", "u3", "p3")), expect_unchanged=True, expect_prop="C12",
                    expect_key="login-rewrote-up-to-date-record"))
    scs.append(scen("noop-wrongpw", "local", one(login("c1", "u1", "p2"), login("c2", "u2", "p1"), login("c3", "u1", "")),
                    expect_unchanged=True, expect_prop="C12", expect_key="failed-login-rewrote-record"))
    # upgrades disabled: no authentication ever modifies the store
    scs.append(scen("off-logins", "", one(login("c1", "u1", "p1"), login("c2", "u2", "p2"), login("c3", "u1", "p2"),
                                          login("c4", "u3", "p3")),
                    expect_unchanged=True, expect_prop="C12", expect_key="store-modified-with-upgrades-off"))
    # remote mode: the local store is never touched (the master is unreachable here)
    scs.append(scen("remote-logins", "http://127.0.0.1:9/api/update", one(login("c1", "u1", "p1"), login("c2", "u2", "p2")),
                    expect_unchanged=True, expect_prop="C12", expect_key="store-modified-in-remote-mode"))
    # remote mode end to end: a second real agent as master.  The upgrade request must reach it (and rewrite the
    # record there) also after the master has been unavailable for more attempts than the upgrader has slots.
    burst = {"t": "load", "clients": 1, "calls": 14, "kinds": ["auth"], "users": ["u1"], "pws": ["p1"]}
    scs.append(scen("master-upgrade", "master", one(login("c1", "u2", "p2")), novalidate=True, expect_unchanged=True,
                    expect_master={"u2": {"set": 2, "pw": "p2", "adm": True, "aux": "orig"}}, expect_prop="C12",
                    expect_key_master="remote-upgrade-did-not-reach-master"))
    scs.append(scen("master-outage-then-upgrade", "master",
                    [{"t": "master_down"}, burst, {"t": "sleep", "n": 300}, {"t": "master_up"}, login("c9", "u1", "p1"), {"t": "free"}],
                    novalidate=True, expect_unchanged=True, expect_master={"u1": {"set": 2, "pw": "p1", "adm": False, "aux": "orig"}},
                    expect_prop="C12", expect_key_master="remote-upgrade-stops-after-master-outage"))
    # the same after an outage at transport level (connection cut without an answer), for more attempts than the upgrader has slots
    scs.append(scen("master-transport-outage-then-upgrade", "master",
                    [{"t": "master_down", "n": 2}, burst, {"t": "sleep", "n": 300}, {"t": "master_up"}, login("c9", "u1", "p1"), {"t": "free"}],
                    novalidate=True, expect_unchanged=True, expect_master={"u1": {"set": 2, "pw": "p1", "adm": False, "aux": "orig"}},
                    expect_prop="C12", expect_key_master="remote-upgrade-stops-after-master-outage"))
    # the default changes by a reload: `upgradeable` and the rewrite follow the new default at once
    for sd in (1, 2):
        scs.append(scen("reload-then-login-%d" % sd, "local",
                        [login("c0", "u3", "p3"), {"t": "sleep", "n": 30}, {"t": "hup", "n": 1}, login("c1", "u3", "p3"), {"t": "sleep", "n": 60},
                         login("c2", "u1", "p1"), {"t": "sleep", "n": 30}, {"t": "hup", "n": 3}, login("c3", "u2", "p2"), login("c4", "u1", "p1"), {"t": "free"}],
                        seed=sd, expect_idle={"u3": {"set": 1, "pw": "p3", "adm": False, "aux": "orig"}, "u1": {"set": 3, "pw": "p1", "adm": False, "aux": "orig"},
                                              "u2": {"set": 3, "pw": "p2", "adm": True, "aux": "orig"}},
                        expect_prop="C12", expect_key="upgrade-does-not-follow-reloaded-default"))
    # gated: the stale-upgrade counterexample and simulated behaviours
    if cex:
        scs.append(af.scenario_from_cex(cex, "cex-stale-upgrade", "local"))
    if cex2:      # Go's select may take the queued upgrade before the reload: several attempts
        for i in range(8 if not thorough else 24):
            scs.append(af.scenario_from_cex(cex2, "cex-stale-upgrade-reload-%d" % i, "local"))
    scs += af.simulated_scenarios(ctx, 25 if not thorough else 200)
    for i in range(4 if not thorough else 24):
        scs.append(load_scenario("load-%d" % i, ["local", ""][i % 2], ctx.seed * 77 + i, clients=8, calls=12,
                                 kinds=["auth", "auth", "auth", "update", "setadmin", "list"],
                                 files={k: v for k, v in F_UP.items() if k != "u3"}))
    results, events = af.run_scenarios(ctx, scs, "c12")
    before = len(ctx.violations)
    n = af.judge(ctx, scs, results, events, "c12", "C12")
    for v in ctx.violations[before:]:
        if v["prop"] == "C11" and v["key"] in ("stale-upgrade-applied", "acked-change-undone"):
            ctx.violation("C12", "upgrade-rewrote-for-another-password", v["detail"])
    cov["traces_validated_against_impl"] = cov.get("traces_validated_against_impl", 0) + n
    cov["evaluations"] = cov.get("evaluations", 0) + len(events)
    cov["agent_scenarios"] = [s["name"] for s in scs][:12]
    ctx.sample({"scenario": scs[0]["name"], "steps": scs[0]["steps"], "expect_idle": scs[0]["expect_idle"]})
    # two hosts: master + slave with name-by-name rsync, forwarded upgrades and configuration roll-out (Sync.tla)
    import syncfam
    syncfam.model(ctx, thorough)
    syncfam.histories(ctx, 400 if thorough else 40, props={"C12", "C01", "C10", "C16"})
    # the same with upgrades switched off on the slave: no login there ever reaches the master or changes a directory
    syncfam.histories(ctx, 100 if thorough else 12, props={"C12", "C01", "C10", "C16"}, name="sync-off", slave_mode="off")
    ctx.assumptions += ["remote mode is exercised with an unreachable master only (the local store must stay untouched)"]
