"""Master / slave family: Sync.tla (two hosts, name-by-name rsync, forwarded upgrades, configuration roll-out).
TLC checks the design exhaustively (free interleaving, lossy forwarding), refutes the wrong roll-out orders and the
slave-local-upgrade variant, and generates histories that are replayed on two real agents with real rsync runs."""
import json, os
import vlib
import agentfam as af

GOOD = [("MC_Sync_free.cfg", 8), ("MC_Sync_live.cfg", 4)]
BAD = ["MC_Sync_known_quickcheck.cfg", "MC_Sync_bad_masterfirst.cfg", "MC_Sync_bad_earlyretire.cfg", "MC_Sync_bad_slavelocal.cfg",
       "MC_Sync_bad_slavelocal_live.cfg"]


def model(ctx, thorough=False):
    cov = ctx.coverage
    pc = cov.setdefault("per_config", {})
    good = list(GOOD) + ([("MC_Sync_live2.cfg", 8)] if thorough else [])
    for cfg, w in good:
        defs = None
        if thorough and cfg == "MC_Sync_free.cfg":
            defs = {cfg: open(os.path.join(vlib.VERIF, "spec", cfg)).read().replace("MaxOps = 3", "MaxOps = 5")}
        res = ctx.run_tlc("MC_Sync.tla", cfg, workers=w, timeout=1500, heap="10g", defines=defs)
        ctx.tlc_must_pass(res, cfg)
        cov["states"] = cov.get("states", 0) + res["distinct"]
        cov["transitions"] = cov.get("transitions", 0) + res["generated"]
        pc[cfg] = {"distinct": res["distinct"], "generated": res["generated"], "status": res["status"]}
    for cfg in BAD:
        res = ctx.run_tlc("MC_Sync.tla", cfg, workers=4, timeout=600)
        pc[cfg] = {"status": res["status"], "expected": "violation"}
        if res["status"] != "violation":
            ctx.inconclusive.append("wrong variant %s was not refuted (%s)" % (cfg, res["status"]))


def histories(ctx, n, props=None, name="sync", slave_mode="remote"):
    """n simulated histories of MC_Sync_gen.cfg on two real agents + real rsync; findings of the properties in
    `props` (None = all) are reported, the others only counted."""
    cfg = "MC_Sync_gen.cfg" if slave_mode == "remote" else "MC_Sync_gen_%s.cfg" % slave_mode
    res = ctx.run_tlc("MC_Sync.tla", cfg, workers=1, simulate=n, depth=45, timeout=600, name="syncgen-" + slave_mode)
    hs, seen = [], set()
    for h in res["hists"]:
        key = json.dumps(h, sort_keys=True)
        if key not in seen:
            seen.add(key)
            hs.append(h)
    # TLC evaluates the printing invariant on every successor of the last state: histories that differ only in their
    # last step - keep one per simulated trace
    byprefix = {}
    for h in hs:
        byprefix.setdefault(json.dumps(h[:-1], sort_keys=True), h)
    hs = list(byprefix.values())[:n]
    if not hs:
        ctx.inconclusive.append("Sync generator produced no histories (%s)" % res["status"])
        return
    inp = {"histories": hs, "passwords": {k: af.PASSWORDS[k] for k in ("p1", "p2")}, "slave_mode": slave_mode,
           "seed": int(ctx.seed)}
    inf = os.path.join(ctx.scratch, name + "-in.json")
    json.dump(inp, open(inf, "w"))
    outd = os.path.join(ctx.scratch, name + "-out")
    os.makedirs(outd, exist_ok=True)
    rc, out = ctx.run_inpkg("TestVerifSync", env={"VERIF_IN": inf, "VERIF_OUT": outd,
                                                  "VERIF_SCRATCH": os.path.join(ctx.scratch, name + "-dirs")}, timeout=900)
    rf = os.path.join(outd, "sync_results.json")
    if not os.path.exists(rf):
        ctx.inconclusive.append("sync driver died (rc=%s): %s" % (rc, out[-1500:]))
        return
    r = json.load(open(rf))
    other = 0
    for f in r["findings"] or []:
        if props is None or f["prop"] in props or f["prop"] == ctx.pid:
            ctx.violation(f["prop"], f["key"], "history %d step %d (%s): %s" % (
                f["history"], f["step"], hs[f["history"]][min(f["step"], len(hs[f["history"]]) - 1)].get("t"), f["detail"]))
        else:
            other += 1
    c = ctx.coverage
    c["sync_histories_replayed"] = c.get("sync_histories_replayed", 0) + r["histories"]
    c["sync_steps"] = c.get("sync_steps", 0) + r["steps"]
    c["sync_rsync_runs"] = c.get("sync_rsync_runs", 0) + r["rsync_runs"]
    c["sync_reloads"] = c.get("sync_reloads", 0) + r["reloads"]
    c["sync_quick_check_hazard"] = r.get("quick_check_hazard")
    c["traces_validated_against_impl"] = c.get("traces_validated_against_impl", 0) + r["histories"]
    if other:
        ctx.notes.append("%d sync findings belong to other properties (reported by their checks)" % other)
    kinds = {}
    for h in hs:
        for e in h[1:]:
            kinds[e["t"]] = kinds.get(e["t"], 0) + 1
    c["sync_step_kinds"] = kinds
    ctx.sample({"sync_history_first_steps": [{k: v for k, v in e.items() if k not in ("ms", "ss", "dirty")} for e in hs[0][1:6]]})
