"""C13 saslauthd wire codec: exact format, lossless round trip, fragment-independent."""
import json, os, subprocess
import vlib


def replay(ctx, exe, edges, name, maxlen, resp, corpus=None):
    inp = os.path.join(ctx.scratch, name + ".ndjson")
    vlib.write_ndjson(inp, edges)
    outp = os.path.join(ctx.scratch, name + ".result.json")
    cmd = [exe, "-edges", inp, "-out", outp, "-seed", str(ctx.seed), "-maxlen", str(maxlen)]
    if resp:
        cmd.append("-resp")
    if corpus and os.path.isdir(corpus):
        cmd += ["-corpus", corpus]
    r = subprocess.run(cmd, stdout=subprocess.PIPE, stderr=subprocess.STDOUT, text=True)
    if r.returncode != 0 or not os.path.exists(outp):
        ctx.fatal("saslreplay failed: " + r.stdout[-2000:])
    out = json.load(open(outp))
    for v in out["violations"] or []:
        ctx.violation("C13", v["key"], v["detail"], edge=v.get("edge"))
    return out


def run(ctx):
    thorough = ctx.tier == "thorough"
    exe = ctx.build("./cmd/saslreplay")
    cov = ctx.coverage
    cov.update({"states": 0, "transitions": 0, "traces_validated_against_impl": 0, "evaluations": 0, "per_config": {}})
    for cfg, maxlen, resp, corpus in (("MC_SaslCodec_req_%s.cfg" % ("thorough" if thorough else "quick"), 2, False, "request-fuzzd/corpus"),
                                      ("MC_SaslCodec_resp.cfg", 4, True, "response-fuzzd/corpus")):
        res = ctx.run_tlc("MC_SaslCodec.tla", cfg, workers=1, timeout=1800, heap="10g")
        ctx.tlc_must_pass(res, cfg)
        out = replay(ctx, exe, res["edges"], cfg.replace(".cfg", ""), maxlen, resp,
                     os.path.join(ctx.snapshot_repo(), "sasl", corpus) if thorough else None)
        cov["states"] += res["distinct"]
        cov["transitions"] += res["generated"]
        cov["traces_validated_against_impl"] += out["edges"]
        cov["evaluations"] += out["decodes"] + out["encoder_laws"]
        cov["per_config"][cfg] = {"streams": out["edges"], "tlc_distinct_states": res["distinct"], "real_decodes": out["decodes"],
                                  "encoder_law_cases": out["encoder_laws"], "corpus_files": out["corpus_files"],
                                  "replay_wall_s": round(out["elapsed_s"], 1)}
        for s in out["samples"][:2]:
            ctx.sample(s)
    # the PAM module's encoder against the Go encoder (same fields, every pair of boundary lengths)
    import pamfam
    pres = ctx.run_tlc("MC_PamClient.tla", "MC_PamClient_code.cfg", workers=1, timeout=300)
    ctx.tlc_must_pass(pres, "MC_PamClient_code.cfg")
    edge = next(e for e in pres["edges"] if e["script"]["reply"]["id"] == "NO" and e["script"]["delay"] == "none"
                and e["script"]["after"] == "close" and not e["script"]["staleErrno"] and e["script"]["reachable"] and e["script"]["reads"]
                and e["script"]["cut"] >= 4)
    cov["pam_encoder_pairs"] = pamfam.encoder_grid(ctx, exe, edge)
    cov["evaluations"] += cov["pam_encoder_pairs"]
    cov["distinct_nontrivial"] = cov["traces_validated_against_impl"]
    cov["exhaustive"] = True
    cov["rule"] = ("TLC explores every delivery schedule of every stream of the bounded set (fragment independence on the scaled "
                   "alphabet) and prints Expected(stream); each stream is mapped by two length homomorphisms to real byte streams "
                   "and decoded under single/1-byte/2-way/random/zero-length/EOF-with-data read schedules")
    ctx.assumptions += ["bufio.Scanner (standard library) is trusted to call the split function as documented",
                        "byte fidelity inside a field is covered by the concretised replays (random contents), not by TLC",
                        "the PAM module is compiled against stub libpam headers; its request bytes are recorded by a scripted unix-socket server"]
