"""C01 Password verdict tracks the last acknowledged write."""
import storefam

def run(ctx):
    seeds = [ctx.seed] if ctx.tier == "quick" else [ctx.seed, ctx.seed + 1, ctx.seed + 2, ctx.seed + 3]
    storefam.run_family(ctx, seeds=seeds)
    ctx.assumptions += ["pi (projection) and the independent digest recomputation in harness/go/concrete are trusted",
                        "bounded model: 2 users, 3 passwords (two key-equivalent under scrypt), 2 parameter sets"]
