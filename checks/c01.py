"""C01 Password verdict tracks the last acknowledged write."""
import storefam, fsfam
import agentfam as af


def big_record_leg(ctx):
    """Parameter sets whose records are very long (argon2id digests of 40 000 and 70 000 bytes: first lines beyond 64 KiB) behave
    like any other: what was written authenticates, is listed, can be updated - through the built binary."""
    import base64, os, subprocess, fsfam
    exe = ctx.build_agent()
    n = 0
    for length in (40000, 70000):
        root = os.path.join(ctx.scratch, "bigrec-%d" % length)
        base = os.path.join(root, "base")
        os.makedirs(base, exist_ok=True)
        cfg = os.path.join(root, "store.yaml")
        open(cfg, "w").write((fsfam.CFG % (base, base64.b64encode(fsfam.HMAC1).decode())).replace("default: 1", "default: 2").replace("length: 32", "length: %d" % length))
        run = lambda *a: subprocess.run([exe, "--store", cfg] + list(a), stdout=subprocess.PIPE, stderr=subprocess.STDOUT, text=True, timeout=60)
        steps = [(("init", "root", "first password 1"), 0, None), (("add", "carol", "carols password"), 0, None),
                 (("authenticate", "carol", "carols password"), 0, None), (("authenticate", "carol", "carols passwore"), "nonzero", None),
                 (("list",), 0, "carol"), (("update", "carol", "second password"), 0, None), (("authenticate", "carol", "second password"), 0, None),
                 (("authenticate", "carol", "carols password"), "nonzero", None), (("check",), 0, None), (("remove", "carol"), 0, None),
                 (("authenticate", "carol", "second password"), "nonzero", None)]
        for args, want, must_show in steps:
            r = run(*args)
            n += 1
            bad = (want == 0 and r.returncode != 0) or (want == "nonzero" and r.returncode == 0) or (must_show and must_show not in r.stdout)
            if bad:
                ctx.violation("C01", "long-record:%s:length-%d" % (args[0], length), "`%s` exited with %d: %s" % (" ".join(args[:2]), r.returncode, r.stdout[-200:]))
                break
    ctx.coverage["long_record_steps"] = n


def run(ctx):
    thorough = ctx.tier == "thorough"
    big_record_leg(ctx)
    seeds = [ctx.seed] if not thorough else [ctx.seed, ctx.seed + 1, ctx.seed + 2, ctx.seed + 3]
    # library level: every edge of the bounded Store model + password-length boundary sweep
    storefam.run_family(ctx, seeds=seeds, sweep=True)
    # histories of 30 steps over 3 users / 4 passwords / 3 parameter sets, each against one real directory
    storefam.histories(ctx, 400 if not thorough else 6000)
    storefam.short_histories(ctx)
    # a failed add must not create the user (the default set loads but cannot hash)
    import clifam
    ctx.coverage["unhashable_default_runs"] = clifam.unhashable_default_leg(ctx, "C01")
    # histories with failed operations caused by I/O errors: a failed add/update must not change what
    # authenticates, exists or is listed (one real run per failing system call of the write protocol)
    drv = fsfam.Driver(ctx)
    cases = [c for c in fsfam.standard_cases(False) if c.op in ("add", "update", "init", "setadmin")]
    bl = fsfam.baselines(ctx, drv, cases)
    n, jobs, _ = fsfam.fault_runs(ctx, drv, bl, errnos=("ENOSPC",) if not thorough else ("ENOSPC", "EMFILE"),
                                  as_prop="C01")
    ctx.coverage["fault_histories"] = n
    # agent level: the same verdict after concurrent histories (linearized by the dispatcher), including the
    # stale-upgrade interleaving; any rejected trace here means a verdict that does not follow the last write
    scs = []
    cex, res = af.tlc_cex(ctx, "MC_Agent_bad_norecheck.cfg", "bad_norecheck")
    if cex:
        scs.append(af.scenario_from_cex(cex, "cex-stale-upgrade", "local"))
    # the same interleaving with a record stamped in the current second, and with a writer beside the agent between login and
    # upgrade: the verdict afterwards is that of the most recent successful write
    up1 = {"u1": {"present": True, "pw": "p1", "set": 1, "adm": False}, "u2": {"present": True, "pw": "p2", "set": 2, "adm": True}}
    for i in range(2):
        scs.append({"name": "stale-upgrade-same-second-%d" % i, "mode": "local", "default": 2, "files": up1, "passwords": af.PASSWORDS, "gated": True,
                    "seed": 1, "forced": False, "filler": 0, "novalidate": True,
                    "steps": [{"t": "stampnow", "u": "u1"}, {"t": "send", "c": "c2", "k": "auth", "u": "u1", "p": "p1", "a": False}, {"t": "recv"},
                              {"t": "send", "c": "c1", "k": "update", "u": "u1", "p": "p2", "a": False}, {"t": "upsend"}, {"t": "recv"}, {"t": "recv"},
                              {"t": "free"}],
                    "expect_idle": {"u1": {"set": 2, "pw": "p2", "adm": False}}, "expect_prop": "C01", "expect_key": "last-write-undone:same-second"})
    scs.append({"name": "upgrade-overtaken-by-external-writer", "mode": "local", "default": 2, "files": up1, "passwords": af.PASSWORDS, "gated": True,
                "seed": 1, "forced": False, "filler": 0, "novalidate": True,
                "steps": [{"t": "send", "c": "c1", "k": "auth", "u": "u1", "p": "p1", "a": False}, {"t": "recv"}, {"t": "upsend"},
                          {"t": "extupdate", "u": "u1", "p": "p2"}, {"t": "recv"}, {"t": "free"}],
                "expect_idle": {"u1": {"set": 2, "pw": "p2", "adm": False}}, "expect_prop": "C01", "expect_key": "last-write-undone:external-writer"})
    sims = af.simulated_scenarios(ctx, 16 if not thorough else 150)
    for i, sc in enumerate(sims):
        if i % 2:
            af.with_frontends(sc, ctx.seed * 17 + i)
    scs += sims
    # near-miss passwords through every frontend: what reaches the store is what the client sent (argon2id: exact bytes; scrypt:
    # a NUL followed by other bytes is not key-equivalent)
    P1, P2 = af.PASSWORDS["p1"], af.PASSWORDS["p2"]
    near = dict(af.PASSWORDS, n1=P1 + "\x00", n2=P1 + "\x00zz", n3=P1[:-1], n4=P1 + " ", n5=P1.upper(), n6=P2 + "\x00zz", n7=P2 + "\n", n8=" " + P2)
    steps, i = [{"t": "token"}], 0
    for via in ("sasl", "ldap", "basic", "http", "api"):
        for u, tags in (("u1", ("n1", "n2", "n3", "n4", "n5", "p1")), ("u2", ("n6", "n7", "n8", "p2"))):
            for tg in tags:
                if via in ("basic", "http") and "\x00" in near[tg] and via == "basic":
                    continue
                i += 1
                steps.append({"t": "send", "c": "m%d" % i, "k": "auth", "u": u, "p": tg, "a": False, "via": via})
    steps += [{"t": "sleep", "n": 50}, {"t": "free"}]
    scs.append({"name": "near-miss-frontends", "mode": "", "default": 2, "passwords": near, "steps": steps, "gated": False, "seed": 1,
                "frontends": True, "http_admin": ["u2", "p2"],
                "files": {"u1": {"present": True, "pw": "p1", "set": 2, "adm": False}, "u2": {"present": True, "pw": "p2", "set": 1, "adm": True}}})
    # overlapping logins with different expected verdicts on one interface: each caller gets the verdict of its own credentials
    from c10 import load_scenario
    for i in range(2 if not thorough else 8):
        scs.append(load_scenario("login-storm-%d" % i, "", ctx.seed * 311 + i, clients=24, calls=30 if not thorough else 80, kinds=["auth"]))
    results, events = af.run_scenarios(ctx, scs, "c01")
    before = len(ctx.violations)
    nval = af.judge(ctx, scs, results, events, "c01", "C01")
    for v in ctx.violations[before:]:          # a broken history is a C01 matter whatever else it is
        if v["prop"] in ("C11", "C12"):
            ctx.violation("C01", "agent-history:" + v["key"], v["detail"])
    ctx.coverage["traces_validated_against_impl"] += nval
    # verdicts of two agents (master, rsync-fed slave) along Sync.tla histories
    import syncfam
    syncfam.histories(ctx, 150 if ctx.tier == "thorough" else 15, props={"C01"})
    ctx.assumptions += ["pi (projection) and the independent digest recomputation in harness/go/concrete are trusted",
                        "bounded model: 2 users, 3 passwords (two key-equivalent under scrypt), 2 parameter sets"]
