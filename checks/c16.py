"""C16 The store directory stays valid; the consistency check is exact."""
import json, os, shutil, subprocess
import casefam, storefam, fsfam
import agentfam as af
from c10 import load_scenario


def cli_leg(ctx):
    """The built binary refuses every command on a directory that fails the check (exit status 3) unless
    checking is disabled."""
    exe = ctx.build_agent()
    root = os.path.join(ctx.scratch, "cli")
    n = 0
    good = fsfam.scrypt_record(b"pw").encode()
    for name, files, valid in (("no-admin", {"a.user": good}, False), ("dup", {"a.user": good, "a.admin": good}, False),
                               ("stray", {"a.admin": good, "x.txt": b"hi"}, False), ("valid", {"a.admin": good, "b.user": good}, True),
                               ("unsup-admin", {"a.admin": b"garbage\n"}, False)):
        base = os.path.join(root, name, "base")
        os.makedirs(base, exist_ok=True)
        for f, c in files.items():
            open(os.path.join(base, f), "wb").write(c)
        cfg = os.path.join(root, name, "store.yaml")
        import base64
        open(cfg, "w").write(fsfam.CFG % (base, base64.b64encode(fsfam.HMAC1).decode()))
        before = sorted(os.listdir(base))
        for cmd in (["list"], ["list", "--full"], ["add", "newuser", "pw"], ["update", "a", "pw2"], ["remove", "b"],
                    ["set-admin", "a", "true"], ["authenticate", "a", "pw"], ["check"]):
            for docheck in (True, False):
                if not docheck and cmd[0] in ("add", "update", "remove", "set-admin", "check"):
                    continue
                if valid and cmd[0] in ("add", "update", "remove", "set-admin"):
                    continue
                env = dict(os.environ, WHAWTY_AUTH_STORE_CONFIG=cfg)
                argv = [exe] + ([] if docheck else ["--do-check=false"]) + cmd
                r = subprocess.run(argv, env=env, stdout=subprocess.PIPE, stderr=subprocess.STDOUT, text=True, timeout=30)
                n += 1
                if docheck and not valid:
                    if r.returncode != 3:
                        ctx.violation("C16", "cli-ran-on-invalid-store:%s:%s" % (name, cmd[0]),
                                      "`%s` exited with %d on a directory that fails the check: %s" % (" ".join(cmd), r.returncode, r.stdout[-200:]))
                    if sorted(os.listdir(base)) != before:
                        ctx.violation("C16", "cli-changed-invalid-store:%s:%s" % (name, cmd[0]), "directory changed")
                if valid and docheck and cmd[0] in ("list", "check", "authenticate") and r.returncode != 0:
                    ctx.violation("C16", "cli-refused-valid-store:%s" % cmd[0], "exit %d: %s" % (r.returncode, r.stdout[-200:]))
                if not docheck and not valid and cmd[0] == "list" and r.returncode == 3 and "check" in r.stdout:
                    ctx.violation("C16", "cli-checks-although-disabled:%s" % name, r.stdout[-200:])
    return n


def large_dir_leg(ctx):
    """The DirCheck rules do not depend on the size of the directory: 700 users (more than any batch a directory reader
    hands out at once), the check passes; then one user at a time gets a second file (positions spread over the
    directory order) and the check must fail each time; so must it with the only administrator removed."""
    exe = ctx.build_agent()
    root = os.path.join(ctx.scratch, "large")
    base = os.path.join(root, "base")
    os.makedirs(base, exist_ok=True)
    import base64
    good = fsfam.scrypt_record(b"pw").encode()
    for i in range(700):
        open(os.path.join(base, "user%03d.user" % i), "wb").write(good)
    open(os.path.join(base, "boss.admin"), "wb").write(good)
    cfg = os.path.join(root, "store.yaml")
    open(cfg, "w").write(fsfam.CFG % (base, base64.b64encode(fsfam.HMAC1).decode()))
    env = dict(os.environ, WHAWTY_AUTH_STORE_CONFIG=cfg)
    chk = lambda: subprocess.run([exe, "check"], env=env, stdout=subprocess.PIPE, stderr=subprocess.STDOUT, text=True, timeout=60)
    r = chk()
    n = 1
    if r.returncode != 0:
        ctx.violation("C16", "large-directory:valid-store-refused", "700 users + 1 administrator: exit %d %s" % (r.returncode, r.stdout[-200:]))
        return n
    order = [x[:-5] for x in os.listdir(base) if x.endswith(".user")]
    for k in list(range(0, len(order), 41)) + [len(order) - 1]:
        dup = os.path.join(base, order[k] + ".admin")
        open(dup, "wb").write(good)
        r = chk()
        n += 1
        os.remove(dup)
        if r.returncode == 0:
            ctx.violation("C16", "large-directory:two-files-for-one-user-accepted", "%s has .user and .admin among 701 entries (directory "
                          "position %d): the check passed" % (order[k], k))
            break
    os.rename(os.path.join(base, "boss.admin"), os.path.join(base, "boss.user"))
    r = chk()
    n += 1
    if r.returncode == 0:
        ctx.violation("C16", "large-directory:no-administrator-accepted", "701 users, no administrator: the check passed")
    shutil.rmtree(root, ignore_errors=True)
    return n


def run(ctx):
    thorough = ctx.tier == "thorough"
    # the check is exact; init only on an empty directory: every directory-content case
    casefam.run_cases(ctx, "DirCheck.tla", "MC_DirCheck.cfg", "dir", "dir",
                      flt=None if thorough else (lambda c: hash(json.dumps(c, sort_keys=True)) % 3 == 0 or c["dir"]["inv"] != "none"
                                                 or c["dir"]["a"].startswith("both") or c["dir"]["tmp"] == "file"))
    # a valid store stays valid, never two files per user, empty work area after each operation: every Store edge ...
    storefam.run_family(ctx, seeds=[ctx.seed])
    # the same rules along model histories (SimStore, 3 parameter sets, default switches) against one real directory each
    storefam.histories(ctx, 200 if ctx.tier == "quick" else 2000)
    # ... and every idle point of concurrent agent histories (TraceIdle demands a passing check and an empty .tmp)
    scs = [load_scenario("load-%d" % i, ["local", ""][i % 2], ctx.seed * 13 + i, clients=8, calls=10) for i in range(4 if not thorough else 20)]
    scs += af.simulated_scenarios(ctx, 10 if not thorough else 100)
    # hash upgrades (record with a 70 000-byte auxiliary line, so the rewrite takes a while) against a stream of set-admin
    # requests for the same user; the default is switched by reloads so that every round has a fresh upgrade.  Whatever the
    # interleaving, the user has one file and the directory passes the check.
    rounds = []
    for i in range(40 if not thorough else 200):
        rounds += [{"t": "hup", "n": [3, 2][i % 2]},
                   {"t": "load", "clients": 4, "calls": 4, "quiet": True, "kinds": ["setadmin", "setadmin", "auth"], "users": ["u1"], "pws": ["p1"]},
                   {"t": "sleep", "n": 15}, {"t": "checkdup"}]
    scs.append({"name": "upgrade-vs-setadmin", "mode": "local", "default": 2, "passwords": af.PASSWORDS, "gated": False, "seed": 3, "novalidate": True,
                "files": {"u1": {"present": True, "pw": "p1", "set": 1, "adm": False}, "u2": {"present": True, "pw": "p2", "set": 2, "adm": True}},
                "steps": rounds + [{"t": "free"}]})
    results, events = af.run_scenarios(ctx, scs, "c16")
    before = len(ctx.violations)
    nval = af.judge(ctx, scs, results, events, "c16", "C16")
    for v in ctx.violations[before:]:
        if v["key"] == "idle-directory-differs" and ("checkok" in v["detail"] or "tmpempty" in v["detail"]):
            ctx.violation("C16", "agent-idle:" + v["key"], v["detail"])
    for e in events:
        if e["ev"] == "dupseen":
            ctx.violation("C16", "two-files-for-one-user-seen", "with all calls answered, both %s.user and %s.admin are in the directory" % (e["u"], e["u"]))
        if e["ev"] == "idle" and (not e.get("tmpempty", True)):
            ctx.violation("C16", "agent-idle:tmp-not-empty", "work area not empty at an idle point")
        if e["ev"] == "idle" and e.get("checkerr") and e.get("checkok"):
            ctx.violation("C16", "agent-idle:check-fails", "Check() fails at an idle point although an administrator exists: %s" % e["checkerr"])
    ctx.coverage["traces_validated_against_impl"] += nval
    # the work area is empty and no user has two files after every completed operation - also when one system call fails
    drv = fsfam.Driver(ctx)
    bl = fsfam.baselines(ctx, drv, [c for c in fsfam.standard_cases(False) if c.op != "remove"])
    fsfam.judge_traces(ctx, [(b["case"], b["lines"]) for b in bl], "syscalls")
    nf, jobs, per_case = fsfam.fault_runs(ctx, drv, bl, errnos=("EIO", "ENOSPC") if not thorough else fsfam.ERRNOS)
    fsfam.judge_traces(ctx, per_case, "faulted")
    ctx.coverage["fault_traces_validated"] = nf
    # TwoWriters.tla: serialised operations never yield two files for one user or a stray empty reservation (MC_TwoWriters_serial),
    # unserialised ones do (refuted variants); every pair of operations run one after the other by two real processes
    ctx.coverage["overtaken_writer_runs"] = fsfam.overtaken_writer_runs(ctx, drv, bl, prop="C16", only_admin=True)
    tw = [o for o in fsfam.two_writers_model(ctx, thorough) if o["cut"] in ("statA", "done")]
    fsfam.two_writer_runs(ctx, drv, tw, {"torn": "C16", "loser": "C15", "others": "C15", "seq": "C16", "crash": "C16"})
    ctx.coverage["cli_runs"] = cli_leg(ctx)
    ctx.coverage["large_directory_checks"] = large_dir_leg(ctx)
    # a running agent never switches to a directory that fails the check (SIGHUP with configurations naming a directory without
    # administrator, with a stray file, or whose only administrator's parameter set is no longer configured): Reload.tla
    import reloadfam
    reloadfam.run(ctx, prop="C16")
    import clifam
    clifam.replay(ctx, "C16")
    ctx.coverage["rule"] = ("every directory-content case of DirCheck (two creation orders) against Check/List/ListFull/Init; every Store "
                            "edge for validity / single file / empty .tmp; idle points of agent histories; the built binary on invalid "
                            "directories with and without --do-check=false")
