"""C18 Configuration loading is exact and reload is all-or-nothing."""
import json, os, subprocess
import vlib


def run(ctx):
    res = ctx.run_tlc("Config.tla", "MC_Config.cfg", workers=1, timeout=300)
    ctx.tlc_must_pass(res, "MC_Config.cfg")
    exe = ctx.build("./cmd/cfgreplay")
    inp = os.path.join(ctx.scratch, "config.ndjson"); vlib.write_ndjson(inp, res["edges"])
    outp = os.path.join(ctx.scratch, "config.json")
    r = subprocess.run([exe, "-cases", inp, "-out", outp, "-scratch", os.path.join(ctx.scratch, "cfgdirs")],
                       stdout=subprocess.PIPE, stderr=subprocess.STDOUT, text=True, timeout=1500)
    if r.returncode != 0 or not os.path.exists(outp):
        ctx.fatal("cfgreplay failed: " + r.stdout[-2000:])
    out = json.load(open(outp))
    for v in out["violations"] or []:
        ctx.violation("C18", v["key"], v["detail"], case=v.get("case"))
    cov = ctx.coverage
    cov.update({"states": res["distinct"], "transitions": res["generated"], "traces_validated_against_impl": out["cases"],
                "evaluations": out["cases"] + out["accepted_and_used"], "distinct_nontrivial": out["cases"],
                "accepted_configurations_used_in_child_process": out["accepted_and_used"]})
    import reloadfam
    reloadfam.run(ctx)
    # ... and every component follows: after chains of reloads the hooks caller announces the directory the agent serves
    import c19
    cov["hook_reload_scenarios"] = c19.reload_chain_leg(ctx, "C18")
    # reload outcomes of two agents whose directories are refreshed name by name (a directory in the middle of an
    # rsync run fails the check: the reload must be refused and the old configuration kept)
    import syncfam
    syncfam.histories(ctx, 150 if ctx.tier == "thorough" else 15, props={"C18"})
    for e in res["edges"][:2]:
        ctx.sample(e)
    cov["rule"] = ("every Config case (<= 2 deviations from a good document) rendered as YAML through NewDirFromConfig; every accepted "
                   "configuration used (add + authenticate per set) in a child process; reload scenarios on a real agent with SIGHUP")
    ctx.assumptions += ["numeric values that merely exhaust memory (scrypt cost 31, argon2 memory 2^32-1) are not generated"]
