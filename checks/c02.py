"""C02 Malformed, unsupported or tampered hash files never authenticate."""
import casefam, storefam


def run(ctx):
    thorough = ctx.tier == "thorough"
    casefam.run_cases(ctx, "Record.tla", "MC_Record_thorough.cfg" if thorough else "MC_Record_quick.cfg", "record", "record")
    # the same cases (at most one deviation) on a host with fewer processors than the argon2id set has lanes: what authenticates is
    # decided by the configured parameters, never by the machine
    dev = lambda e: sum(1 for k, v in e["case"].items() if v != {"algo": "match", "time": "dec", "param": "known", "salt": "orig", "digest": "match", "shape": "exact"}[k])
    casefam.run_cases(ctx, "Record.tla", "MC_Record_quick.cfg", "record", "record-fewcpus", flt=lambda e: dev(e) <= 1,
                      env={"GOMAXPROCS": "2", "VERIF_ARGON_THREADS": "4"})
    # the schema's rules for unsupported files inside histories: every Store edge (add/update/remove/list on unsupported files)
    storefam.run_family(ctx, seeds=[ctx.seed])
    # the same rules along model histories (SimStore, 3 parameter sets, default switches) against one real directory each
    storefam.histories(ctx, 200 if ctx.tier == "quick" else 2000)
    # a running agent whose configuration retires a parameter set by a reload: records of that set stop authenticating at once
    # (reload sequences validated against Reload.tla: a login works iff the record's set is configured now)
    import reloadfam
    reloadfam.run(ctx, prop="C02")
    ctx.coverage["exhaustive"] = True
    ctx.coverage["rule"] = ("every combination of first-line field classes with at most %d deviations from a canonical record is built as "
                            "real bytes (both algorithms, .user and .admin) and exercised through authenticate (right / wrong / empty / "
                            "near-miss password), list, list-full, add, exists, update, remove under a watchdog; plus every Store edge"
                            % (3 if thorough else 2))
    ctx.assumptions += ["byte strings outside the modelled field classes are covered only by the 'binary-junk' class (seeded random bytes)",
                        "non-canonical spellings whose meaning still satisfies the property's condition (e.g. '+' sign on the time, "
                        "CRLF, missing final newline) may be accepted or refused"]
