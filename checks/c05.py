"""C05 The saslauthd server fails closed on every byte stream."""
import json, os, subprocess
import vlib


def run(ctx):
    thorough = ctx.tier == "thorough"
    cov = ctx.coverage
    cov.update({"states": 0, "transitions": 0, "per_config": {}})
    res = ctx.run_tlc("SaslConn.tla", "MC_SaslConn_code.cfg", workers=8, timeout=900)
    ctx.tlc_must_pass(res, "MC_SaslConn_code.cfg")
    cov["states"] += res["distinct"]; cov["transitions"] += res["generated"]
    cov["per_config"]["MC_SaslConn_code.cfg"] = {"distinct": res["distinct"], "status": res["status"]}
    bad = ctx.run_tlc("SaslConn.tla", "MC_SaslConn_bad_noclip.cfg", workers=4, timeout=300)
    cov["per_config"]["MC_SaslConn_bad_noclip.cfg"] = {"status": bad["status"], "expected": "violation of ReplyDecodableByGoClient"}
    if bad["status"] != "violation":
        ctx.inconclusive.append("wrong variant MC_SaslConn_bad_noclip.cfg not refuted")
    ed = ctx.run_tlc("SaslConn.tla", "MC_SaslConn_edges.cfg", workers=1, timeout=300)
    ctx.tlc_must_pass(ed, "MC_SaslConn_edges.cfg")
    conn_edges = [json.loads(x) for x in sorted({json.dumps(e, sort_keys=True) for e in ed["edges"]})]
    st = ctx.run_tlc("MC_SaslCodec.tla", "MC_SaslCodec_req_quick.cfg", workers=1, timeout=900, heap="8g")
    ctx.tlc_must_pass(st, "MC_SaslCodec_req_quick.cfg")
    cov["states"] += st["distinct"]; cov["transitions"] += st["generated"]
    exe = ctx.build("./cmd/saslconn")
    sf = os.path.join(ctx.scratch, "streams.ndjson"); vlib.write_ndjson(sf, st["edges"])
    ef = os.path.join(ctx.scratch, "connedges.ndjson"); vlib.write_ndjson(ef, conn_edges)
    of = os.path.join(ctx.scratch, "saslconn.json")
    r = subprocess.run([exe, "-streams", sf, "-edges", ef, "-out", of, "-seed", str(ctx.seed), "-scratch",
                        os.path.join(ctx.scratch, "sock"), "-per-edge", "40" if thorough else "8"],
                       stdout=subprocess.PIPE, stderr=subprocess.STDOUT, text=True, timeout=1500)
    if r.returncode != 0 or not os.path.exists(of):
        ctx.fatal("saslconn failed: " + r.stdout[-2000:])
    out = json.load(open(of))
    for v in out["violations"] or []:
        ctx.violation("C05", v["key"], v["detail"], edge=v.get("edge"))
    cov["traces_validated_against_impl"] = out["connections"]
    cov["evaluations"] = out["connections"]
    cov["distinct_nontrivial"] = out["conn_edges"]
    cov["conn_edges"] = out["conn_edges"]
    cov["rule"] = ("every (stream class, client finish, callback outcome) edge of the SaslConn model is executed as several raw "
                   "unix-socket connections against a real sasl.Server, 32 at a time, with streams taken from the SaslCodec model "
                   "(both length homomorphisms, random fragmentation); distinct_nontrivial = distinct connection edges")
    for e in conn_edges[:2] + conn_edges[-1:]:
        ctx.sample(e)
    ctx.assumptions += ["a client that neither finishes nor closes is only required to get no positive answer (the property's "
                        "'exactly one reply' is asserted once the client has finished or half-closed)",
                        "the PAM side of 'decodable by the PAM module' is the module's documented read rule (min(len,256) bytes, "
                        "prefix OK); the compiled module itself is exercised in C20"]
