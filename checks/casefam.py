"""Pure case analyses (Record.tla, DirCheck.tla) enumerated by TLC and replayed by harness/go/cmd/casereplay."""
import json, os, subprocess
import vlib


def run_cases(ctx, module, cfg, kind, name, flt=None, env=None):
    res = ctx.run_tlc(module, cfg, workers=1, timeout=1200, heap="8g")
    ctx.tlc_must_pass(res, cfg)
    cases = res["edges"]
    if flt:
        cases = [c for c in cases if flt(c)]
    exe = ctx.build("./cmd/casereplay")
    inp = os.path.join(ctx.scratch, name + ".cases.ndjson")
    vlib.write_ndjson(inp, cases)
    outp = os.path.join(ctx.scratch, name + ".result.json")
    cmd = [exe, "-kind", kind, "-cases", inp, "-out", outp, "-seed", str(ctx.seed), "-scratch", os.path.join(ctx.scratch, "cases-" + name)]
    if kind == "record":
        cmd += ["-agent", ctx.build_agent()]
    r = subprocess.run(cmd, stdout=subprocess.PIPE, stderr=subprocess.STDOUT, text=True, env=dict(os.environ, **(env or {})))
    if r.returncode != 0 or not os.path.exists(outp):
        ctx.fatal("casereplay failed: " + r.stdout[-2000:])
    out = json.load(open(outp))
    for v in out["violations"] or []:
        ctx.violation(v["prop"], v["key"], v["detail"], case=v.get("case"))
    cov = ctx.coverage
    cov["states"] = cov.get("states", 0) + res["distinct"]
    cov["transitions"] = cov.get("transitions", 0) + res["generated"]
    cov["traces_validated_against_impl"] = cov.get("traces_validated_against_impl", 0) + out["cases"]
    cov["evaluations"] = cov.get("evaluations", 0) + out["executions"]
    cov["distinct_nontrivial"] = cov.get("distinct_nontrivial", 0) + out["cases"]
    cov.setdefault("per_config", {})[cfg] = {"cases": out["cases"], "real_calls": out["executions"], "replay_wall_s": round(out["elapsed_s"], 1)}
    for s in out["samples"][:2]:
        ctx.sample(s)
    return out
