"""C14 Written records follow the schema and the configured parameters exactly."""
import json, os, re, subprocess
import storefam
import agentfam as af


def rng_failure_leg(ctx):
    """The kernel's random source fails (getrandom -> ENOSYS, /dev/urandom cannot be opened; both injected with strace into the
    real library run by cmd/storedrv): an add/update must then fail without a record - never write a constant or repeated salt."""
    import base64, fsfam
    drv = ctx.build("./cmd/storedrv")
    root = os.path.join(ctx.scratch, "rngfail")
    n = 0
    for default in (1, 2):
        salts = []
        for op, user in (("add", "newbie"), ("add", "second"), ("update", "root")):
            d = os.path.join(root, "d%d-%s-%s" % (default, op, user))
            base = os.path.join(d, "base")
            os.makedirs(base, exist_ok=True)
            open(os.path.join(base, "root.admin"), "w").write(fsfam.scrypt_record(b"pw"))
            cfg = os.path.join(d, "store.yaml")
            open(cfg, "w").write((fsfam.CFG % (base, base64.b64encode(fsfam.HMAC1).decode())).replace("default: 1", "default: %d" % default))
            pwf = os.path.join(d, "pw"); open(pwf, "wb").write(b"a new password 123")
            argv = [drv, "-cfg", cfg, "-op", op, "-user", user, "-pwfile", pwf]
            tr = os.path.join(d, "tr1.txt")
            subprocess.run(["strace", "-f", "-o", tr, "-e", "trace=getrandom,openat", "-e", "inject=getrandom:error=ENOSYS"] + argv,
                           stdout=subprocess.PIPE, stderr=subprocess.PIPE, timeout=60)
            # which openat of which thread opens /dev/urandom?
            per_pid, hit = {}, None
            for line in open(tr):
                m = re.match(r"(\d+)\s+openat\((.*)", line)
                if not m:
                    continue
                per_pid[m.group(1)] = per_pid.get(m.group(1), 0) + 1
                if "/dev/urandom" in m.group(2) and hit is None:
                    hit = per_pid[m.group(1)]
            for f in os.listdir(base):          # undo whatever the probing run wrote
                if f != "root.admin":
                    p = os.path.join(base, f)
                    (os.remove if os.path.isfile(p) else lambda q: None)(p)
            open(os.path.join(base, "root.admin"), "w").write(fsfam.scrypt_record(b"pw"))
            if hit is None:
                ctx.notes.append("rng failure leg: no fallback open of /dev/urandom seen for %s (default %d)" % (op, default))
                continue
            tr2 = os.path.join(d, "tr2.txt")
            r = subprocess.run(["strace", "-f", "-o", tr2, "-e", "trace=getrandom,openat", "-e", "inject=getrandom:error=ENOSYS",
                                "-e", "inject=openat:error=EACCES:when=%d" % hit] + argv, stdout=subprocess.PIPE, stderr=subprocess.PIPE, timeout=60)
            inj = [l for l in open(tr2) if "INJECTED" in l and "openat" in l]
            if not inj or not all("/dev/urandom" in l for l in inj):
                ctx.notes.append("rng failure leg: injection did not land on /dev/urandom only for %s (default %d)" % (op, default))
                continue
            n += 1
            try:
                res = json.loads(r.stdout.decode().strip().splitlines()[-1])
            except Exception:
                ctx.violation("C14", "rng-failure:crash:%s" % op, "driver died: %s" % r.stderr.decode()[-300:])
                continue
            target = os.path.join(base, user + (".admin" if user == "root" else ".user"))
            line = open(target).read().split("\n")[0] if os.path.exists(target) else ""
            f = line.split(":")
            wrote = len(f) == 5 and (op == "add" or line + "\n" != fsfam.scrypt_record(b"pw"))
            if wrote:
                salt = base64.urlsafe_b64decode(f[3] + "=" * (-len(f[3]) % 4))
                salts.append(salt)
                if set(salt) <= {0} or len(set(salt)) < 4:
                    ctx.violation("C14", "written-record:salt-not-random:%s" % ("argon2id" if default == 2 else "scrypt"),
                                  "%s with a failing random source reported ok=%s and wrote salt %s" % (op, res.get("ok"), salt.hex()))
        if len(salts) != len(set(salts)):
            ctx.violation("C14", "written-record:salt-reused:%s" % ("argon2id" if default == 2 else "scrypt"),
                          "the same salt was written twice while the random source failed: %s" % [x.hex() for x in salts])
    ctx.coverage["rng_failure_runs"] = n
    if n == 0:
        ctx.inconclusive.append("rng failure leg: no run with a failing random source could be produced")


def multiprocess_salt_leg(ctx):
    """Several processes (CLI invocations next to each other, as an administrator's script would start them) write records into
    one store at the same moment: salts are fresh across processes too, never a function of the start time."""
    import base64, fsfam, time
    exe = ctx.build_agent()
    n = 0
    for default in (1, 2):
        root = os.path.join(ctx.scratch, "mpsalt-%d" % default)
        base = os.path.join(root, "base")
        os.makedirs(base, exist_ok=True)
        open(os.path.join(base, "root.admin"), "w").write(fsfam.scrypt_record(b"pw"))
        cfg = os.path.join(root, "store.yaml")
        open(cfg, "w").write((fsfam.CFG % (base, base64.b64encode(fsfam.HMAC1).decode())).replace("default: 1", "default: %d" % default))
        salts = {}
        for rnd in range(3):
            while time.time() % 1 > 0.3:          # start the whole batch early in a wall-clock second
                time.sleep(0.02)
            procs = [subprocess.Popen([exe, "--store", cfg, "add", "mp%d-%d" % (rnd, i), "the same password"], stdout=subprocess.DEVNULL, stderr=subprocess.DEVNULL)
                     for i in range(6)]
            for p in procs:
                p.wait()
            for i in range(6):
                f = os.path.join(base, "mp%d-%d.user" % (rnd, i))
                if os.path.exists(f):
                    fld = open(f).read().split("\n")[0].split(":")
                    if len(fld) == 5:
                        n += 1
                        salts.setdefault(fld[3], []).append("mp%d-%d" % (rnd, i))
        dup = {s: u for s, u in salts.items() if len(u) > 1}
        if dup:
            ctx.violation("C14", "written-record:salt-reused-across-processes:%s" % ("argon2id" if default == 2 else "scrypt"),
                          "records written by different processes carry the same salt: %s" % list(dup.values())[:3])
    ctx.coverage["multiprocess_writes"] = n
    if n < 20:
        ctx.inconclusive.append("multi-process salt leg: only %d records were written" % n)


def run(ctx):
    thorough = ctx.tier == "thorough"
    rng_failure_leg(ctx)
    multiprocess_salt_leg(ctx)
    # every write edge of the Store model: shape, default set, time, salt size, salt != previous, digest (C14-tagged findings)
    storefam.run_family(ctx, only_ops=("add", "update", "init"), seeds=[ctx.seed])
    # the same rules along model histories (SimStore, 3 parameter sets, default switches) against one real directory each
    storefam.histories(ctx, 200 if ctx.tier == "quick" else 2000)
    exe = ctx.build("./cmd/writereplay")
    outp = os.path.join(ctx.scratch, "written.ndjson")
    # (GOMAXPROCS=2: the digest must not depend on how many processors the process may use - argon2id sets with 4 and 32 threads)
    r = subprocess.run([exe, "-out", outp, "-seed", str(ctx.seed), "-sets", "60" if thorough else "24", "-scratch",
                        os.path.join(ctx.scratch, "written")], stdout=subprocess.PIPE, stderr=subprocess.STDOUT, text=True, timeout=1500,
                       env=dict(os.environ, GOMAXPROCS="2"))
    if r.returncode != 0:
        ctx.fatal("writereplay failed: " + r.stdout[-2000:])
    lines = [json.loads(l) for l in open(outp)]
    # writes made by the agent's internal upgrade path
    res = ctx.run_tlc("Written.tla", "Written.cfg", workers=1, timeout=600, name="written",
                      defines={"trace.ndjson": "".join(json.dumps(l, separators=(",", ":")) + "\n" for l in lines)})
    hwm = None
    for line in open(res["outfile"]):
        m = re.match(r'<<"HWM", (\d+), (\d+)>>', line)
        if m:
            hwm = (int(m.group(1)), int(m.group(2)))
    cov = ctx.coverage
    cov["written_events"] = len(lines)
    cov["traces_validated_against_impl"] = cov.get("traces_validated_against_impl", 0) + sum(1 for l in lines if l["ev"] == "config")
    cov["evaluations"] = cov.get("evaluations", 0) + len(lines)
    cov["states"] = cov.get("states", 0) + res["distinct"]
    cov["transitions"] = cov.get("transitions", 0) + res["generated"]
    ctx.sample(lines[0]); ctx.sample(lines[1])
    if not (res["status"] == "ok" and hwm and hwm[0] == hwm[1] + 1):
        if not hwm:
            ctx.inconclusive.append("Written trace validation did not run: %s %s" % (res["status"], res["errors"][:2]))
        else:
            e = lines[hwm[0] - 1]
            cfg = next((x for x in reversed(lines[:hwm[0]]) if x["ev"] == "config"), {})
            what = "secret-in-directory" if e["ev"] == "scan" else next(
                (k for k, good in (("shape", "single-line-5-fields"), ("time", "within-operation"), ("digest", "ok"), ("b64", "url-padded"))
                 if e.get(k) != good), None) or ("wrong-set-or-algorithm" if (e.get("param") != cfg.get("default") or e.get("algo") != cfg.get("algo"))
                                                 else "salt-size" if e.get("saltlen") not in (16, 32) or (e["saltlen"] == 32) != (e["algo"] == "hmac_sha256_scrypt")
                                                 else "salt-reused")
            ctx.violation("C14", "written-record:%s:%s" % (what, cfg.get("algo", "?")), "event %d is not a behaviour of Written.tla: %s (store default %s)" % (
                hwm[0], json.dumps(e), json.dumps(cfg)))
    # after a reload the records written name the *new* default set (the reload sequences of C18, judged here for C14)
    import reloadfam
    before = len(ctx.violations)
    reloadfam.run(ctx)
    for v in ctx.violations[before:]:
        if v["prop"] == "C18":
            ctx.violation("C14", "written-record-after-reload:" + v["key"], v["detail"])
    cov["rule"] = ("every add/update edge of the Store model plus %d generated parameter sets x 9 passwords x add+update: each written line is "
                   "projected (independent digest recomputation from the YAML numbers, salt identity, time window, encoding) and the event "
                   "trace validated against Written.tla; the directory is scanned for passwords and HMAC keys in 5 encodings" % (60 if thorough else 20))
    ctx.assumptions += ["most of this property is encode fidelity: TLA+ contributes freshness / default / time / shape, the weight is in the "
                        "independent projection (x/crypto scrypt + HMAC-SHA256, argon2id)", "salt freshness is judged over the writes of one run"]
