"""C17 No password failing the configured policy is ever stored."""
import json, os, subprocess, base64
import vlib, fsfam
import agentfam as af

STRONG, WEAK, WEAK2 = "zq9!Lm#48vRw^t2Ypk", "password", "x"
NAMEPW = "Kq7.vm2-Xw9.Lr4_Tz8"           # a valid user name that is also a strong password - except for that very user
PWS = {"p1": STRONG, "p2": WEAK, "p3": WEAK2, "p4": NAMEPW, "": ""}


def scen(name, cond, steps, files, mode="", **kw):
    d = {"name": name, "mode": mode, "default": 2, "files": files, "passwords": PWS, "steps": steps, "gated": False, "seed": 1,
         "policy_type": "zxcvbn", "policy_cond": cond}
    d.update(kw)
    return d


def cli_leg(ctx):
    exe = ctx.build_agent()
    root = os.path.join(ctx.scratch, "cli17")
    base = os.path.join(root, "base")
    os.makedirs(base, exist_ok=True)
    open(os.path.join(base, "root.admin"), "wb").write(fsfam.scrypt_record(STRONG.encode()).encode())
    open(os.path.join(base, "bob.user"), "wb").write(fsfam.scrypt_record(STRONG.encode()).encode())
    cfg = os.path.join(root, "store.yaml")
    open(cfg, "w").write(fsfam.CFG % (base, base64.b64encode(fsfam.HMAC1).decode()))
    n = 0
    # the expected verdicts come from an independent call of the zxcvbn library (cmd/pwscore), not from guesses
    cands = [WEAK, STRONG + " 2", "a" * 120, "password" * 16, "ab" * 100, "a" * 101, "correct horse battery staple", "Tr0ub4dor&3",
             "qzj7w#kx9v", "x" * 64 + "y", "1234567890" * 11]
    pairs = [[u, p] for u in ("carl", "bob") for p in cands]
    sc = subprocess.run([ctx.build("./cmd/pwscore")], input=json.dumps(pairs), stdout=subprocess.PIPE, text=True)
    if sc.returncode != 0:
        ctx.fatal("pwscore failed")
    figures = {(u, p): f for (u, p), f in zip(map(tuple, pairs), json.loads(sc.stdout))}
    for cond in ("score >= 3", "entropy >= 60", "time >= 1000000"):
        kind, thr = cond.split()[0], float(cond.split()[2])
        for cmd, weak_ok in ((["add", "carl"], False), (["update", "bob"], False)):
            for pw in cands:
                passes = figures[(cmd[1], pw)][kind] >= thr
                before = {f: open(os.path.join(base, f), "rb").read() for f in os.listdir(base) if os.path.isfile(os.path.join(base, f))}
                r = subprocess.run([exe, "--store", cfg, "--policy-type", "zxcvbn", "--policy-condition", cond] + cmd + [pw],
                                   stdout=subprocess.PIPE, stderr=subprocess.STDOUT, text=True, timeout=30)
                n += 1
                after = {f: open(os.path.join(base, f), "rb").read() for f in os.listdir(base) if os.path.isfile(os.path.join(base, f))}
                if not passes and (r.returncode == 0 or after != before):
                    ctx.violation("C17", "cli-stored-failing-password:%s:%s" % (cmd[0], cond.split()[0]), "exit %d, store changed=%s: %s" % (r.returncode, after != before, r.stdout[-200:]))
                if passes and r.returncode != 0:
                    ctx.violation("C17", "cli-refused-passing-password:%s:%s" % (cmd[0], cond.split()[0]), r.stdout[-200:])
                if cmd[0] == "add" and os.path.exists(os.path.join(base, "carl.user")):
                    os.remove(os.path.join(base, "carl.user"))
        # an unparsable policy stops every command
        for badcond in ("score > 3", "score >= 9", "", "entropy >= x"):
            r = subprocess.run([exe, "--store", cfg, "--policy-type", "zxcvbn", "--policy-condition", badcond, "add", "dora", WEAK],
                               stdout=subprocess.PIPE, stderr=subprocess.STDOUT, text=True, timeout=30)
            n += 1
            if r.returncode == 0 or os.path.exists(os.path.join(base, "dora.user")):
                ctx.violation("C17", "cli-ran-with-unparsable-policy", "condition %r: exit %d" % (badcond, r.returncode))
                if os.path.exists(os.path.join(base, "dora.user")):
                    os.remove(os.path.join(base, "dora.user"))
    # the password that is stored is the password that was checked: variants of P that pass a threshold which P itself fails
    # (trailing line breaks / blanks add a little entropy); the stored digest is recomputed for both
    import hashlib, hmac as _hmac
    P = "horse-battery"
    variants = [P + "\n", P + "\r\n", P + " ", P + "\t", " " + P, P + "\n\n"]
    sc = subprocess.run([ctx.build("./cmd/pwscore")], input=json.dumps([["dora", P]] + [["dora", v] for v in variants]), stdout=subprocess.PIPE, text=True)
    fig = json.loads(sc.stdout)
    def digest_of(pw, salt):
        k = hashlib.scrypt(pw.encode(), salt=salt, n=4, r=8, p=1, dklen=32)
        return _hmac.new(fsfam.HMAC1, k, hashlib.sha256).digest()
    for v, f in zip(variants, fig[1:]):
        thr = int(f["entropy"])
        if not thr > fig[0]["entropy"]:
            continue
        for cmd in (["add", "dora"], ["update", "bob"]):
            r = subprocess.run([exe, "--store", cfg, "--policy-type", "zxcvbn", "--policy-condition", "entropy >= %d" % thr] + cmd + [v],
                               stdout=subprocess.PIPE, stderr=subprocess.STDOUT, text=True, timeout=30)
            n += 1
            path = os.path.join(base, "dora.user" if cmd[0] == "add" else "bob.user")
            if r.returncode == 0 and os.path.exists(path):
                fld = open(path, "rb").read().split(b"\n")[0].split(b":")
                salt, dig = base64.urlsafe_b64decode(fld[3]), base64.urlsafe_b64decode(fld[4])
                if dig != digest_of(v, salt):
                    stored = next((repr(c) for c in (P, v.strip(), v.rstrip("\r\n")) if dig == digest_of(c, salt)), "another password")
                    if dig == digest_of(P, salt) or stored == "another password":
                        ctx.violation("C17", "cli-stored-password-differs-from-checked:%s" % cmd[0],
                                      "`%s %r` passed `entropy >= %d`, but the record holds %s, which fails it" % (cmd[0], v, thr, stored))
            if cmd[0] == "add" and os.path.exists(path):
                os.remove(path)
    return n


def run(ctx):
    thorough = ctx.tier == "thorough"
    cov = ctx.coverage
    cov.update({"states": 0, "transitions": 0, "per_config": {}})
    res = ctx.run_tlc("MC_Agent.tla", "MC_Agent_policy.cfg", workers=16, timeout=900, heap="10g")
    ctx.tlc_must_pass(res, "MC_Agent_policy.cfg")
    cov["states"] += res["distinct"]; cov["transitions"] += res["generated"]
    cov["per_config"]["MC_Agent_policy.cfg"] = {"distinct": res["distinct"], "status": res["status"]}
    pol = ctx.run_tlc("Policy.tla", "MC_Policy.cfg", workers=1, timeout=300)
    ctx.tlc_must_pass(pol, "MC_Policy.cfg")
    cov["states"] += pol["distinct"]; cov["transitions"] += pol["generated"]
    inp = os.path.join(ctx.scratch, "policy.ndjson"); vlib.write_ndjson(inp, pol["edges"])
    outp = os.path.join(ctx.scratch, "policy.json")
    # binary-level legs first: they do not depend on the package's internal signatures
    cov["cli_runs"] = cli_leg(ctx)
    import clifam
    clifam.replay(ctx, "C17", only=lambda c: c["cmd"] in ("init", "add", "update"))
    rc, out = ctx.inpkg_test([], "TestVerifPolicy", timeout=900, env={"VERIF_IN": inp, "VERIF_OUT": outp,
                                                                     "VERIF_SCRATCH": os.path.join(ctx.scratch, "policydir")})
    if rc != 0 or not os.path.exists(outp):
        ctx.inconclusive.append("policy replay failed: " + out[-1500:])
        if "[build failed]" in out or "# github.com/whawty" in out:      # the in-package drivers do not compile against this tree
            ctx.finish()
        pr = {"violations": [], "cases": 0, "verdict_evaluations": 0}
    else:
        pr = json.load(open(outp))
    for v in pr["violations"] or []:
        ctx.violation("C17", v["key"], v["detail"])
    # every write path of the running agent, every condition kind: traces validated with PolicyOK computed independently
    files = {"u1": {"present": True, "pw": "p2", "set": 1, "adm": False},     # weak password, upgradeable hash
             "u2": {"present": True, "pw": "p1", "set": 2, "adm": True},
             "u3": {"present": False, "pw": "", "set": 0, "adm": False}}
    scs = []
    for cond in ("score >= 3", "entropy >= 60", "time >= 1000000"):
        k = cond.split()[0]
        steps = [{"t": "token"}]
        i = 0
        for via in ("api", "http"):
            for op, u, p, a in (("add", "u3", "p2", False), ("add", "u3", "p3", True), ("update", "u1", "p3", False), ("update", "u2", "p2", False),
                                ("add", "u3", "p1", False), ("update", "u3", "p2", False), ("update", "u3", "p1", False), ("remove", "u3", "", False)):
                i += 1
                steps.append({"t": "send", "c": "w%d" % i, "k": op, "u": u, "p": p, "a": a, "via": via})
                steps.append({"t": "sleep", "n": 3})
        # self-service change over HTTP authorised by the current password: weak new password refused, strong one accepted
        for j, (u, oldnew) in enumerate((("u1", "p2>p3"), ("u2", "p1>p2"), ("u1", "p2>p1"), ("u1", "p1>p2"))):
            steps.append({"t": "send", "c": "s%d" % j, "k": "update", "u": u, "p": oldnew, "a": False, "via": "httpold"})
            steps.append({"t": "sleep", "n": 5})
        # a password that is fine for one user and fails for the user it names (zxcvbn takes the user name into account)
        steps.append({"t": "send", "c": "n1", "k": "add", "u": "u3", "p": "p4", "a": False, "via": "api"})
        steps.append({"t": "sleep", "n": 5})
        steps.append({"t": "send", "c": "n2", "k": "add", "u": NAMEPW, "p": "p4", "a": False, "via": "api"})
        steps.append({"t": "sleep", "n": 5})
        steps.append({"t": "free"})
        f2 = dict(files)
        f2[NAMEPW] = {"present": False, "pw": "", "set": 0, "adm": False}
        scs.append(scen("writes-%s" % k, cond, steps, f2, frontends=True, http_admin=["u2", "p1"]))
        # local upgrade of a weak password: the login succeeds, the record must not be rewritten
        scs.append(scen("upgrade-weak-%s" % k, cond, [{"t": "send", "c": "l1", "k": "auth", "u": "u1", "p": "p2", "a": False}, {"t": "free"}],
                        files, mode="local", expect_unchanged=True, expect_prop="C17", expect_key="upgrade-stored-failing-password"))
        scs.append(scen("load-%s" % k, cond, [{"t": "load", "clients": 6, "calls": 10 if not thorough else 40,
                                               "kinds": ["add", "update", "update", "auth", "remove", "list"], "users": ["u1", "u2", "u3"],
                                               "pws": ["p1", "p2", "p3"]}, {"t": "free"}], files, mode="local"))
    # a password whose evaluation takes seconds (zxcvbn's l33t matcher on ~100 characters), followed by weak and strong ones: every
    # request is judged on its own password, however long an earlier evaluation took
    slow = ("4@8({[<369&#!1/|0$5+7%2/" * 6)[:108]
    steps = []
    for i, (op, u, p) in enumerate((("update", "u2", "p5"), ("add", "u3", "p2"), ("add", "u3", "p3"), ("add", "u3", "p1"), ("update", "u3", "p2"),
                                    ("update", "u3", "p3"), ("update", "u3", "p1"), ("update", "u1", "p2"))):
        steps.append({"t": "send", "c": "v%d" % i, "k": op, "u": u, "p": p, "a": False, "via": "api"})
        # (the slow evaluation gets its time before the next request is made: the run must not depend on the machine's load)
        steps.append({"t": "sleep", "n": 9000 if p == "p5" else 5})
    steps.append({"t": "free"})
    sl = scen("writes-after-slow-evaluation", "score >= 3", steps, files)
    sl["passwords"] = dict(PWS, p5=slow)
    scs.append(sl)
    results, events = af.run_scenarios(ctx, scs, "c17")
    nval = af.judge(ctx, scs, results, events, "c17", "C17")
    cov["traces_validated_against_impl"] = nval + pr["cases"]
    cov["evaluations"] = len(events) + pr["verdict_evaluations"]
    cov["distinct_nontrivial"] = pr["cases"]
    cov["rule"] = ("policy condition strings: every Policy case through NewPasswordPolicy/NewStore, verdicts against an independent zxcvbn "
                   "call; write paths: add/update via the in-process interface and the HTTP API, init, local upgrade and seeded loads "
                   "for each condition kind, traces validated against TraceAgent with PolicyOK computed independently; CLI on the built binary")
    ctx.sample({"scenario": scs[0]["name"], "policy": scs[0]["policy_cond"], "steps": scs[0]["steps"][:6]})
    ctx.assumptions += ["zxcvbn-go itself is trusted (the harness calls it independently of policy.go and compares verdicts)"]
