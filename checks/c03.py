"""C03 Only schema-valid user names are usable; all effects stay inside the base dir."""
import storefam

def run(ctx):
    seeds = [ctx.seed] if ctx.tier == "quick" else [ctx.seed, ctx.seed + 1, ctx.seed + 2]
    storefam.run_family(ctx, want_names=True, want_quick=False, seeds=seeds)
