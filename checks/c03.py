"""C03 Only schema-valid user names are usable; all effects stay inside the base dir."""
import json, os
import storefam, casefam, fsfam
import agentfam as af

BAD_NAMES = ["../sib/victim", "./u1", "u1/", "x/../u1", "", "-u1", ".u1", "_u1", "@u1", "u1\n", "u 1", "u:1", "u1\x00", "ü1",
             "/etc/passwd", "..", "a/b", "U1/../u1", "u1/.", "mar\u212a", "ro\u017fe"]


def frontend_scenarios():
    """Invalid names through every frontend of the real agent: never authenticated, nothing changes."""
    files = {"u1": {"present": True, "pw": "p1", "set": 2, "adm": False}, "u2": {"present": True, "pw": "p2", "set": 2, "adm": True}}
    steps = [{"t": "token"}]
    i = 0
    for name in BAD_NAMES:
        for via in ("sasl", "http", "basic", "ldap", "api"):
            if via != "api" and (name == "" or "\x00" in name and via == "basic"):
                continue
            i += 1
            steps.append({"t": "send", "c": "n%d" % i, "k": "auth", "u": name, "p": "p1", "a": False, "via": via})
        for k, p, a in (("update", "p3", False), ("remove", "", False), ("setadmin", "", True), ("add", "p3", True)):
            for via in ("http", "api"):
                if via == "http" and name == "":
                    continue
                i += 1
                steps.append({"t": "send", "c": "n%d" % i, "k": k, "u": name, "p": p, "a": a, "via": via})
    steps.append({"t": "free"})
    return [{"name": "badnames-frontends", "mode": "", "default": 2, "files": files, "passwords": af.PASSWORDS, "steps": steps,
             "gated": False, "seed": 1, "frontends": True, "http_admin": ["u2", "p2"], "expect_unchanged": True,
             "expect_prop": "C03", "expect_key": "invalid-name-changed-store-via-frontend"}]


def run(ctx):
    thorough = ctx.tier == "thorough"
    seeds = [ctx.seed] if not thorough else [ctx.seed, ctx.seed + 1, ctx.seed + 2]
    # library: (operation x invalid-name class) edges in a sandbox tree with sibling store and decoys
    storefam.run_family(ctx, want_names=True, want_quick=False, seeds=seeds)
    # files with invalid names in the directory never count as users or as the required administrator
    casefam.run_cases(ctx, "DirCheck.tla", "MC_DirCheck.cfg", "dir", "dir-invalid-names",
                      flt=lambda c: c["dir"]["inv"] != "none" and (thorough or c["dir"]["tmp"] in ("absent", "file")))
    # system-call level: every path touched by every operation, also when mkdir/open of the work area fails
    drv = fsfam.Driver(ctx)
    cases = fsfam.standard_cases(False) + [fsfam.Case("ro-" + op, op, had="user", pw="old") for op in ("auth", "exists", "list", "listfull", "check")]
    tmpfile = [fsfam.Case("update-tmp-is-file", "update", had="user"), fsfam.Case("add-tmp-is-file", "add")]
    for c in tmpfile:
        c.tmp_is_file = True
    bl = fsfam.baselines(ctx, drv, cases + tmpfile)
    fsfam.judge_traces(ctx, [(b["case"], b["lines"]) for b in bl], "syscalls")
    n, jobs, per_case = fsfam.fault_runs(ctx, drv, [b for b in bl if b["case"].op in ("add", "update", "init", "setadmin", "remove")],
                                         errnos=("EACCES", "ENOSPC"), only_calls=("mkdirat", "openat", "renameat", "newfstatat"))
    fsfam.judge_traces(ctx, per_case, "faulted")
    ctx.coverage["fault_traces_validated"] = n
    # frontends: the same names through sasl, HTTP API, basic-auth, LDAP and the in-process interface of the real agent
    scs = frontend_scenarios()
    results, events = af.run_scenarios(ctx, scs, "c03")
    for e in events:
        if e["ev"] == "ret" and e.get("ok") and e["k"] == "auth" and e["c"].startswith("n"):
            ctx.violation("C03", "invalid-name-authenticated-via:" + e.get("via", "?"), "client %s got a positive answer" % e["c"])
    idle = [e for e in events if e["ev"] == "idle"]
    reset = [e for e in events if e["ev"] == "reset"]
    if idle and reset and idle[-1].get("dirsha") != reset[0].get("dirsha"):
        ctx.violation("C03", "invalid-name-changed-store-via-frontend", "the store directory changed during the invalid-name requests")
    for r in results:
        if r["hung"]:
            ctx.inconclusive.append("frontend scenario hung: " + r["where"])
    ctx.coverage["frontend_requests"] = sum(1 for e in events if e["ev"] == "call")
    # "inside the base directory" means the directory the agent serves NOW: after reloads that move the store to another
    # directory, logins and writes must be answered from / land in the new one (Reload.tla: login and wrote events carry the base)
    import reloadfam
    reloadfam.run(ctx, prop="C03")
    ctx.coverage["rule"] = ("invalid-name classes x operations in a sandbox tree; directory cases with invalid-named files; strace'd "
                            "operations (and single faults on mkdir/open/rename) judged by OnlyOwnPaths; invalid names through all frontends")
