\* a slave doing LOCAL upgrades and rsync undo each other for ever: no convergence
SPECIFICATION LiveSpec
CONSTANTS
    Users <- MCUsers1
    Pws <- MCPws
    NSets = 2
    SlaveMode = "local"
    Rollout = "slaves-first"
    Retire = "never"
    QuickCheck = FALSE
    Coarse = FALSE
    InitDef = 2
    MaxOps = 3
    Depth = 0
PROPERTIES Converges
CHECK_DEADLOCK FALSE
