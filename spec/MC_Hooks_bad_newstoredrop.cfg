SPECIFICATION Spec
CONSTANTS
    T = 3
    MaxTime = 9
    MaxChanges = 4
    MaxReloads = 3
    Stores = {"A", "B", "C"}
    Threshold = 1
    DrainNewStore = TRUE
    NewStoreSend = "drop"
    NCap = 3
INVARIANTS NoChangeForgotten AtMostTwoRoundsPerInterval NoRoundWithoutNotification
PROPERTIES RoundCarriesCurrentStore EveryChangeCovered
CHECK_DEADLOCK FALSE
