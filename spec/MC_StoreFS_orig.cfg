SPECIFICATION Spec
CONSTANTS
    Contexts <- MCContexts
    FsyncTmp = TRUE
    FsyncDirWrite = TRUE
    FsyncDirSetAdmin = FALSE
    FsyncDirRemove = FALSE
    WriteInPlace = FALSE
    CleanupReservation = FALSE
    MayFault = TRUE
    FaultAfterCommit = FALSE
INVARIANTS CrashAtomic NoVisibleBeforeDurable AckDurableS FailureChangesNothing TmpEmptyAfterOp RecordSurvives OnlyOwnPaths ReaderSeesWhole
CHECK_DEADLOCK FALSE
