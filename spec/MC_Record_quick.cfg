SPECIFICATION Spec
CONSTANTS
    EmitEdges = TRUE
    MaxDeviations = 2
INVARIANTS NeverAuthWithoutMatchingDigest AuthImpliesSupported MalformedNeverAuth GoodIsMust
CHECK_DEADLOCK FALSE
