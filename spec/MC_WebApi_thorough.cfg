SPECIFICATION Spec
CONSTANTS
    MaxDepth = 2
    EmitEdges = TRUE
VIEW View
PROPERTIES EffectOnlyIfAuthorised RefusedChangesNothing NoListDisclosure NeverBothCredentials InvalidTokenNeverWorks
CHECK_DEADLOCK FALSE
