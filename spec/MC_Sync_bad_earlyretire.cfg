\* the slave retires a set the master still knows: records written under it lock users out on the slave
SPECIFICATION Spec
CONSTANTS
    Users <- MCUsers
    Pws <- MCPws
    NSets = 2
    SlaveMode = "remote"
    Rollout = "slaves-first"
    Retire = "early"
    QuickCheck = FALSE
    Coarse = FALSE
    InitDef = 1
    MaxOps = 4
    Depth = 0
INVARIANTS SlaveAvailable
CHECK_DEADLOCK FALSE
