------------------------------ MODULE TwoWriters ------------------------------
(***************************************************************************)
(* Several processes using ONE store directory through the library at the  *)
(* same time (two CLI calls, a CLI call next to a running agent, an        *)
(* operation that escaped the agent's dispatcher): each process performs   *)
(* one operation on the same user, one system call per step, exactly in    *)
(* the order of store/userhash.go (Exists = stat .admin, stat .user; then  *)
(* writeHashStr / rename / unlink).  This is the composition announced in  *)
(* the growth plan; it makes precise what the library guarantees WITHOUT   *)
(* the dispatcher's serialisation and what it does not:                    *)
(*                                                                         *)
(*  holds under every interleaving            (MC_TwoWriters_free.cfg)     *)
(*    WholeFiles      a final name never shows a torn record  (C08 reader) *)
(*    TmpPrivate      nobody touches another process's temporary file      *)
(*    LoserHarmless   a process that reports failure has not removed or    *)
(*                    replaced a file it did not create itself (C15) - for *)
(*                    two processes; with three it is refuted (a third     *)
(*                    process can re-create the name the loser reserved),  *)
(*                    a documented non-guarantee                           *)
(*  holds only when operations are serialised (MC_TwoWriters_serial.cfg),  *)
(*  refuted under free interleaving (MC_TwoWriters_bad_unserialised.cfg):  *)
(*    OneFilePerUser, NoStrayEmpty, SomeOrderExplains                      *)
(*  - the reason why the agent funnels everything through one goroutine    *)
(*  (C11 anchor "library-level check-then-act is only safe because of that *)
(*  serialisation", C16 "never yields two files for one user").            *)
(*                                                                         *)
(* Generator mode (Coarse = TRUE): process 1 runs call by call, every      *)
(* other process runs its whole operation in one piece at some call        *)
(* boundary of process 1.  Every terminal state is printed as JSON; the    *)
(* harness stops a real process 1 with strace on entry to that call, runs  *)
(* the real second process, lets the first one go on, and compares both    *)
(* results and the directory with the model (fsfam.two_writer_runs).       *)
(***************************************************************************)
EXTENDS Naturals, Sequences, FiniteSets, TLC, Json

CONSTANTS Procs,      \* e.g. {1, 2}
          OpSets,     \* set of functions [Procs -> operation name] to explore
          Initials,   \* subset of {"absent", "user", "admin"}: the user's record before
          MayFault,   \* one failing system call per process (before its commit point)
          Coarse,     \* generator mode, see above
          Serial      \* every process runs its whole operation in one piece (what the dispatcher enforces)

Ops == {"add", "addadmin", "update", "setadmin", "unsetadmin", "remove"}
Names == {"U", "A"}          \* <user>.user, <user>.admin
Inodes == 1..(2 + 2 * Cardinality(Procs))
OldIno == 1
New(p) == "new" \o ToString(p)

VARIABLES
    op, init0,
    dir,      \* [Names -> inode | 0]
    data,     \* [Inodes -> "old" | "empty" | "torn" | New(p)]
    tmp,      \* [Procs -> inode | 0]   each process's own file in .tmp (random name)
    nextIno,
    pc,       \* [Procs -> label]
    ret,      \* [Procs -> "none" | "ok" | "fail"]
    tgt,      \* [Procs -> "U" | "A"]   the final name the process works on
    own,      \* [Procs -> inode | 0]   the reservation the process created itself (add)
    faulted,  \* [Procs -> BOOLEAN]
    harm,     \* [Procs -> BOOLEAN]     removed / replaced a file that it had not created itself
    cut,      \* generator mode: pc of process 1 at which the others ran ("-" before)
    running,  \* the process that must not be interrupted (Coarse / Serial), 0 = none
    printed

vars == <<op, init0, dir, data, tmp, nextIno, pc, ret, tgt, own, faulted, harm, cut, running, printed>>

Init ==
    /\ op \in OpSets /\ init0 \in Initials
    /\ dir = [n \in Names |-> IF (n = "U" /\ init0 = "user") \/ (n = "A" /\ init0 = "admin") THEN OldIno ELSE 0]
    /\ data = [i \in Inodes |-> IF i = OldIno THEN "old" ELSE "empty"]
    /\ tmp = [p \in Procs |-> 0] /\ nextIno = 2
    /\ pc = [p \in Procs |-> "statA"] /\ ret = [p \in Procs |-> "none"]
    /\ tgt = [p \in Procs |-> IF op[p] \in {"addadmin"} THEN "A" ELSE "U"]
    /\ own = [p \in Procs |-> 0] /\ faulted = [p \in Procs |-> FALSE] /\ harm = [p \in Procs |-> FALSE]
    /\ cut = "-" /\ running = 0 /\ printed = FALSE

-----------------------------------------------------------------------------
Goto(p, l) == pc' = [pc EXCEPT ![p] = l]
Finish(p, r) == pc' = [pc EXCEPT ![p] = "done"] /\ ret' = [ret EXCEPT ![p] = r]
FS == <<dir, data, tmp, nextIno>>
Keep(p) == UNCHANGED <<op, init0, printed>>
Fault(p, l) == MayFault /\ ~faulted[p] /\ faulted' = [faulted EXCEPT ![p] = TRUE] /\ Goto(p, l)
                /\ UNCHANGED <<FS, ret, tgt, own, harm>>
NoFault(p) == UNCHANGED faulted

\* Exists(): stat <user>.admin, then stat <user>.user - two calls, not atomic
StatA(p) ==
    /\ pc[p] = "statA" /\ NoFault(p) /\ UNCHANGED <<FS, own, harm>>
    /\ CASE op[p] \in {"add", "addadmin"} ->
              IF dir["A"] # 0 THEN Finish(p, "fail") /\ UNCHANGED tgt ELSE Goto(p, "statU") /\ UNCHANGED <<ret, tgt>>
         [] op[p] = "update" ->
              IF dir["A"] # 0 THEN Goto(p, "fmt") /\ tgt' = [tgt EXCEPT ![p] = "A"] /\ UNCHANGED ret
              ELSE Goto(p, "statU") /\ UNCHANGED <<ret, tgt>>
         [] op[p] = "setadmin" ->
              IF dir["A"] # 0 THEN Finish(p, "ok") /\ UNCHANGED tgt ELSE Goto(p, "statU") /\ UNCHANGED <<ret, tgt>>
         [] op[p] = "unsetadmin" ->
              IF dir["A"] # 0 THEN Goto(p, "rename") /\ UNCHANGED <<ret, tgt>> ELSE Goto(p, "statU") /\ UNCHANGED <<ret, tgt>>
         [] op[p] = "remove" -> Goto(p, "unlinkA") /\ UNCHANGED <<ret, tgt>>

StatU(p) ==
    /\ pc[p] = "statU" /\ NoFault(p) /\ UNCHANGED <<FS, own, harm>>
    /\ CASE op[p] \in {"add", "addadmin"} ->
              IF dir["U"] # 0 THEN Finish(p, "fail") /\ UNCHANGED tgt ELSE Goto(p, "creat") /\ UNCHANGED <<ret, tgt>>
         [] op[p] = "update" ->
              IF dir["U"] # 0 THEN Goto(p, "fmt") /\ tgt' = [tgt EXCEPT ![p] = "U"] /\ UNCHANGED ret
              ELSE Finish(p, "fail") /\ UNCHANGED tgt
         [] op[p] = "setadmin" ->
              IF dir["U"] # 0 THEN Goto(p, "rename") /\ UNCHANGED <<ret, tgt>> ELSE Finish(p, "fail") /\ UNCHANGED tgt
         [] op[p] = "unsetadmin" ->
              IF dir["U"] # 0 THEN Finish(p, "ok") /\ UNCHANGED tgt ELSE Finish(p, "fail") /\ UNCHANGED tgt

\* update: isFormatSupported opens and reads the file it found
Fmt(p) ==
    /\ pc[p] = "fmt" /\ NoFault(p) /\ UNCHANGED <<FS, tgt, own, harm>>
    /\ IF dir[tgt[p]] = 0 \/ data[dir[tgt[p]]] \in {"empty", "torn"} THEN Finish(p, "fail")
       ELSE Goto(p, "open") /\ UNCHANGED ret

\* add: open(final, O_RDONLY|O_EXCL|O_CREAT)  - the reservation; the clean-up is registered only after it succeeded
Creat(p) ==
    /\ pc[p] = "creat"
    /\ \/ /\ dir[tgt[p]] # 0 /\ Finish(p, "fail") /\ NoFault(p) /\ UNCHANGED <<FS, tgt, own, harm>>      \* EEXIST
       \/ /\ dir[tgt[p]] = 0 /\ NoFault(p)
          /\ dir' = [dir EXCEPT ![tgt[p]] = nextIno] /\ own' = [own EXCEPT ![p] = nextIno]
          /\ nextIno' = nextIno + 1 /\ Goto(p, "mktmp") /\ UNCHANGED <<data, tmp, ret, tgt, harm>>
       \/ Fault(p, "failed")

\* update: open(final, O_RDONLY|O_EXCL)
Open(p) ==
    /\ pc[p] = "open"
    /\ \/ /\ dir[tgt[p]] = 0 /\ Finish(p, "fail") /\ NoFault(p) /\ UNCHANGED <<FS, tgt, own, harm>>      \* ENOENT
       \/ /\ dir[tgt[p]] # 0 /\ NoFault(p) /\ Goto(p, "mktmp") /\ UNCHANGED <<FS, ret, tgt, own, harm>>
       \/ Fault(p, "failed")

MkTmp(p) ==
    /\ pc[p] = "mktmp"
    /\ \/ /\ NoFault(p) /\ tmp' = [tmp EXCEPT ![p] = nextIno] /\ nextIno' = nextIno + 1
          /\ Goto(p, "write") /\ UNCHANGED <<dir, data, ret, tgt, own, harm>>
       \/ Fault(p, "cleanup")

Write(p) ==      \* the new line; an update then copies the auxiliary lines of the file it opened
    /\ pc[p] = "write"
    /\ \/ /\ NoFault(p) /\ data' = [data EXCEPT ![tmp[p]] = IF op[p] = "update" THEN "torn" ELSE New(p)]
          /\ Goto(p, IF op[p] = "update" THEN "copyaux" ELSE "sync") /\ UNCHANGED <<dir, tmp, nextIno, ret, tgt, own, harm>>
       \/ /\ MayFault /\ ~faulted[p] /\ faulted' = [faulted EXCEPT ![p] = TRUE]                                  \* short write
          /\ data' = [data EXCEPT ![tmp[p]] = "torn"] /\ Goto(p, "cleanup") /\ UNCHANGED <<dir, tmp, nextIno, ret, tgt, own, harm>>

CopyAux(p) ==
    /\ pc[p] = "copyaux"
    /\ \/ /\ NoFault(p) /\ data' = [data EXCEPT ![tmp[p]] = New(p)]
          /\ Goto(p, "sync") /\ UNCHANGED <<dir, tmp, nextIno, ret, tgt, own, harm>>
       \/ Fault(p, "cleanup")

Sync(p) ==
    /\ pc[p] = "sync"
    /\ \/ NoFault(p) /\ Goto(p, "rename") /\ UNCHANGED <<FS, ret, tgt, own, harm>>
       \/ Fault(p, "cleanup")

\* rename(tmp, final) by NAME: it replaces whatever is there now
RenameW(p) ==
    /\ pc[p] = "rename" /\ op[p] \in {"add", "addadmin", "update"}
    /\ \/ /\ NoFault(p)
          /\ dir' = [dir EXCEPT ![tgt[p]] = tmp[p]] /\ tmp' = [tmp EXCEPT ![p] = 0]
          /\ Goto(p, "syncdir") /\ UNCHANGED <<data, nextIno, ret, tgt, own, harm>>
       \/ Fault(p, "cleanup")

\* set-admin: rename(<user>.user, <user>.admin) (or the other way round)
RenameS(p) ==
    /\ pc[p] = "rename" /\ op[p] \in {"setadmin", "unsetadmin"}
    /\ LET a == IF op[p] = "setadmin" THEN "U" ELSE "A"
           b == IF op[p] = "setadmin" THEN "A" ELSE "U"
       IN \/ /\ dir[a] = 0 /\ NoFault(p) /\ Finish(p, "fail") /\ UNCHANGED <<FS, tgt, own, harm>>        \* ENOENT
          \/ /\ dir[a] # 0 /\ NoFault(p)
             /\ dir' = [dir EXCEPT ![b] = dir[a], ![a] = 0]
                /\ Goto(p, "syncdir") /\ UNCHANGED <<data, tmp, nextIno, ret, tgt, own, harm>>
          \/ Fault(p, "failed")

Unlink(p, l, n, nxt) ==
    /\ pc[p] = l /\ NoFault(p)
    /\ dir' = [dir EXCEPT ![n] = 0]
    /\ Goto(p, nxt) /\ UNCHANGED <<data, tmp, nextIno, ret, tgt, own, harm>>

SyncDir(p) == pc[p] = "syncdir" /\ NoFault(p) /\ Finish(p, "ok") /\ UNCHANGED <<FS, tgt, own, harm>>

\* error path of writeHashStr: deferred remove of the temporary file, then (add only, not committed) remove of the
\* reservation BY NAME
Cleanup(p) ==
    /\ pc[p] = "cleanup" /\ NoFault(p)
    /\ tmp' = [tmp EXCEPT ![p] = 0]
    /\ IF op[p] \in {"add", "addadmin"} /\ dir[tgt[p]] # 0
       THEN dir' = [dir EXCEPT ![tgt[p]] = 0] /\ harm' = [harm EXCEPT ![p] = dir[tgt[p]] # own[p]]
       ELSE UNCHANGED <<dir, harm>>
    /\ Goto(p, "failed") /\ UNCHANGED <<data, nextIno, ret, tgt, own>>

Failed(p) == pc[p] = "failed" /\ NoFault(p) /\ Finish(p, "fail") /\ UNCHANGED <<FS, tgt, own, harm>>

Step(p) ==
    \/ StatA(p) \/ StatU(p) \/ Fmt(p) \/ Creat(p) \/ Open(p) \/ MkTmp(p) \/ Write(p) \/ CopyAux(p) \/ Sync(p)
    \/ RenameW(p) \/ RenameS(p) \/ SyncDir(p) \/ Cleanup(p) \/ Failed(p)
    \/ Unlink(p, "unlinkA", "A", "unlinkU") \/ Unlink(p, "unlinkU", "U", "syncdir")

AllDone == \A p \in Procs : pc[p] = "done"

\* scheduling: free interleaving, or "in one piece" for the processes that must not be interrupted
\* the call boundaries of process 1 at which the harness can hold the real process (entry of a system call it can name)
CutPoints == {"statA", "creat", "open", "mktmp", "write", "copyaux", "sync", "rename", "syncdir", "unlinkA", "unlinkU", "done"}
MayRun(p) ==
    /\ pc[p] # "done"
    /\ running \in {0, p}
    /\ (Coarse /\ p # 1 /\ running = 0) => pc[1] \in CutPoints
Atomic(p) == Serial \/ (Coarse /\ p # 1)

View == [U |-> IF dir["U"] = 0 THEN "absent" ELSE data[dir["U"]], A |-> IF dir["A"] = 0 THEN "absent" ELSE data[dir["A"]]]

Report ==
    /\ AllDone /\ ~printed /\ printed' = TRUE
    /\ UNCHANGED <<op, init0, dir, data, tmp, nextIno, pc, ret, tgt, own, faulted, harm, cut, running>>
    /\ PrintT(ToJson([tw |-> "outcome", ops |-> [p \in Procs |-> op[p]], init |-> init0, cut |-> cut,
                      ret |-> ret, view |-> View, faulted |-> faulted]))

Next ==
    \/ \E p \in Procs :
         /\ MayRun(p) /\ Step(p) /\ Keep(p)
         /\ cut' = IF Coarse /\ p # 1 /\ cut = "-" THEN pc[1] ELSE cut
         /\ running' = IF Atomic(p) /\ pc'[p] # "done" THEN p ELSE 0
    \/ Report

Spec == Init /\ [][Next]_vars

-----------------------------------------------------------------------------
(* what holds under every interleaving *)
WholeFiles == \A n \in Names : dir[n] # 0 => data[dir[n]] # "torn"
TmpPrivate == \A p, q \in Procs : (p # q /\ tmp[p] # 0) => tmp[p] # tmp[q]
LoserHarmless == \A p \in Procs : ret[p] = "fail" => ~harm[p]
\* an acknowledged update / add is never half there: once everybody is done each file is a whole record (or a reservation
\* that somebody moved away, see NoStrayEmpty)
QuiescentWhole == AllDone => \A n \in Names : dir[n] # 0 => data[dir[n]] \in ({"old", "empty"} \cup {New(p) : p \in Procs})

(* what only serialisation gives *)
OneFilePerUser == AllDone => ~(dir["U"] # 0 /\ dir["A"] # 0)
NoStrayEmpty == AllDone => \A n \in Names : dir[n] # 0 => data[dir[n]] # "empty"

\* sequential semantics of one operation on the abstract state [name |-> "none"|"U"|"A", who |-> content]
SeqApply(s, p) ==
    CASE op[p] = "add"        -> IF s.name = "none" THEN [name |-> "U", who |-> New(p), r |-> "ok"] ELSE [s EXCEPT !.r = "fail"]
      [] op[p] = "addadmin"   -> IF s.name = "none" THEN [name |-> "A", who |-> New(p), r |-> "ok"] ELSE [s EXCEPT !.r = "fail"]
      [] op[p] = "update"     -> IF s.name # "none" THEN [s EXCEPT !.who = New(p), !.r = "ok"] ELSE [s EXCEPT !.r = "fail"]
      [] op[p] = "setadmin"   -> IF s.name # "none" THEN [s EXCEPT !.name = "A", !.r = "ok"] ELSE [s EXCEPT !.r = "fail"]
      [] op[p] = "unsetadmin" -> IF s.name # "none" THEN [s EXCEPT !.name = "U", !.r = "ok"] ELSE [s EXCEPT !.r = "fail"]
      [] op[p] = "remove"     -> [name |-> "none", who |-> "-", r |-> "ok"]

RECURSIVE SeqRun(_, _, _)
SeqRun(s, ps, rets) ==      \* -> <<final abstract state, [proc -> result]>>
    IF ps = <<>> THEN <<s, rets>>
    ELSE LET t == SeqApply(s, Head(ps)) IN SeqRun(t, Tail(ps), [rets EXCEPT ![Head(ps)] = t.r])

Perms == {f \in [1..Cardinality(Procs) -> Procs] : \A i, j \in 1..Cardinality(Procs) : i # j => f[i] # f[j]}
Abs0 == [name |-> IF init0 = "user" THEN "U" ELSE IF init0 = "admin" THEN "A" ELSE "none",
         who |-> IF init0 = "absent" THEN "-" ELSE "old", r |-> "-"]
AbsOfDir == IF dir["U"] # 0 /\ dir["A"] = 0 THEN [name |-> "U", who |-> data[dir["U"]]]
            ELSE IF dir["A"] # 0 /\ dir["U"] = 0 THEN [name |-> "A", who |-> data[dir["A"]]]
            ELSE IF dir["A"] = 0 /\ dir["U"] = 0 THEN [name |-> "none", who |-> "-"]
            ELSE [name |-> "both", who |-> "?"]
\* the results and the final directory are those of SOME sequential order of the operations (no faults)
SomeOrderExplains ==
    (AllDone /\ \A p \in Procs : ~faulted[p]) =>
        \E f \in Perms : LET o == SeqRun(Abs0, f, [p \in Procs |-> "-"])
                         IN o[1].name = AbsOfDir.name /\ o[1].who = AbsOfDir.who /\ \A p \in Procs : o[2][p] = ret[p]
=============================================================================
