\* Agent with a policy that only p1 satisfies (C17): 3 clients x 1 call incl. add, local upgrades
SPECIFICATION Spec
CONSTANTS
    Clients = {"c1", "c2", "c3"}
    Users = {"u1"}
    Pws = {"p1", "p2"}
    Sets = {1, 2}
    Default = 2
    PolicyOK <- MCPolicyP1
    Cap = 2
    NCap = 2
    UCap = 2
    SemCap = 1
    Mode = "local"
    UpgradeSend = "drop"
    UpgraderSem = "drop"
    Reloads = {}
    IOFaults = FALSE
    CallerWait = "forever"
    UpgradeRecheck = "full"
    MaxCalls = 1
    Kinds = {"auth", "update", "remove", "add"}
    InitFiles <- MCInit1
INVARIANTS TypeOK AckedNotUndone NoUpgradeWhenOff NotifyMatchesMutations NotifyAllWhenIdle
PROPERTIES UpgradeKeepsPasswordAndAdmin AuthNeverMutates UpgradeOnlyAfterLogin NoWriteWithoutPolicy
           EveryCallReturns DispatcherNeverStuck
