----------------------------- MODULE TraceAgent -----------------------------
(***************************************************************************)
(* Trace validation of the real dispatcher against module Agent.           *)
(*                                                                         *)
(* Events (one JSON object per line, global order = sequence numbers taken *)
(* under one mutex):                                                       *)
(*   reset   start of a recorded run: initial directory                    *)
(*   call    a client is about to call Store.X (logged by the harness)     *)
(*   exec    verif hook "exec.*": the library call returned (linearization *)
(*           point), with its arguments and result                         *)
(*   upsent / updrop / upbegin   the upgrade path                          *)
(*   notify  verif hook "notify.sent"                                      *)
(*   ret     the client's call returned, with the result it got            *)
(*   idle    all calls returned: projection pi of the real directory       *)
(* The dispatcher-side events are bound to Agent!ExecStep and to the       *)
(* program counter of Agent's dispatcher; queues are not logged and are    *)
(* abstracted to "some pending call with these arguments".  Every          *)
(* invariant of Agent that talks about files / ack / owed is evaluated at  *)
(* every step of the real trace.                                           *)
(***************************************************************************)
EXTENDS Agent, Json

CONSTANT TraceFile
VARIABLES l,        \* next trace line
          cres,     \* result computed at the linearization point, per client
          upbag     \* upgrade requests sent and not yet begun

TraceLog == ndJsonDeserialize(TraceFile)

tvars == <<vars, l, cres, upbag>>

Ev == TraceLog[l]
IsEvent(e) == l <= Len(TraceLog) /\ Ev.ev = e /\ l' = l + 1

OpOf(e) == [k |-> e.k, u |-> e.u, p |-> e.p, a |-> e.a]
ListOf(e) == {<<x[1], x[2]>> : x \in {e.list[i] : i \in 1..Len(e.list)}}

\* the part of a result the property talks about
SameRes(k, model, e) ==
    /\ model.ok = e.ok
    /\ (k = "auth" /\ model.ok /\ e.admknown) => (model.adm = e.adm)
    /\ (k = "list" /\ model.ok) => (model.list = ListOf(e))

FilesOf(e) == [u \in Users |-> e.files[u]]

TraceReset ==
    /\ IsEvent("reset")
    /\ files' = FilesOf(Ev)
    /\ ack' = [u \in Users |-> AckOf(FilesOf(Ev), u)]
    /\ cl' = [c \in Clients |-> [pc |-> "idle", op |-> NoOp, n |-> 0]]
    /\ disp' = Idle /\ owed' = 0 /\ dflt' = Default
    /\ cres' = [c \in Clients |-> NoRes] /\ upbag' = {}
    /\ UNCHANGED <<chans, notifyQ, upq, sem>>

TraceCall ==
    /\ IsEvent("call")
    /\ cl[Ev.c].pc = "idle"
    /\ cl' = [cl EXCEPT ![Ev.c] = [pc |-> "waiting", op |-> OpOf(Ev), n |-> 0]]
    /\ UNCHANGED <<chans, disp, files, notifyQ, upq, sem, ack, owed, cres, upbag>>

DispFree == disp.pc \in {"idle", "reply", "done"}   \* no further dispatcher event owed for the last request

\* a skipped upgrade send is tolerated (the property allows "leaves the record untouched"); an upgrade whose
\* password fails the policy is refused before the library is called, so no exec event follows its upbegin
DispFreeOrSkippedUpgrade == \/ DispFree \/ disp.pc = "upsend"
                            \/ (disp.pc = "upexec" /\ ~PolicyPass(disp.req.op.u, disp.req.op.p))

TraceExecClient ==
    /\ IsEvent("exec") /\ DispFreeOrSkippedUpgrade /\ ~Ev.io
    /\ \E c \in Clients :
          /\ cl[c].pc = "waiting" /\ cl[c].op = OpOf(Ev)
          /\ ExecStep([c |-> c, op |-> OpOf(Ev)])
          /\ SameRes(Ev.k, disp'.res, Ev)
          /\ (Ev.k = "auth" /\ Ev.ok) => (disp'.res.upg = Ev.upg)
          /\ cl' = [cl EXCEPT ![c].pc = "executed"]
          /\ cres' = [cres EXCEPT ![c] = disp'.res]
    /\ UNCHANGED <<chans, notifyQ, upq, sem, upbag>>

\* the library refused the write with an I/O error (the driver had made the work area unusable): nothing changes
TraceExecClientIOFail ==
    /\ IsEvent("exec") /\ DispFreeOrSkippedUpgrade /\ Ev.io /\ ~Ev.ok
    /\ \E c \in Clients :
          /\ cl[c].pc = "waiting" /\ cl[c].op = OpOf(Ev)
          /\ ExecStepIOFail([c |-> c, op |-> OpOf(Ev)])
          /\ cl' = [cl EXCEPT ![c].pc = "executed"]
          /\ cres' = [cres EXCEPT ![c] = NoRes]
    /\ UNCHANGED <<chans, notifyQ, upq, sem, upbag>>

TraceUpSent ==
    /\ IsEvent("upsent")
    /\ disp.pc = "upsend" /\ disp.req.op.u = Ev.u /\ disp.req.op.p = Ev.p
    /\ upbag' = upbag \cup {<<Ev.u, Ev.p, l>>}
    /\ disp' = [disp EXCEPT !.pc = "reply"]
    /\ UNCHANGED <<chans, files, cl, notifyQ, upq, sem, ack, owed, cres>>

TraceUpDrop ==
    /\ IsEvent("updrop")
    /\ disp.pc = "upsend" /\ disp.req.op.u = Ev.u
    /\ disp' = [disp EXCEPT !.pc = "reply"]
    /\ UNCHANGED <<chans, files, cl, notifyQ, upq, sem, ack, owed, cres, upbag>>

\* "upgrade.begin": the dispatcher took an upgrade request from its update channel
UpOp(u, p) == [k |-> "update", u |-> u, p |-> p, a |-> FALSE]
TraceUpBegin ==
    /\ IsEvent("upbegin")
    /\ DispFreeOrSkippedUpgrade
    /\ Mode = "local"
    /\ \E x \in upbag : x[1] = Ev.u /\ x[2] = Ev.p /\ upbag' = upbag \ {x}
    /\ disp' = [pc |-> "upexec", req |-> [c |-> UpgradeClient, op |-> UpOp(Ev.u, Ev.p)], res |-> NoRes]
    /\ UNCHANGED <<chans, files, cl, notifyQ, upq, sem, ack, owed, cres>>

\* its "exec.update": the re-check passed and the record was rewritten (or the policy refused)
TraceUpgradeExecIOFail ==
    /\ IsEvent("exec") /\ disp.pc = "upexec" /\ Ev.io /\ ~Ev.ok
    /\ OpOf(Ev) = disp.req.op
    /\ ExecStepIOFail(disp.req)
    /\ UNCHANGED <<chans, cl, notifyQ, upq, sem, cres, upbag>>

TraceUpgradeExec ==
    /\ IsEvent("exec") /\ disp.pc = "upexec" /\ ~Ev.io
    /\ OpOf(Ev) = disp.req.op
    /\ Recheck(files, Ev.u, Ev.p)
    /\ ExecStep(disp.req)
    /\ disp'.res.ok = Ev.ok
    /\ UNCHANGED <<chans, cl, notifyQ, upq, sem, cres, upbag>>

\* or "upgrade.skip": the re-check refused an outdated request
TraceUpgradeSkip ==
    /\ IsEvent("upskip") /\ disp.pc = "upexec"
    /\ UpgradeRecheck = "full"
    /\ Ev.u = disp.req.op.u /\ Ev.p = disp.req.op.p
    /\ ~(AuthOK(files, Ev.u, Ev.p) /\ files[Ev.u].set # dflt)
    /\ disp' = [disp EXCEPT !.pc = "done"]
    /\ UNCHANGED <<chans, files, cl, notifyQ, upq, sem, ack, owed, cres, upbag>>

TraceNotify ==
    /\ IsEvent("notify")
    /\ disp.pc = "notify" /\ owed > 0 /\ owed' = owed - 1
    /\ disp' = [disp EXCEPT !.pc = IF disp.req.c = UpgradeClient THEN "done" ELSE "reply"]
    /\ UNCHANGED <<chans, files, cl, notifyQ, upq, sem, ack, cres, upbag>>

\* a write whose password fails the policy is refused before the library is called: no exec event, a negative answer
TraceRetRefusedByPolicy ==
    /\ IsEvent("ret")
    /\ cl[Ev.c].pc = "waiting" /\ cl[Ev.c].op.k \in {"add", "update"}
    /\ ~PolicyPass(cl[Ev.c].op.u, cl[Ev.c].op.p)
    /\ ~Ev.ok
    /\ cl' = [cl EXCEPT ![Ev.c] = [pc |-> "idle", op |-> NoOp, n |-> 0]]
    /\ UNCHANGED <<chans, disp, files, notifyQ, upq, sem, ack, owed, cres, upbag>>

TraceRet ==
    /\ IsEvent("ret")
    /\ cl[Ev.c].pc = "executed"
    /\ SameRes(cl[Ev.c].op.k, cres[Ev.c], Ev)
    \* the dispatcher must have finished its part for this request (notify before reply)
    /\ disp.req.c = Ev.c => disp.pc \in {"reply", "upsend"}
    /\ cl' = [cl EXCEPT ![Ev.c] = [pc |-> "idle", op |-> NoOp, n |-> 0]]
    /\ disp' = IF disp.req.c = Ev.c THEN Idle ELSE disp
    /\ UNCHANGED <<chans, files, notifyQ, upq, sem, ack, owed, cres, upbag>>

\* all calls have returned and the agent is quiet: the directory equals the model's store
TraceIdle ==
    /\ IsEvent("idle")
    /\ \A c \in Clients : cl[c].pc = "idle"
    /\ DispFreeOrSkippedUpgrade /\ disp.pc # "upsend" /\ owed = 0
    /\ \A u \in Users :
          /\ files[u].present = Ev.files[u].present
          /\ files[u].present => /\ files[u].pw = Ev.files[u].pw
                                 /\ files[u].adm = Ev.files[u].adm
                                 /\ files[u].set = Ev.files[u].set
    /\ Ev.checkok = (\E u \in Users : files[u].present /\ files[u].adm)
    /\ Ev.tmpempty
    /\ UNCHANGED <<vars, cres, upbag>>

\* "reload.ok": the dispatcher, between two requests, switched to a configuration whose default set is Ev.n
TraceReloaded ==
    /\ IsEvent("reloadok") /\ DispFreeOrSkippedUpgrade
    /\ dflt' = Ev.n
    /\ UNCHANGED <<chans, disp, files, cl, notifyQ, upq, sem, ack, owed, cres, upbag>>

TraceCore ==
    \/ TraceCall \/ TraceExecClient \/ TraceUpSent \/ TraceUpDrop
    \/ TraceExecClientIOFail \/ TraceUpgradeExecIOFail
    \/ TraceUpBegin \/ TraceUpgradeExec \/ TraceUpgradeSkip \/ TraceNotify \/ TraceRet \/ TraceRetRefusedByPolicy \/ TraceIdle

\* "reload.fail": the configuration on disk was refused, everything stays as it is
TraceReloadRefused == IsEvent("reloadfail") /\ UNCHANGED <<vars, cres, upbag>>

TraceNext == (TraceCore /\ UNCHANGED dflt) \/ TraceReset \/ TraceReloaded \/ TraceReloadRefused

TraceInit ==
    /\ Init /\ l = 1
    /\ cres = [c \in Clients |-> NoRes] /\ upbag = {}

TraceSpec == TraceInit /\ [][TraceNext]_tvars

\* acceptance: some behaviour consumed the whole trace
HWM == IF TLCGet(0) < l THEN TLCSet(0, l) ELSE TRUE
TraceConstraint == HWM
TraceAccepted == LET n == TLCGet(0) IN PrintT(<<"HWM", n, Len(TraceLog)>>) /\ n = Len(TraceLog) + 1
ASSUME TLCSet(0, 0)

\* invariants of Agent evaluated on the real trace
TraceAckedNotUndone == AckedNotUndone
TraceOwed == owed \in {0, 1}
TraceNoUpgradeWhenOff == Mode = "off" => upbag = {}
=============================================================================
