SPECIFICATION Spec
CONSTANTS
    Instances = {"i1", "i2"}
    Users = {"alice", "bo:b"}
    Lifetime = 2
    MaxTime = 3
    MaxTokens = 2
    EmitEdges = TRUE
    ColonUsers = {"bo:b"}
VIEW View
INVARIANTS NoncesDistinct AcceptImpliesLive ExpiredRejected RestartRejects
CHECK_DEADLOCK FALSE
