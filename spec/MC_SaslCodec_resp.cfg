SPECIFICATION Spec
CONSTANTS
    B = 3
    MaxLen = 4
    NParts = 1
    Streams <- StreamsResp
    MaxZeroReads = 1
    EmitEdges = TRUE
INVARIANTS ResultIsFunctionOfStream NeverConsumesBeyondDelivered OverLimitRefused ReencodeEqualsConsumed
CHECK_DEADLOCK FALSE
