---------------------------- MODULE MC_TwoWriters ----------------------------
EXTENDS TwoWriters
AllOps2 == [{1, 2} -> Ops]
AllOps3 == [{1, 2, 3} -> {"add", "update", "setadmin", "remove"}]
\* the race of the documented non-guarantee with three processes: a failing add, a remove, another add
Race3 == {[p \in {1, 2, 3} |-> IF p = 2 THEN "remove" ELSE "add"]}
=============================================================================
