\* generator, upgrades switched off on the slave: its logins never reach the master
INIT Init
NEXT GenNext
CONSTANTS
    Users <- MCUsers
    Pws <- MCPws
    NSets = 2
    SlaveMode = "off"
    Rollout = "slaves-first"
    Retire = "safe"
    QuickCheck = FALSE
    Coarse = TRUE
    InitDef = 1
    MaxOps = 14
    Depth = 40
INVARIANTS PrintAtDepth MasterTracksAck SlaveSound SlaveAvailable
CHECK_DEADLOCK FALSE
