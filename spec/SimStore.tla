------------------------------ MODULE SimStore ------------------------------
(***************************************************************************)
(* History generator for the replay binding: Store plus a history variable *)
(* holding every step (API and environment) with pre/post state, result    *)
(* and effects.  `tlc -simulate` prints each history that reached Depth    *)
(* steps; the harness replays it against ONE real directory without        *)
(* re-materialising between the steps.                                     *)
(***************************************************************************)
EXTENDS Store
CONSTANT Depth
VARIABLE hist
svars == <<vars, hist>>

Rec(pre) == [op |-> last'.op, name |-> last'.name, pw |-> last'.pw, adm |-> last'.adm, def |-> default',
             pre |-> pre, post |-> files', res |-> last'.res, eff |-> last'.eff]
SimNext == /\ Len(hist) < Depth
           /\ \/ ApiNext
              \/ \E u \in Users, f \in FileStates : ExternalPut(u, f) /\ f.kind # "ok"     \* sprinkle unsupported files
              \/ \E d \in Defaults : Reconfigure(d)
           /\ hist' = Append(hist, Rec(files))
SimInit == Init /\ hist = <<>>
SimSpec == SimInit /\ [][SimNext]_svars
PrintAtDepth == Len(hist) = Depth => PrintT(<<"H", ToJson(hist)>>)
=============================================================================
