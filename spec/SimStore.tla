------------------------------ MODULE SimStore ------------------------------
(***************************************************************************)
(* History generator for the replay binding: Store plus a history variable *)
(* holding every step (API and environment) with pre/post state, result    *)
(* and effects.  `tlc -simulate` prints each history that reached Depth    *)
(* steps; the harness replays it against ONE real directory without        *)
(* re-materialising between the steps.                                     *)
(***************************************************************************)
EXTENDS Store
CONSTANT Depth
VARIABLE hist,
         sched      \* the class of the next step, drawn with RandomElement: TLC's simulator picks uniformly among
                    \* ALL successors, which starves the actions with few parameters (Reconfigure, right-password logins)
svars == <<vars, hist, sched>>

Rec(pre) == [op |-> last'.op, name |-> last'.name, pw |-> last'.pw, adm |-> last'.adm, def |-> default',
             pre |-> pre, post |-> files', res |-> last'.res, eff |-> last'.eff]
Classes == 1..24
OkUsers == {u \in Users : Supported(files[u])}
Class(k) ==
    CASE k \in 1..3   -> \E n \in Names, p \in Pws, a \in BOOLEAN : Add(n, p, a)
      [] k \in 4..6   -> IF OkUsers # {} THEN \E n \in OkUsers, p \in Pws : Update(n, p)
                                         ELSE \E n \in Names, p \in Pws : Update(n, p)
      [] k = 7        -> \E n \in Names, a \in BOOLEAN : SetAdmin(n, a)
      [] k = 8        -> \E n \in Names : Remove(n)
      [] k = 9        -> \E n \in Names, p \in Pws : Init_(n, p)
      [] k = 10       -> (\E n \in Names : Exists(n)) \/ List \/ ListFull \/ Check
      [] k \in 11..15 -> IF OkUsers # {} THEN \E n \in OkUsers : Auth(n, files[n].pw)      \* the right password
                                         ELSE \E n \in Names, p \in Pws : Auth(n, p)
      [] k \in 16..17 -> \E n \in Names, p \in Pws : Auth(n, p)
      [] k \in 18..20 -> IF Cardinality(Defaults) > 1 THEN \E d \in Defaults : Reconfigure(d) ELSE ApiNext
      [] k = 21       -> \E u \in Users, f \in FileStates : ExternalPut(u, f) /\ f.kind # "ok"  \* sprinkle unsupported files
      [] k = 22       -> \E u \in Users, f \in OkFiles : ExternalPut(u, f) /\ f.aux # "none"     \* records carrying auxiliary data
      [] OTHER        -> ApiNext
SimNext == /\ Len(hist) < Depth
           /\ Class(sched)
           /\ sched' = RandomElement(Classes)
           /\ hist' = Append(hist, Rec(files))
SimInit == Init /\ hist = <<>> /\ sched = RandomElement(Classes)
SimSpec == SimInit /\ [][SimNext]_svars
(* Exhaustive mode (BFS): EVERY history of Depth steps of the core operations in which each management operation
   succeeds (logins may fail) - the harness runs each on one long-lived library object, so that anything an
   implementation remembers between calls (a verdict, a buffer, a per-user object) meets every short sequence of
   add / login / update / set-admin / remove / re-add. *)
ExhOps == \E n \in Users, p \in Pws, a \in BOOLEAN :
             Add(n, p, a) \/ Update(n, p) \/ SetAdmin(n, a) \/ Remove(n) \/ Auth(n, p)
ExhNext == /\ Len(hist) < Depth
           /\ ExhOps
           /\ last'.op = "auth" \/ last'.res.ok
           /\ hist' = Append(hist, Rec(files))
           /\ UNCHANGED sched
ExhInit == Init /\ hist = <<>> /\ sched = 1
PrintAtDepth == Len(hist) = Depth => PrintT(<<"H", ToJson(hist)>>)
=============================================================================
