---- MODULE MC_Sync ----
EXTENDS Sync
MCUsers == {"u1", "u2"}
MCPws == {"p1", "p2"}
MCUsers1 == {"u1"}
====
