SPECIFICATION Spec
CONSTANTS
    Procs = {1, 2, 3}
    OpSets <- Race3
    Initials = {"absent", "user", "admin"}
    MayFault = TRUE
    Coarse = FALSE
    Serial = FALSE
INVARIANTS LoserHarmless
CHECK_DEADLOCK FALSE
