SPECIFICATION Spec
CONSTANTS
    MaxDepth = 1
    EmitEdges = TRUE
VIEW View
PROPERTIES EffectOnlyIfAuthorised RefusedChangesNothing NoListDisclosure NeverBothCredentials InvalidTokenNeverWorks
CHECK_DEADLOCK FALSE
