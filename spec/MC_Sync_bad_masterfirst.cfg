\* wrong roll-out order: the master learns (and writes with) a set before the slave knows it - a synced record is unusable on the slave
SPECIFICATION Spec
CONSTANTS
    Users <- MCUsers
    Pws <- MCPws
    NSets = 2
    SlaveMode = "remote"
    Rollout = "free"
    Retire = "safe"
    QuickCheck = FALSE
    Coarse = FALSE
    InitDef = 1
    MaxOps = 3
    Depth = 0
INVARIANTS SlaveAvailable
CHECK_DEADLOCK FALSE
