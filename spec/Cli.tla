--------------------------------- MODULE Cli ---------------------------------
(***************************************************************************)
(* The command-line interface of whawty-auth (cmd/whawty-auth/main.go) as  *)
(* a case analysis: command x directory class x --do-check x target x      *)
(* password class (with a policy configured) -> exit status class and      *)
(* effect on the store.  It ties together what C04 (authenticate verdict), *)
(* C16 (no command on a directory that fails the check unless checking is  *)
(* disabled; init only on an empty directory) and C17 (no failing password *)
(* through the command line) demand of the binary.                         *)
(***************************************************************************)
EXTENDS Naturals, TLC, Json
CONSTANT EmitEdges
VARIABLE c

Cmds    == {"init", "check", "add", "remove", "update", "set-admin-true", "set-admin-false", "list", "list-full", "authenticate"}
Dirs    == {"valid", "no-admin", "stray-file", "duplicate-user", "empty"}
Targets == {"existing-user", "existing-admin", "nonexistent", "invalid-name"}
Pws     == {"policy-ok", "policy-fails", "right", "wrong"}
Cases   == [cmd : Cmds, dir : Dirs, docheck : BOOLEAN, target : Targets, pw : Pws]

Valid(d) == d = "valid"
Writes(x) == x.cmd \in {"init", "add", "remove", "update", "set-admin-true", "set-admin-false"}
Exists(x) == x.target \in {"existing-user", "existing-admin"} /\ x.dir # "empty"

\* does the command get to run at all?
Runs(x) == CASE x.cmd = "init"  -> TRUE                 \* init does not check (it creates the store)
             [] x.cmd = "check" -> TRUE
             [] OTHER           -> (~x.docheck \/ Valid(x.dir))

\* "ok" exit status 0 and the effect happened | "fail" non-zero, store untouched | "may" not determined by the properties
Outcome(x) ==
    IF ~Runs(x) THEN "fail"
    ELSE IF x.cmd \in {"init", "add", "update"} /\ x.pw = "policy-fails" THEN "fail"
    ELSE CASE x.cmd = "check" -> IF Valid(x.dir) THEN "ok" ELSE "fail"
           [] x.cmd = "init"  -> IF x.dir = "empty" /\ x.target # "invalid-name" /\ x.pw = "policy-ok" THEN "ok" ELSE "fail"
           [] x.cmd = "add"   -> IF (x.target = "nonexistent" \/ (x.dir = "empty" /\ x.target # "invalid-name")) /\ x.pw = "policy-ok" THEN "ok"
                                 ELSE IF x.dir = "duplicate-user" /\ ~x.docheck THEN "may" ELSE "fail"
           [] x.cmd = "update" -> IF Exists(x) /\ x.pw = "policy-ok" THEN (IF x.dir = "duplicate-user" THEN "may" ELSE "ok") ELSE "fail"
           [] x.cmd \in {"set-admin-true", "set-admin-false"} -> IF Exists(x) THEN (IF x.dir = "duplicate-user" THEN "may" ELSE "ok") ELSE "fail"
           [] x.cmd = "remove" -> "ok"                  \* removing what is not there is not an error
           [] x.cmd \in {"list", "list-full"} -> IF x.dir \in {"valid", "no-admin", "duplicate-user", "empty"} THEN "ok" ELSE "may"
           [] x.cmd = "authenticate" -> IF Exists(x) /\ x.pw = "right" THEN (IF x.dir = "duplicate-user" THEN "may" ELSE "ok") ELSE "fail"

\* only meaningful combinations
Relevant(x) ==
    /\ (x.cmd \in {"check", "list", "list-full"} => (x.target = "existing-user" /\ x.pw = "right"))
    /\ (x.cmd \in {"remove", "set-admin-true", "set-admin-false"} => x.pw = "right")
    /\ (x.cmd \in {"init", "add", "update"} => x.pw \in {"policy-ok", "policy-fails"})
    /\ (x.cmd = "authenticate" => x.pw \in {"right", "wrong"})
    /\ (x.cmd \in {"init", "check"} => x.docheck)
    /\ (x.cmd = "init" => x.target \in {"nonexistent", "invalid-name"})

\* does a successful run change the directory?
Effect(x) == CASE x.cmd \in {"init", "add", "update"} -> TRUE
               [] x.cmd = "remove" -> Exists(x)
               [] x.cmd = "set-admin-true" -> Exists(x) /\ x.target = "existing-user"
               [] x.cmd = "set-admin-false" -> Exists(x) /\ x.target = "existing-admin"
               [] OTHER -> FALSE
Init == /\ c \in {x \in Cases : Relevant(x)}
        /\ IF EmitEdges THEN PrintT(ToJson([case |-> c, outcome |-> Outcome(c), writes |-> Effect(c)])) ELSE TRUE
Next == UNCHANGED c
Spec == Init /\ [][Next]_c
NothingOnInvalidStore == (~Runs(c)) => Outcome(c) = "fail"
NoFailingPasswordStored == (c.cmd \in {"init", "add", "update"} /\ c.pw = "policy-fails") => Outcome(c) = "fail"
=============================================================================
