------------------------------- MODULE Policy -------------------------------
(***************************************************************************)
(* The password-policy configuration strings (cmd/whawty-auth/policy.go):  *)
(* "<kind> >= <threshold>" with kind in score | entropy | time.  A pure     *)
(* case analysis over token classes; C17 demands that exactly the          *)
(* well-formed strings yield a policy and that anything else stops the     *)
(* agent from starting (instead of running without a policy).              *)
(***************************************************************************)
EXTENDS Naturals, TLC, Json
CONSTANT EmitEdges
VARIABLE c

Types  == {"zxcvbn", "none", "unknown-type", "ZXCVBN"}
Kinds  == {"score", "entropy", "time", "length", "Score", "empty"}
Ops    == {">=", ">", "=", "<=", "=>", "missing"}
Nums   == {"0", "3", "4", "5", "100", "max-uint64", "max-uint64+1", "-1", "3.5", "abc", "empty", "+3", "03", "1e3",
           "040", "0x3c", "0b11", "0o17", "3_0"}      \* decimal only: 040 is forty, the rest is not a number
Extras == {"none", "extra-token"}
Spaces == {"single", "multi", "tabs", "leading-trailing", "no-spaces"}

Cases == [type : Types, kind : Kinds, op : Ops, num : Nums, extra : Extras, space : Spaces]

IsUint(n) == n \in {"0", "3", "4", "5", "100", "max-uint64", "03", "040"}
Small(n)  == n \in {"0", "3", "4", "03"}
WellFormed(x) == /\ x.kind \in {"score", "entropy", "time"} /\ x.op = ">=" /\ IsUint(x.num)
                 /\ (x.kind = "score" => Small(x.num))
                 /\ x.extra = "none" /\ x.space # "no-spaces"

\* "policy" a checker is built | "nopolicy" no policy configured, everything passes | "refuse" the agent must not start
Outcome(x) == CASE x.type = "none"   -> "nopolicy"
                [] x.type = "zxcvbn" -> IF WellFormed(x) THEN "policy" ELSE "refuse"
                [] OTHER             -> "refuse"

Init == /\ c \in {x \in Cases : x.type = "zxcvbn" \/ (x.kind = "score" /\ x.op = ">=" /\ x.num = "3" /\ x.extra = "none" /\ x.space = "single")}
        /\ IF EmitEdges THEN PrintT(ToJson([case |-> c, outcome |-> Outcome(c)])) ELSE TRUE
Next == UNCHANGED c
Spec == Init /\ [][Next]_c

NeverSilentlyDisabled == (c.type # "none" /\ ~WellFormed(c)) => Outcome(c) = "refuse"
=============================================================================
