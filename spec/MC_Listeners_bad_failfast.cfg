SPECIFICATION Spec
CONSTANTS FailFast = TRUE  EmitEdges = FALSE  Logins = FALSE
INVARIANTS TypeOK GoodListenersUnaffected ExitOnlyWhenNobodyServes
CHECK_DEADLOCK FALSE
