SPECIFICATION Spec
CONSTANTS
    Procs = {1, 2}
    OpSets <- AllOps2
    Initials = {"absent", "user", "admin"}
    MayFault = TRUE
    Coarse = FALSE
    Serial = TRUE
INVARIANTS WholeFiles TmpPrivate LoserHarmless QuiescentWhole OneFilePerUser NoStrayEmpty SomeOrderExplains
CHECK_DEADLOCK FALSE
