---------------------------- MODULE TracePosixFS ----------------------------
(***************************************************************************)
(* System calls observed with strace on the real store.Dir, checked        *)
(* against PosixFS: each successful mutating call of one operation is one  *)
(* PosixFS action, and the crash / durability / failure invariants are     *)
(* evaluated after every call (CrashAtomic ranges over the kill view and   *)
(* every power-loss view at that instant), so the verdict depends only on  *)
(* the order of write / fsync / rename / unlink the code really issues.    *)
(*                                                                         *)
(* "killview" lines bind real crash states: the driver was killed right    *)
(* before its next mutating call and the projection of the real directory  *)
(* must equal the model's kill view at that point.                         *)
(***************************************************************************)
EXTENDS PosixFS, Json

CONSTANT TraceFile
VARIABLE l
TraceLog == ndJsonDeserialize(TraceFile)
tvars == <<fsvars, l>>

Ev == TraceLog[l]
IsEvent(e) == l <= Len(TraceLog) /\ Ev.ev = e /\ l' = l + 1

TReset ==
    /\ IsEvent("reset")
    /\ LET c == [op |-> Ev.op, hadOld |-> Ev.hadOld, hasAux |-> Ev.hasAux] IN
       /\ ctx' = c
       /\ vdir' = [n \in {"F", "G", "T"} |-> IF n = "F" /\ c.hadOld THEN OldIno ELSE 0]
       /\ ddir' = [n \in {"F", "G"} |-> IF n = "F" /\ c.hadOld THEN OldIno ELSE 0]
       /\ pend' = <<>>
       /\ vdata' = [i \in Inodes |-> IF i = OldIno THEN "old" ELSE "empty"]
       /\ ddata' = [i \in Inodes |-> IF i = OldIno THEN "old" ELSE "empty"]
       /\ nextIno' = 2 /\ ret' = "none" /\ foreign' = FALSE

TCreat    == IsEvent("creat") /\ SysCreatFinal(Ev.n)
TCreatTmp == IsEvent("creattmp") /\ SysCreatTmp
TWrite    == IsEvent("write") /\ SysWrite(Ev.n, Ev.cls)
TFsync    == IsEvent("fsync") /\ SysFsync(Ev.n)
TFsyncDir == IsEvent("fsyncdir") /\ SysFsyncDir
TRename   == IsEvent("rename") /\ SysRename(Ev.a, Ev.b)
TUnlink   == IsEvent("unlink") /\ SysUnlink(Ev.n)
TLink     == IsEvent("link") /\ SysLink(Ev.a, Ev.b)
TForeign  == IsEvent("foreign") /\ SysForeign
TRet      == IsEvent("ret") /\ Return(Ev.r)
TKillView == /\ IsEvent("killview")
             /\ KillView["F"] = Ev.F /\ KillView["G"] = Ev.G
             /\ UNCHANGED fsvars

TraceNext == TReset \/ TCreat \/ TCreatTmp \/ TWrite \/ TFsync \/ TFsyncDir \/ TRename \/ TUnlink \/ TLink
             \/ TForeign \/ TRet \/ TKillView

TraceInit == FsInit([op |-> "noop", hadOld |-> FALSE, hasAux |-> FALSE]) /\ l = 1
TraceSpec == TraceInit /\ [][TraceNext]_tvars

HWM == IF TLCGet(0) < l THEN TLCSet(0, l) ELSE TRUE
TraceConstraint == HWM
TraceAccepted == LET n == TLCGet(0) IN PrintT(<<"HWM", n, Len(TraceLog)>>) /\ n = Len(TraceLog) + 1
ASSUME TLCSet(0, 0)

\* remove reports nothing: it is acknowledged only if it really ran to its end
AckDurableT == ret = "ok" => \A v \in PowerLossViews : Acked(v)
=============================================================================
