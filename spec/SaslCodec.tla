----------------------------- MODULE SaslCodec -----------------------------
(***************************************************************************)
(* The saslauthd wire codec (sasl/sasl_encoding.go) on a scaled alphabet.  *)
(*                                                                         *)
(* A message is a sequence of length-prefixed fields: two length bytes     *)
(* (big endian, base B instead of 256) followed by that many data bytes.   *)
(* Fields longer than MaxLen are refused.  The decoder is modelled the way *)
(* the code works: a reader delivers the stream in arbitrary chunks (any   *)
(* non-empty number of pending bytes, a zero-length read, or the end of    *)
(* the stream - possibly together with the last chunk), after every        *)
(* delivery the split function (scanLengthEncodedString) looks at the      *)
(* buffered, not yet consumed bytes and either takes a field, asks for     *)
(* more data, or fails; decodeLengthEncodedStrings stops after NParts      *)
(* fields.                                                                 *)
(*                                                                         *)
(* Expected(s) is the declarative meaning of a stream.  TLC checks that    *)
(* the operational result equals Expected(s) for every stream of the       *)
(* bounded set and EVERY delivery schedule (fragment independence), and    *)
(* prints Expected(s) once per stream; the replay harness maps each model  *)
(* stream to real byte streams (length homomorphisms 0,1,256,257,...,65535)*)
(* and compares the real decoder under dense read schedules with it.       *)
(***************************************************************************)
EXTENDS Naturals, Sequences, FiniteSets, TLC, Json

CONSTANTS B,          \* base of a length byte (model 3, real 256)
          MaxLen,     \* field limit (model 2, real 256)
          NParts,     \* fields per message (request 4, response 1)
          Streams,    \* the byte streams explored
          MaxZeroReads,
          EmitEdges

VARIABLES stream,     \* the whole byte stream the client sends (constant within a behaviour)
          delivered,  \* number of bytes the reader has handed out so far
          eof,        \* the reader has reported the end of the stream
          consumed,   \* bytes consumed by accepted fields
          parts,      \* fields decoded so far
          result,     \* "running" | "ok" | "err"
          zeros       \* zero-length reads so far

vars == <<stream, delivered, eof, consumed, parts, result, zeros>>

Val(hi, lo) == hi * B + lo

(* ---- declarative meaning ------------------------------------------------ *)
RECURSIVE Parse(_, _, _)
Parse(s, pos, acc) ==       \* -> [ok, parts, consumed]
    IF Len(acc) = NParts THEN [ok |-> TRUE, parts |-> acc, consumed |-> pos]
    ELSE LET rem == Len(s) - pos IN
         IF rem < 2 THEN [ok |-> FALSE, parts |-> acc, consumed |-> pos]            \* nothing / half a prefix left
         ELSE LET n == Val(s[pos + 1], s[pos + 2]) IN
              IF n > MaxLen THEN [ok |-> FALSE, parts |-> acc, consumed |-> pos]    \* over the limit
              ELSE IF rem - 2 < n THEN [ok |-> FALSE, parts |-> acc, consumed |-> pos]  \* field cut short
              ELSE Parse(s, pos + 2 + n, Append(acc, SubSeq(s, pos + 3, pos + 2 + n)))

Expected(s) == Parse(s, 0, <<>>)

(* ---- operational decoder ------------------------------------------------- *)
Buffered == delivered - consumed          \* bytes in the scanner's buffer
Byte(i) == stream[consumed + i]           \* i-th buffered byte

\* the reader hands out k more bytes (k >= 1), optionally reporting EOF with the last ones
Deliver(k, withEOF) ==
    /\ result = "running" /\ ~eof
    /\ k >= 1 /\ delivered + k <= Len(stream)
    /\ delivered' = delivered + k
    /\ eof' = (withEOF /\ delivered + k = Len(stream))
    /\ UNCHANGED <<stream, consumed, parts, result, zeros>>

ZeroRead ==
    /\ result = "running" /\ ~eof /\ zeros < MaxZeroReads
    /\ zeros' = zeros + 1
    /\ UNCHANGED <<stream, delivered, eof, consumed, parts, result>>

EndOfStream ==
    /\ result = "running" /\ ~eof /\ delivered = Len(stream)
    /\ eof' = TRUE
    /\ UNCHANGED <<stream, delivered, consumed, parts, result, zeros>>

\* one call of the split function on the buffered bytes (deterministic)
Split ==
    /\ result = "running"
    /\ IF Len(parts) = NParts THEN result' = "ok" /\ UNCHANGED <<consumed, parts>>
       ELSE IF Buffered = 0 /\ eof THEN result' = "err" /\ UNCHANGED <<consumed, parts>>      \* too few parts
       ELSE IF Buffered < 2 THEN
            IF eof THEN result' = "err" /\ UNCHANGED <<consumed, parts>>                      \* message is invalid
            ELSE FALSE                                                                        \* need more data
       ELSE LET n == Val(Byte(1), Byte(2)) IN
            IF n > MaxLen THEN result' = "err" /\ UNCHANGED <<consumed, parts>>
            ELSE IF Buffered - 2 < n THEN
                 IF eof THEN result' = "err" /\ UNCHANGED <<consumed, parts>>                 \* message is too short
                 ELSE FALSE
            ELSE /\ parts' = Append(parts, SubSeq(stream, consumed + 3, consumed + 2 + n))
                 /\ consumed' = consumed + 2 + n
                 /\ result' = IF Len(parts) + 1 = NParts THEN "ok" ELSE "running"
    /\ UNCHANGED <<stream, delivered, eof, zeros>>

Finished == result # "running" /\ UNCHANGED vars

Next == \/ \E k \in 1..(Len(stream) - delivered), e \in BOOLEAN : Deliver(k, e)
        \/ ZeroRead \/ EndOfStream \/ Split \/ Finished

Emit(e) == IF EmitEdges THEN PrintT(ToJson(e)) ELSE TRUE

\* Request.Decode on top of the scanner loop: login and password must not be empty
ReqOK(x) == x.ok /\ NParts >= 2 /\ Len(x.parts[1]) > 0 /\ Len(x.parts[2]) > 0
\* Response.Decode: the single part must start with "OK" or "NO"; the message starts at the 4th byte.
\* Data bytes 1, 2, 0 stand for 'O', 'K', 'N'.
RespOK(x) == x.ok /\ NParts = 1 /\ Len(x.parts[1]) >= 2
             /\ SubSeq(x.parts[1], 1, 2) \in {<<1, 2>>, <<0, 1>>}
RespResult(x) == RespOK(x) /\ SubSeq(x.parts[1], 1, 2) = <<1, 2>>
RespMsg(x) == IF RespOK(x) /\ Len(x.parts[1]) > 3 THEN SubSeq(x.parts[1], 4, Len(x.parts[1])) ELSE <<>>

Init == /\ stream \in Streams
        /\ delivered = 0 /\ eof = FALSE /\ consumed = 0 /\ parts = <<>> /\ result = "running" /\ zeros = 0
        /\ LET x == Expected(stream) IN
           Emit([stream |-> stream, ok |-> x.ok, parts |-> x.parts, consumed |-> x.consumed, nparts |-> NParts,
                 reqok |-> ReqOK(x), respok |-> RespOK(x), respresult |-> RespResult(x), respmsg |-> RespMsg(x)])

Spec == Init /\ [][Next]_vars /\ WF_vars(Split) /\ WF_vars(EndOfStream)
             /\ WF_vars(\E k \in 1..(Len(stream) - delivered), e \in BOOLEAN : Deliver(k, e))

-----------------------------------------------------------------------------
(* C13: the decoder's result depends only on the byte stream, never on the *)
(* fragmentation into reads                                                *)
ResultIsFunctionOfStream ==
    LET x == Expected(stream) IN
    /\ result = "ok"  => (x.ok /\ parts = x.parts /\ consumed = x.consumed)
    /\ result = "err" => ~x.ok
NeverConsumesBeyondDelivered == consumed <= delivered /\ delivered <= Len(stream)
OverLimitRefused ==
    \A i \in 1..Len(parts) : Len(parts[i]) <= MaxLen
\* a successfully decoded message re-encodes to exactly the consumed bytes
RECURSIVE Encode(_)
Encode(ps) == IF ps = <<>> THEN <<>>
              ELSE <<Len(Head(ps)) \div B, Len(Head(ps)) % B>> \o Head(ps) \o Encode(Tail(ps))
ReencodeEqualsConsumed == result = "ok" => Encode(parts) = SubSeq(stream, 1, consumed)
\* every schedule terminates with a result
Terminates == <>(result # "running")
=============================================================================
