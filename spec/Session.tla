------------------------------- MODULE Session -------------------------------
(***************************************************************************)
(* Session tokens of the web API (cmd/whawty-auth/web_session.go) over an  *)
(* ideal AEAD: a token is (nonce, ciphertext) where the ciphertext can     *)
(* only be produced by the instance that holds the key of that epoch.      *)
(*                                                                         *)
(* Instances issue tokens, time advances, an instance may restart (new     *)
(* key), and an adversary presents *candidates* derived from the issued    *)
(* tokens.  Every Check step is printed as an edge with the verdict and    *)
(* identity the property demands; the replay harness concretises the       *)
(* candidate class against real webSessionFactory objects (every bit of    *)
(* the decoded content, every character of the text, every truncation      *)
(* length, every pair for splices).                                        *)
(***************************************************************************)
EXTENDS Naturals, FiniteSets, TLC, Json

CONSTANTS Instances, Users, Lifetime, MaxTime, MaxTokens, EmitEdges,
          ColonUsers   \* user names containing ':' - the token plaintext "user:admin:time" cannot be
                       \* parsed back for them, so their tokens are never accepted (fail closed); such
                       \* names are outside the schema's grammar anyway

VARIABLES issued,   \* set of tokens [id, inst, epoch, user, admin, ts]
          epoch,    \* [Instances -> key generation]
          now,
          last      \* observation: last check and its outcome

vars == <<issued, epoch, now, last>>
View == <<issued, epoch, now>>

Token(id, i, u, a) == [id |-> id, inst |-> i, epoch |-> epoch[i], user |-> u, admin |-> a, ts |-> now]

\* candidate kinds the adversary can build from a token t (and a second token t2)
Kinds == {"valid", "bitflip-nonce", "bitflip-body", "bitflip-tag", "truncate", "extend", "textmut",
          "other-instance", "splice-nonce-of-other"}
\* candidates that need no token
FreeKinds == {"garbage", "empty", "own-key-malformed-plaintext", "own-key-future", "own-key-wellformed",
              \* an authentic plaintext whose time stamp is astronomically far from now in either direction - including the
              \* values at which an age computed in nanoseconds (or milli- / microseconds) wraps around a 64-bit integer
              "own-key-extreme-time"}

Live(t, i) == /\ t \in issued /\ t.inst = i /\ t.epoch = epoch[i] /\ t.user \notin ColonUsers
              /\ now >= t.ts /\ now - t.ts <= Lifetime

(* The verdict the property demands.  i is the instance the candidate is   *)
(* presented to.                                                           *)
Accepts(i, kind, t) ==
    CASE kind = "valid"              -> Live(t, i)
      [] kind = "own-key-wellformed" -> TRUE     \* white-box: equals a token issued right now
      [] OTHER                       -> FALSE

Emit(e) == IF EmitEdges THEN PrintT(ToJson(e)) ELSE TRUE

NoTok == [id |-> 0, inst |-> "", epoch |-> 0, user |-> "", admin |-> FALSE, ts |-> 0]

Issue(i, u, a) ==
    /\ Cardinality(issued) < MaxTokens
    /\ LET id == Cardinality(issued) + 1 IN issued' = issued \cup {Token(id, i, u, a)}
    /\ last' = [op |-> "issue", ok |-> TRUE]
    /\ UNCHANGED <<epoch, now>>

Tick == now < MaxTime /\ now' = now + 1 /\ last' = [op |-> "tick", ok |-> TRUE] /\ UNCHANGED <<issued, epoch>>

Restart(i) == /\ epoch[i] < 2 /\ epoch' = [epoch EXCEPT ![i] = @ + 1]
              /\ last' = [op |-> "restart", ok |-> TRUE] /\ UNCHANGED <<issued, now>>

Check(i, kind, t, t2) ==
    /\ kind \in Kinds => t \in issued
    /\ IF kind = "splice-nonce-of-other" THEN (t2 \in issued /\ t2 # t) ELSE t2 = t
    /\ kind = "other-instance" => t.inst # i
    /\ kind \notin {"other-instance"} /\ kind \in Kinds => t.inst = i
    /\ LET ok == Accepts(i, kind, t) IN
       /\ last' = [op |-> "check", ok |-> ok]
       /\ Emit([op |-> "check", inst |-> i, kind |-> kind, tok |-> t, tok2 |-> t2, now |-> now,
                epoch |-> epoch, issued |-> issued, accept |-> ok,
                user |-> IF ok THEN t.user ELSE "", admin |-> IF ok THEN t.admin ELSE FALSE])
    /\ UNCHANGED <<issued, epoch, now>>

Next ==
    \/ \E i \in Instances, u \in Users, a \in BOOLEAN : Issue(i, u, a)
    \/ Tick
    \/ Restart(CHOOSE i \in Instances : TRUE)
    \/ \E i \in Instances, k \in Kinds, t \in issued, t2 \in issued : Check(i, k, t, t2)
    \/ \E i \in Instances, k \in FreeKinds : Check(i, k, NoTok, NoTok)

Init == issued = {} /\ epoch = [i \in Instances |-> 1] /\ now = 0 /\ last = [op |-> "none", ok |-> TRUE]
Spec == Init /\ [][Next]_vars

-----------------------------------------------------------------------------
(* C07 *)
NoncesDistinct == \A t1, t2 \in issued : t1.id = t2.id => t1 = t2

\* no candidate that is not exactly a live token of the instance it is presented to is accepted
AcceptImpliesLive ==
    \A i \in Instances, k \in Kinds, t \in issued :
        Accepts(i, k, t) => (k = "valid" /\ Live(t, i))

ExpiredRejected == \A i \in Instances, t \in issued : (now - t.ts > Lifetime) => ~Accepts(i, "valid", t)
RestartRejects  == \A i \in Instances, t \in issued : t.epoch # epoch[i] => ~Accepts(i, "valid", t)
=============================================================================
