------------------------------- MODULE Store -------------------------------
(***************************************************************************)
(* Sequential semantics of the whawty/auth password store (store.Dir).     *)
(*                                                                         *)
(* The abstract state is the content of the base directory, one slot per   *)
(* valid user name.  Every public operation of store.Dir is one atomic     *)
(* action with an explicit result.  The module is the reference for        *)
(* C01 (verdict tracks last write), C02 (unsupported-hash rules), C03      *)
(* (invalid names are inert), C12 (upgradeable iff not default), C15       *)
(* (failures and read-only calls change nothing; only the target is        *)
(* touched) and C16 (store stays valid), and it is INSTANCEd by the Agent  *)
(* and WebApi modules.                                                     *)
(*                                                                         *)
(* Every action ends in Emit(..): with EmitEdges = TRUE TLC prints each    *)
(* transition of the reachable graph exactly once (BFS, one worker) as a   *)
(* JSON object.  The replay harness turns each printed edge into one test  *)
(* of the real store.Dir: materialise `pre`, run the operation, compare    *)
(* the result class and the projection of the directory with `post`.       *)
(***************************************************************************)
EXTENDS Naturals, Sequences, FiniteSets, TLC, Json

CONSTANTS
    Users,       \* valid user names
    BadNames,    \* one label per class of invalid user name
    Pws,         \* model passwords
    Sets,        \* configured parameter-set ids
    Algo,        \* [Sets -> {"scrypt","argon"}]
    KeyClass,    \* [{"scrypt","argon"} -> [Pws -> STRING]]: passwords the algorithm maps to one key
    AuxVals,     \* auxiliary-data values, "none" included
    UnsupKinds,  \* kinds of unsupported / malformed first lines
    Defaults,    \* default parameter-sets explored (subset of Sets)
    EmitEdges    \* print every edge as JSON

VARIABLES
    files,       \* [Users -> FileState]
    default,     \* configured default parameter-set
    lastPw,      \* ghost: password of the most recent successful write per user ("" = none)
    last         \* observation: the last operation and its result (hidden by VIEW)

vars == <<files, default, lastPw, last>>
View == <<files, default, lastPw>>

NoFile == [ext |-> "none", kind |-> "none", set |-> 0, pw |-> "", aux |-> "none"]

OkFiles    == [ext : {"user", "admin"}, kind : {"ok"}, set : Sets, pw : Pws, aux : AuxVals]
UnsupFiles == [ext : {"user", "admin"}, kind : UnsupKinds, set : {0}, pw : {""}, aux : {"none"}]
FileStates == {NoFile} \cup OkFiles \cup UnsupFiles

Names == Users \cup BadNames

Present(f)   == f.ext # "none"
Supported(f) == f.kind = "ok"
IsAdm(f)     == f.ext = "admin"
ExtOf(adm)   == IF adm THEN "admin" ELSE "user"

SameKey(s, p, q) == KeyClass[Algo[s]][p] = KeyClass[Algo[s]][q]

(* The verdict of the store for (user, password) in a given directory.     *)
AuthOK(fs, n, p) ==
    /\ n \in Users
    /\ Supported(fs[n])
    /\ SameKey(fs[n].set, p, fs[n].pw)

CheckOK(fs) == \E u \in Users : IsAdm(fs[u]) /\ Supported(fs[u])

ListOf(fs)     == [u \in {v \in Users : Supported(fs[v])} |-> [admin |-> IsAdm(fs[u])]]
ListFullOf(fs) == [u \in {v \in Users : Present(fs[v])} |->
                      [admin |-> IsAdm(fs[u]), supported |-> Supported(fs[u]),
                       set |-> fs[u].set]]

(* effect labels tell the replay harness what to demand of the bytes       *)
NoEffect == [u \in Users |-> "same"]
Eff(n, e) == [NoEffect EXCEPT ![n] = e]

Emit(e) == IF EmitEdges THEN PrintT(ToJson(e)) ELSE TRUE

Step(op, name, pw, adm, res, post, eff) ==
    /\ files' = post
    /\ last'  = [op |-> op, name |-> name, pw |-> pw, adm |-> adm, res |-> res, eff |-> eff]
    /\ Emit([op |-> op, name |-> name, pw |-> pw, adm |-> adm, def |-> default,
             pre |-> files, post |-> post, res |-> res, eff |-> eff])

Fail == [ok |-> FALSE]
Ok   == [ok |-> TRUE]

-----------------------------------------------------------------------------
(* Mutating operations                                                      *)

Add(n, p, adm) ==
    /\ UNCHANGED default
    /\ IF n \in Users /\ ~Present(files[n])
       THEN /\ Step("add", n, p, adm, Ok,
                    [files EXCEPT ![n] = [ext |-> ExtOf(adm), kind |-> "ok", set |-> default,
                                          pw |-> p, aux |-> "none"]],
                    Eff(n, "created"))
            /\ lastPw' = [lastPw EXCEPT ![n] = p]
       ELSE /\ Step("add", n, p, adm, Fail, files, NoEffect)
            /\ UNCHANGED lastPw

Update(n, p) ==
    /\ UNCHANGED default
    /\ IF n \in Users /\ Supported(files[n])
       THEN /\ Step("update", n, p, FALSE, Ok,
                    [files EXCEPT ![n] = [@ EXCEPT !.set = default, !.pw = p]],
                    Eff(n, "rewritten"))
            /\ lastPw' = [lastPw EXCEPT ![n] = p]
       ELSE /\ Step("update", n, p, FALSE, Fail, files, NoEffect)
            /\ UNCHANGED lastPw

SetAdmin(n, adm) ==
    /\ UNCHANGED <<default, lastPw>>
    /\ IF n \in Users /\ Present(files[n])
       THEN IF IsAdm(files[n]) = adm
            THEN Step("setadmin", n, "", adm, Ok, files, NoEffect)
            ELSE Step("setadmin", n, "", adm, Ok,
                      [files EXCEPT ![n] = [@ EXCEPT !.ext = ExtOf(adm)]], Eff(n, "moved"))
       ELSE Step("setadmin", n, "", adm, Fail, files, NoEffect)

Remove(n) ==
    /\ UNCHANGED default
    /\ IF n \in Users /\ Present(files[n])
       THEN /\ Step("remove", n, "", FALSE, Ok, [files EXCEPT ![n] = NoFile], Eff(n, "removed"))
            /\ lastPw' = [lastPw EXCEPT ![n] = ""]
       ELSE /\ Step("remove", n, "", FALSE, Ok, files, NoEffect)   \* no-op
            /\ UNCHANGED lastPw

Init_(n, p) ==       \* store.Dir.Init: only on an empty directory
    /\ UNCHANGED default
    /\ IF n \in Users /\ \A u \in Users : ~Present(files[u])
       THEN /\ Step("init", n, p, TRUE, Ok,
                    [files EXCEPT ![n] = [ext |-> "admin", kind |-> "ok", set |-> default,
                                          pw |-> p, aux |-> "none"]],
                    Eff(n, "created"))
            /\ lastPw' = [lastPw EXCEPT ![n] = p]
       ELSE /\ Step("init", n, p, TRUE, Fail, files, NoEffect)
            /\ UNCHANGED lastPw

-----------------------------------------------------------------------------
(* Read-only operations                                                     *)

Exists(n) ==
    /\ UNCHANGED <<default, lastPw>>
    /\ Step("exists", n, "", FALSE,
            IF n \in Users THEN [ok |-> TRUE, exists |-> Present(files[n]), admin |-> IsAdm(files[n])]
                           ELSE [ok |-> TRUE, exists |-> FALSE, admin |-> FALSE],
            files, NoEffect)

Auth(n, p) ==
    /\ UNCHANGED <<default, lastPw>>
    /\ Step("auth", n, p, FALSE,
            IF AuthOK(files, n, p)
            THEN [ok |-> TRUE, admin |-> IsAdm(files[n]), upgradeable |-> files[n].set # default]
            ELSE Fail,
            files, NoEffect)

List ==
    /\ UNCHANGED <<default, lastPw>>
    /\ Step("list", "", "", FALSE, [ok |-> TRUE, list |-> ListOf(files)], files, NoEffect)

ListFull ==
    /\ UNCHANGED <<default, lastPw>>
    /\ Step("listfull", "", "", FALSE, [ok |-> TRUE, list |-> ListFullOf(files)], files, NoEffect)

Check ==
    /\ UNCHANGED <<default, lastPw>>
    /\ Step("check", "", "", FALSE, [ok |-> CheckOK(files)], files, NoEffect)

-----------------------------------------------------------------------------
(* Environment: another writer (rsync, an independent implementation of    *)
(* the schema, an older agent) replaces a user's file; the operator changes *)
(* the default parameter-set.  Not replayed, they only make every          *)
(* directory content reachable.                                            *)

ExternalPut(u, f) ==
    /\ f \in FileStates /\ f # files[u]
    /\ files' = [files EXCEPT ![u] = f]
    /\ lastPw' = [lastPw EXCEPT ![u] = f.pw]
    /\ last' = [op |-> "external", name |-> u, pw |-> f.pw, adm |-> FALSE, res |-> Ok,
                eff |-> Eff(u, "external")]
    /\ UNCHANGED default

Reconfigure(d) ==
    /\ d \in Defaults /\ d # default
    /\ default' = d
    /\ last' = [op |-> "reconfigure", name |-> "", pw |-> "", adm |-> FALSE, res |-> Ok,
                eff |-> NoEffect]
    /\ UNCHANGED <<files, lastPw>>

-----------------------------------------------------------------------------
ApiNext ==
    \/ \E n \in Names, p \in Pws, a \in BOOLEAN : Add(n, p, a)
    \/ \E n \in Names, p \in Pws : Update(n, p)
    \/ \E n \in Names, a \in BOOLEAN : SetAdmin(n, a)
    \/ \E n \in Names : Remove(n)
    \/ \E n \in Names, p \in Pws : Init_(n, p)
    \/ \E n \in Names : Exists(n)
    \/ \E n \in Names, p \in Pws : Auth(n, p)
    \/ List \/ ListFull \/ Check

EnvNext ==
    \/ \E u \in Users, f \in FileStates : ExternalPut(u, f)
    \/ \E d \in Defaults : Reconfigure(d)

Next == ApiNext \/ EnvNext

NoOp == [op |-> "none", name |-> "", pw |-> "", adm |-> FALSE, res |-> Ok, eff |-> NoEffect]

Init ==
    /\ files = [u \in Users |-> NoFile]
    /\ default \in Defaults
    /\ lastPw = [u \in Users |-> ""]
    /\ last = NoOp

Spec == Init /\ [][Next]_vars

-----------------------------------------------------------------------------
(* Properties                                                               *)

TypeOK ==
    /\ files \in [Users -> FileStates]
    /\ default \in Defaults
    /\ lastPw \in [Users -> Pws \cup {""}]

(* C01: the verdict is "P is key-equal to the password of the most recent   *)
(* successful write of a currently existing, supported U".                  *)
AuthIffLastPw ==
    \A u \in Users, p \in Pws :
        AuthOK(files, u, p) <=> /\ Supported(files[u])
                                /\ lastPw[u] # ""
                                /\ SameKey(files[u].set, p, lastPw[u])

(* C01: list / exists agree with the same history                           *)
ListExistsAgree ==
    /\ \A u \in Users : (u \in DOMAIN ListOf(files)) <=> (Present(files[u]) /\ Supported(files[u]))
    /\ \A u \in Users : ~Present(files[u]) => lastPw[u] = ""

(* C02: a name is never authenticated through an unsupported file           *)
UnsupportedNeverAuth ==
    \A u \in Users, p \in Pws : ~Supported(files[u]) => ~AuthOK(files, u, p)

(* C03: an invalid name never authenticates                                 *)
BadNameNeverAuth == \A n \in BadNames, p \in Pws : ~AuthOK(files, n, p)

(* C15 / C03, as action properties over the observation variable            *)
TargetOnly ==
    [][last'.op \notin {"reconfigure"} =>
          \A u \in Users : u # last'.name => files'[u] = files[u]]_vars

FailureChangesNothing ==
    [][(last'.op # "external" /\ ~last'.res.ok) => files' = files]_vars

ReadOnlyChangesNothing ==
    [][last'.op \in {"exists", "auth", "list", "listfull", "check"} => files' = files]_vars

BadNameInert ==
    [][last'.name \in BadNames =>
          /\ files' = files
          /\ last'.op \in {"add", "update", "setadmin", "init"} => ~last'.res.ok
          /\ last'.op = "auth" => ~last'.res.ok
          /\ last'.op = "exists" => ~last'.res.exists]_vars

(* C02: the schema's rules for unsupported files                            *)
UnsupportedRules ==
    [][(last'.name \in Users /\ Present(files[last'.name]) /\ ~Supported(files[last'.name])) =>
          /\ last'.op = "add"    => (~last'.res.ok /\ files' = files)
          /\ last'.op = "update" => (~last'.res.ok /\ files' = files)
          /\ last'.op = "remove" => ~Present(files'[last'.name])
          /\ last'.op = "auth"   => ~last'.res.ok]_vars

(* C16: a valid store stays valid unless the last admin is removed/demoted  *)
ValidStaysValid ==
    [][(CheckOK(files) /\ ~CheckOK(files')) =>
          \/ last'.op = "external"
          \/ /\ last'.op \in {"remove", "setadmin"}
             /\ IsAdm(files[last'.name]) /\ Supported(files[last'.name])
             /\ \A u \in Users \ {last'.name} : ~(IsAdm(files[u]) /\ Supported(files[u]))]_vars

(* C12: a written record always names the default set                       *)
WritesUseDefault ==
    [][\A u \in Users : (last'.eff[u] \in {"created", "rewritten"}) => files'[u].set = default]_vars

(* C15: update keeps aux and the admin flag; set-admin keeps the record     *)
UpdateKeepsAux ==
    [][last'.op = "update" /\ last'.res.ok =>
          /\ files'[last'.name].aux = files[last'.name].aux
          /\ files'[last'.name].ext = files[last'.name].ext]_vars
SetAdminKeepsRecord ==
    [][last'.op = "setadmin" /\ last'.res.ok =>
          [files'[last'.name] EXCEPT !.ext = "x"] = [files[last'.name] EXCEPT !.ext = "x"]]_vars
=============================================================================
