----------------------------- MODULE MC_Store -----------------------------
EXTENDS Store
MCAlgo     == (1 :> "scrypt" @@ 2 :> "argon" @@ 3 :> "scrypt")
\* p1z is p1 plus trailing NUL bytes: the same HMAC key for hmac_sha256_scrypt, another
\* password for argon2id.  p1 and p2 are unrelated.
MCKeyClass == [scrypt |-> [p1 |-> "k1", p1z |-> "k1", p2 |-> "k2", p3 |-> "k3"],
               argon  |-> [p1 |-> "k1", p1z |-> "k1z", p2 |-> "k2", p3 |-> "k3"]]
MCBadNames == {"empty", "leadDash", "leadDot", "leadUnderscore", "leadAt", "slash",
               "dotdotSibling", "absolute", "aliasU1", "aliasU1Dot", "ctl", "nul", "tooLong",
               "colon", "space", "trailingNewline", "nonAscii", "dotdot", "dot"}
=============================================================================
