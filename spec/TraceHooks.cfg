SPECIFICATION TraceSpec
CONSTANTS
    T = 3
    MaxTime = 9
    MaxChanges = 1000
    MaxReloads = 1000
    Stores = {"A", "B", "C"}
    Threshold = 1
    DrainNewStore = TRUE
    NewStoreSend = "block"
    NCap = 32
    TraceFile = "trace.ndjson"
CONSTRAINT TraceConstraint
INVARIANTS NoChangeForgotten NoRoundWithoutNotification
PROPERTIES RoundCarriesCurrentStore
POSTCONDITION TraceAccepted
CHECK_DEADLOCK FALSE
