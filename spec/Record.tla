------------------------------- MODULE Record -------------------------------
(***************************************************************************)
(* The first line of a hash file as a product of field classes, and what   *)
(* doc/SCHEMA.md and property C02 demand for each combination (a pure case *)
(* analysis, enumerated by TLC and turned into one implementation test per *)
(* case by the replay harness, which builds the bytes).                    *)
(*                                                                         *)
(*    <algo>:<time>:<param>:<salt>:<digest>\n  + auxiliary lines           *)
(*                                                                         *)
(* Verdicts are three-valued:                                              *)
(*    "must"     the schema says yes (canonical record)                    *)
(*    "mustnot"  the schema / the property says no                         *)
(*    "may"      a lenient reading of a non-canonical spelling whose       *)
(*               meaning still satisfies the property's condition          *)
(***************************************************************************)
EXTENDS Naturals, FiniteSets, TLC, Json

CONSTANTS EmitEdges, MaxDeviations

Algos   == {"match", "other-known", "unknown", "empty", "uppercase", "leading-space"}
Times   == {"dec", "zero", "neg", "plus", "empty", "nondec", "overflow", "leading-space", "float"}
Params  == {"known", "known-other-algo", "unknown", "zero", "empty", "nondec", "neg", "leadzero", "plus", "overflow"}
Salts   == {"orig", "other", "truncated", "empty", "invalid-b64", "std-alphabet", "nopad", "with-space"}
Digests == {"match", "other-pw", "truncated", "extended", "empty", "invalid-b64", "zeros", "swapped-with-salt",
            "std-alphabet", "nopad", "same-params-other-length"}   \* the last: the right password and salt, another tag length
Shapes  == {"exact", "missing-digest", "missing-two", "extra-field", "no-newline", "crlf", "nul-before-newline",
            "leading-blank-line", "second-line-valid", "huge-aux", "huge-time", "only-newline", "empty-file", "binary-junk",
            \* the five fields fill exactly 4096 / 65536 bytes (time stamp padded with zeros) and the line goes on behind them
            "pad4096-extra-field", "pad4096-junk-tail", "pad65536-extra-field", "pad65536-junk-tail"}

Good == [algo |-> "match", time |-> "dec", param |-> "known", salt |-> "orig", digest |-> "match", shape |-> "exact"]
Cases == [algo : Algos, time : Times, param : Params, salt : Salts, digest : Digests, shape : Shapes]
Deviations(c) == Cardinality({f \in {"algo", "time", "param", "salt", "digest", "shape"} : c[f] # Good[f]})

VARIABLE case
vars == <<case>>

\* ---------------------------------------------------------------- syntax
LineGone(c)   == c.shape \in {"leading-blank-line", "second-line-valid", "only-newline", "empty-file", "binary-junk"}
FieldsGone(c) == c.shape \in {"missing-digest", "missing-two", "extra-field",
                              "pad4096-extra-field", "pad4096-junk-tail", "pad65536-extra-field", "pad65536-junk-tail"}
\* the format id names the algorithm of the parameter set the line refers to: either the set the digest was
\* computed with, or - consistently - the other configured set (then the line is a well-formed record of that
\* set, whose digest cannot match)
AlgoOK(c)     == c.algo = "match" \/ (c.algo = "other-known" /\ c.param = "known-other-algo")
OwnSet(c)     == c.algo = "match"
TimeStrict(c) == c.time \in {"dec", "zero"} /\ c.shape # "huge-time"
TimeLenient(c) == c.time \in {"dec", "zero", "neg", "plus"} /\ c.shape # "huge-time"
ParamStrict(c) == c.param = "known" \/ (c.algo = "other-known" /\ c.param = "known-other-algo")
ParamLenient(c) == c.param \in {"known", "leadzero"} \/ (c.algo = "other-known" /\ c.param = "known-other-algo")
B64Strict(x)  == x \in {"orig", "other", "truncated", "match", "other-pw", "extended", "zeros", "swapped-with-salt",
                        "same-params-other-length"}
\* spellings a lenient base64 reader may or may not accept; their *bytes* are the original ones
B64Lenient(x) == B64Strict(x) \/ x \in {"nopad", "std-alphabet"}
ShapeStrict(c) == c.shape \in {"exact", "huge-aux"}
ShapeLenient(c) == ShapeStrict(c) \/ c.shape \in {"no-newline", "crlf", "nul-before-newline"}

\* the stored digest equals H(set, submitted password, stored salt)
DigestMatches(c) == /\ OwnSet(c) /\ c.param \in {"known", "leadzero"}
                    /\ c.digest \in {"match", "nopad", "std-alphabet"}
                    /\ c.salt \in {"orig", "nopad", "std-alphabet"}

Canonical(c) == /\ ~LineGone(c) /\ ~FieldsGone(c) /\ ShapeStrict(c) /\ AlgoOK(c) /\ TimeStrict(c) /\ ParamStrict(c)
                /\ B64Strict(c.salt) /\ B64Strict(c.digest)
Readable(c)  == /\ ~LineGone(c) /\ ~FieldsGone(c) /\ ShapeLenient(c) /\ AlgoOK(c) /\ TimeLenient(c) /\ ParamLenient(c)
                /\ B64Lenient(c.salt) /\ B64Lenient(c.digest)

\* ---------------------------------------------------------------- verdicts
Tri(must, may) == IF must THEN "must" ELSE IF may THEN "may" ELSE "mustnot"

\* authentication with the right password
AuthRight(c) == Tri(Canonical(c) /\ DigestMatches(c), Readable(c) /\ DigestMatches(c))
\* authentication with any other password never succeeds, whatever the file holds
AuthWrong(c) == "mustnot"

\* "supported": a well-formed record of a configured parameter set (independent of any password)
Supported(c) == Tri(Canonical(c), Readable(c))

Emit(e) == IF EmitEdges THEN PrintT(ToJson(e)) ELSE TRUE

Init == /\ case \in {c \in Cases : Deviations(c) <= MaxDeviations}
        /\ Emit([case |-> case, auth |-> AuthRight(case), supported |-> Supported(case)])
Next == UNCHANGED case
Spec == Init /\ [][Next]_vars

\* ---------------------------------------------------------------- laws of the case analysis itself
NeverAuthWithoutMatchingDigest == AuthRight(case) # "mustnot" => DigestMatches(case)
AuthImpliesSupported == /\ AuthRight(case) = "must" => Supported(case) = "must"
                        /\ Supported(case) = "mustnot" => AuthRight(case) = "mustnot"
MalformedNeverAuth == (LineGone(case) \/ FieldsGone(case) \/ ~OwnSet(case) \/ ~TimeLenient(case) \/ ~ParamLenient(case))
                          => AuthRight(case) = "mustnot"
GoodIsMust == case = Good => (AuthRight(case) = "must" /\ Supported(case) = "must")
=============================================================================
