SPECIFICATION Spec
CONSTANTS
    Replies <- MCReplies
    Delays = {"none", "short", "long"}
    EofCheck = "eof"
    WriteMode = "write"
    EmitEdges = TRUE
INVARIANTS PamSuccessOnlyOnOK PamSuccessOnOK PamYieldsCode
PROPERTIES PamTerminates
