SPECIFICATION Spec
CONSTANTS
    Replies <- MCReplies
    Delays = {"none", "short", "long"}
    Prompts = {"fast", "slow"}
    Signals = {"none", "one", "stream"}
    OnEintr = "fail"
    DeadlineFrom = "io"
    EofCheck = "eof"
    WriteMode = "write"
    EmitEdges = TRUE
INVARIANTS PamSuccessOnlyOnOK PamSuccessOnOK PamYieldsCode
PROPERTIES PamTerminates
