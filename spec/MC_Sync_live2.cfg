\* convergence under fairness (users keep logging in on the slave, rsync keeps running, requests are not lost for ever)
SPECIFICATION LiveSpec
CONSTANTS
    Users <- MCUsers
    Pws <- MCPws
    NSets = 2
    SlaveMode = "remote"
    Rollout = "slaves-first"
    Retire = "never"
    QuickCheck = FALSE
    Coarse = FALSE
    InitDef = 2
    MaxOps = 2
    Depth = 0
PROPERTIES Converges
CHECK_DEADLOCK FALSE
