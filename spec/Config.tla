------------------------------- MODULE Config -------------------------------
(***************************************************************************)
(* The store configuration file (store/config.go) as a product of document *)
(* classes, and what C18 demands of the loader:                            *)
(*   - it accepts exactly the well-formed documents (non-empty base        *)
(*     directory, ids > 0, exactly one algorithm per set, the default      *)
(*     names a defined set - or there are no sets at all -, no unknown     *)
(*     keys);                                                              *)
(*   - every parameter set it accepts either hashes and verifies or fails  *)
(*     with an error - never a crash.                                      *)
(* Parameter *values* (cost 0, time 0, huge memory ...) are not part of    *)
(* well-formedness: the loader may refuse them, but if it accepts them the *)
(* set must be usable-or-error ("may").                                    *)
(***************************************************************************)
EXTENDS Naturals, TLC, Json
CONSTANT EmitEdges
VARIABLE c

Shapes   == {"ok", "empty-doc", "two-docs", "not-mapping", "list-instead-of-map", "garbage"}
BaseDirs == {"ok", "empty", "missing"}
Defaults == {"set1", "set2", "zero", "missing", "undefined-set", "string", "negative"}
ParamLists == {"none", "scrypt", "argon", "scrypt+argon", "dup-id", "id-zero", "id-missing", "id-negative", "two-algos-in-one",
               "no-algo", "params-not-a-list"}
ScryptVals == {"ok", "r-p-omitted", "cost-0", "cost-31-skip", "cost-32", "cost-missing", "key-missing", "key-short", "key-not-b64",
               "r-negative", "cost-string"}
ArgonVals  == {"ok", "time-0", "time-missing", "threads-0", "threads-missing", "length-0", "length-missing", "memory-0", "memory-1",
               "all-missing", "threads-256", "length-huge-skip"}
Unknown  == {"none", "top-level", "in-set", "in-scrypt", "in-argon"}

Cases == [shape : Shapes, basedir : BaseDirs, default : Defaults, params : ParamLists, scrypt : ScryptVals, argon : ArgonVals,
          unknown : Unknown]
Good == [shape |-> "ok", basedir |-> "ok", default |-> "set1", params |-> "scrypt+argon", scrypt |-> "ok", argon |-> "ok", unknown |-> "none"]
Dev(x) == LET F == {"shape", "basedir", "default", "params", "scrypt", "argon", "unknown"} IN
          {f \in F : x[f] # Good[f]}

HasScrypt(x) == x.params \in {"scrypt", "scrypt+argon", "dup-id"}
HasArgon(x)  == x.params \in {"argon", "scrypt+argon", "dup-id"}
\* which ids are defined: set1 = scrypt (id 1), set2 = argon (id 2)
Defined(x, d) == (d = "set1" /\ HasScrypt(x)) \/ (d = "set2" /\ HasArgon(x))

\* an unknown key can only be written where its block exists
UnknownPresent(x) == \/ x.unknown = "top-level"
                     \/ (x.unknown = "in-set" /\ x.params \notin {"none", "params-not-a-list"})
                     \/ (x.unknown = "in-scrypt" /\ x.params \in {"scrypt", "scrypt+argon", "dup-id", "id-zero", "id-missing", "id-negative", "two-algos-in-one"})
                     \/ (x.unknown = "in-argon" /\ x.params \in {"argon", "scrypt+argon", "dup-id", "id-zero", "id-missing", "id-negative", "two-algos-in-one", "no-algo"})

Structure(x) ==
    /\ x.shape = "ok" /\ x.basedir = "ok" /\ ~UnknownPresent(x)
    /\ x.params \in {"none", "scrypt", "argon", "scrypt+argon"}
    /\ IF x.params = "none" THEN x.default \in {"zero", "missing"} ELSE Defined(x, x.default)

ValuesSane(x) == (HasScrypt(x) => x.scrypt \in {"ok", "r-p-omitted"}) /\ (HasArgon(x) => x.argon = "ok")
\* dup-id (two sets with one id) and a second YAML document are not mentioned by the property: "may"
Accept0(x) == IF x.params = "dup-id" /\ x.shape = "ok" /\ x.basedir = "ok" /\ ~UnknownPresent(x) /\ x.default = "set1" THEN "may"
              ELSE IF ~Structure(x) THEN "mustnot"
              ELSE IF ValuesSane(x) THEN "must" ELSE "may"
Accept(x) == IF x.shape = "two-docs"
             THEN (IF Accept0([x EXCEPT !.shape = "ok"]) = "mustnot" THEN "mustnot" ELSE "may")
             ELSE Accept0(x)

Init == /\ c \in {x \in Cases : \E n \in 0..2 : TRUE /\ (LET d == Dev(x) IN
                     \/ d = {} \/ (\E f \in d : d = {f}) \/ (\E f, g \in d : d = {f, g} /\ f # g))}
        /\ c.scrypt # "cost-31-skip" /\ c.argon # "length-huge-skip"
        /\ IF EmitEdges THEN PrintT(ToJson([case |-> c, accept |-> Accept(c)])) ELSE TRUE
Next == UNCHANGED c
Spec == Init /\ [][Next]_c
GoodAccepted == c = Good => Accept(c) = "must"
UnknownKeysRefused == UnknownPresent(c) => Accept(c) = "mustnot"
=============================================================================
