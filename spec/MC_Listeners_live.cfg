SPECIFICATION Spec
CONSTANTS FailFast = FALSE  EmitEdges = FALSE  Logins = FALSE
INVARIANTS TypeOK
PROPERTIES ComesUp GoesDown
CHECK_DEADLOCK FALSE
