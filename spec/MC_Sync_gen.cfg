\* generator: histories of 40 steps replayed on two real agents with real rsync
INIT Init
NEXT GenNext
CONSTANTS
    Users <- MCUsers
    Pws <- MCPws
    NSets = 2
    SlaveMode = "remote"
    Rollout = "slaves-first"
    Retire = "safe"
    QuickCheck = FALSE
    Coarse = TRUE
    InitDef = 1
    MaxOps = 14
    Depth = 40
INVARIANTS PrintAtDepth MasterTracksAck SlaveSound SlaveAvailable
CHECK_DEADLOCK FALSE
