\* behaviour generator: 3 clients x 2 calls over 2 users, local upgrades, capacity 2
INIT SimInit
NEXT SimNext
CONSTANTS
    Clients = {"c1", "c2", "c3"}
    Users = {"u1", "u2"}
    Pws = {"p1", "p2"}
    Sets = {1, 2}
    Default = 2
    PolicyOK <- MCPolicyAll
    Cap = 2
    NCap = 2
    UCap = 2
    SemCap = 1
    Mode = "local"
    UpgradeSend = "drop"
    UpgraderSem = "drop"
    Reloads = {}
    IOFaults = FALSE
    CallerWait = "forever"
    UpgradeRecheck = "full"
    MaxCalls = 2
    Kinds = {"auth", "update", "remove", "add", "setadmin", "list"}
    InitFiles <- MCInit2
    MinSteps = 8
INVARIANTS PrintWhenQuiescent AckedNotUndone
CHECK_DEADLOCK FALSE
