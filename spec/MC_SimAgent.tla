---------------------------- MODULE MC_SimAgent ----------------------------
EXTENDS SimAgent
MCInit2 == [u \in Users |-> IF u = "u1" THEN File("p1", 1, FALSE) ELSE File("p2", 2, TRUE)]
MCPolicyAll == {u \o "/" \o p : u \in Users, p \in Pws}
MCPolicyP1  == {u \o "/" \o "p1" : u \in Users}
=============================================================================
