SPECIFICATION Spec
CONSTANTS
    EmitEdges = TRUE
    MaxDeviations = 3
INVARIANTS NeverAuthWithoutMatchingDigest AuthImpliesSupported MalformedNeverAuth GoodIsMust
CHECK_DEADLOCK FALSE
