SPECIFICATION Spec
CONSTANTS
    Conns = {"k1", "k2"}
    StreamClasses = {"good", "bad"}
    Finishes = {"halfclose", "close", "silent"}
    MsgClasses = {"empty", "short", "253", "254", "65532", "65533", "65600"}
    ClipMessage = FALSE
    EmitEdges = FALSE
INVARIANTS AtMostOneCallback CallbackOnlyIfDecoded PositiveOnlyIfApproved ExactlyOneReplyThenClose AtMostOneReply
           NoCrossTalk ReplyDecodableByGoClient ReplyDecodableByPam
PROPERTIES Answered
