SPECIFICATION Spec
CONSTANTS EmitEdges = TRUE
INVARIANTS NeverSilentlyDisabled
CHECK_DEADLOCK FALSE
