SPECIFICATION Spec
CONSTANTS TraceFile = "trace.ndjson"
CONSTRAINT TraceConstraint
INVARIANTS AlwaysAWholeConfig
POSTCONDITION TraceAccepted
CHECK_DEADLOCK FALSE
