SPECIFICATION Spec
CONSTANTS
    Procs = {1, 2}
    OpSets <- AllOps2
    Initials = {"absent", "user", "admin"}
    MayFault = TRUE
    Coarse = FALSE
    Serial = FALSE
INVARIANTS WholeFiles TmpPrivate LoserHarmless QuiescentWhole
CHECK_DEADLOCK FALSE
