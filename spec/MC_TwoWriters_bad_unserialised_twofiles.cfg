SPECIFICATION Spec
CONSTANTS
    Procs = {1, 2}
    OpSets <- AllOps2
    Initials = {"absent", "user", "admin"}
    MayFault = FALSE
    Coarse = FALSE
    Serial = FALSE
INVARIANTS OneFilePerUser
CHECK_DEADLOCK FALSE
