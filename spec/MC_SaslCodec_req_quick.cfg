SPECIFICATION Spec
CONSTANTS
    B = 3
    MaxLen = 2
    NParts = 4
    Streams <- StreamsQuick
    MaxZeroReads = 1
    EmitEdges = TRUE
INVARIANTS ResultIsFunctionOfStream NeverConsumesBeyondDelivered OverLimitRefused ReencodeEqualsConsumed
CHECK_DEADLOCK FALSE
