\* Agent: mode=local UpgradeSend=drop UpgradeRecheck=TRUE; 3 clients x 1 calls, channel capacity 2
SPECIFICATION Spec
CONSTANTS
    Clients = {"c1", "c2", "c3"}
    Users = {"u1"}
    Pws = {"p1", "p2"}
    Sets = {1, 2}
    Default = 2
    PolicyOK <- MCPolicyAll
    Cap = 2
    NCap = 2
    UCap = 2
    SemCap = 1
    Mode = "local"
    UpgradeSend = "drop"
    UpgraderSem = "drop"
    Reloads = {}
    IOFaults = FALSE
    CallerWait = "forever"
    UpgradeRecheck = "full"
    MaxCalls = 1
    Kinds = {"auth", "update", "remove"}
    InitFiles <- MCInit1
INVARIANTS TypeOK AckedNotUndone NoUpgradeWhenOff NotifyMatchesMutations NotifyAllWhenIdle
PROPERTIES UpgradeKeepsPasswordAndAdmin AuthNeverMutates UpgradeOnlyAfterLogin NoWriteWithoutPolicy
           EveryCallReturns DispatcherNeverStuck
