------------------------------- MODULE Written -------------------------------
(***************************************************************************)
(* What add, update and upgrade write (C14): one line                      *)
(*   <algorithm>:<unix time>:<parameter-set id>:<b64url salt>:<b64url digest> *)
(* naming the configured default set and the current time, with a fresh    *)
(* salt of the schema's size that is never reused, and the digest of the   *)
(* schema's function for exactly the configured parameters.  Secrets never *)
(* appear in the directory.                                                *)
(*                                                                         *)
(* The module is its own trace specification.  The harness projects every  *)
(* real write to an event; `digest` is "ok" only if its independent        *)
(* recomputation (x/crypto, from the numbers in the YAML file) matches the *)
(* stored digest bit for bit.                                              *)
(***************************************************************************)
EXTENDS Naturals, Sequences, FiniteSets, TLC, Json
CONSTANT TraceFile
VARIABLES salts,     \* every salt ever written (ids)
          cfg,       \* [default, algo, saltlen]
          l
TraceLog == ndJsonDeserialize(TraceFile)
Ev == TraceLog[l]
IsEvent(e) == l <= Len(TraceLog) /\ Ev.ev = e /\ l' = l + 1

Init == salts = {} /\ cfg = [default |-> 0, algo |-> "", saltlen |-> 0] /\ l = 1

\* a store is (re)configured: default set, its algorithm, the schema's salt size for it
Configure == /\ IsEvent("config")
             /\ cfg' = [default |-> Ev.default, algo |-> Ev.algo, saltlen |-> IF Ev.algo = "hmac_sha256_scrypt" THEN 32 ELSE 16]
             /\ UNCHANGED salts

\* one record written by add / update / upgrade
Write == /\ IsEvent("write")
         /\ Ev.shape = "single-line-5-fields"
         /\ Ev.algo = cfg.algo /\ Ev.param = cfg.default           \* names the configured default parameter set
         /\ Ev.time = "within-operation"                           \* the current time
         /\ Ev.saltlen = cfg.saltlen
         /\ Ev.salt \notin salts                                   \* never reused across writes
         /\ Ev.digest = "ok"                                       \* the schema's function, recomputed independently
         /\ Ev.b64 = "url-padded"
         /\ salts' = salts \cup {Ev.salt}
         /\ UNCHANGED cfg

\* the directory was scanned for the password and the HMAC key in several encodings
Scan == /\ IsEvent("scan") /\ Ev.leaks = 0 /\ UNCHANGED <<salts, cfg>>

Next == Configure \/ Write \/ Scan
Spec == Init /\ [][Next]_<<salts, cfg, l>>

HWM == IF TLCGet(0) < l THEN TLCSet(0, l) ELSE TRUE
TraceConstraint == HWM
TraceAccepted == LET n == TLCGet(0) IN PrintT(<<"HWM", n, Len(TraceLog)>>) /\ n = Len(TraceLog) + 1
ASSUME TLCSet(0, 0)
SaltsAreFresh == Cardinality(salts) <= l
=============================================================================
