------------------------------- MODULE Reload -------------------------------
(***************************************************************************)
(* Configuration reload of the running agent (store.reload, SIGHUP).       *)
(* The configuration in use is a triple (base directory, default           *)
(* parameter set, configured sets).  On a reload signal the agent switches *)
(* to what is on disk only if it loads and its directory passes the        *)
(* consistency check - all three components together - and otherwise keeps *)
(* the complete previous configuration.                                    *)
(*                                                                         *)
(* The module is its own trace specification: events recorded from the     *)
(* real agent (what was put on disk, the reload outcome reported by the    *)
(* verif hook with the configuration then in use, where and with which     *)
(* parameter set a subsequent add was written) are replayed against it.    *)
(***************************************************************************)
EXTENDS Naturals, Sequences, TLC, Json

CONSTANTS TraceFile
Configs == [A |-> [base |-> "A", default |-> 1, sets |-> <<1, 2>>],
            B |-> [base |-> "B", default |-> 2, sets |-> <<2, 3>>],
            C |-> [base |-> "A", default |-> 2, sets |-> <<1, 2, 3>>],
            D |-> [base |-> "noadmin", default |-> 1, sets |-> <<1>>],   \* loads, but its directory fails the check
            E |-> [base |-> "A", default |-> 1, sets |-> <<1, 3>>],      \* A's directory, but the administrator's set is no longer configured
            F |-> [base |-> "B", default |-> 3, sets |-> <<3>>],         \* the same for B's directory
            G |-> [base |-> "stray", default |-> 1, sets |-> <<1, 2>>],  \* a directory with a stray file
            H |-> [base |-> "A", default |-> 2, sets |-> <<2, 3>>]]      \* A's directory with set 1 retired (its records become unsupported)
Loadable == {"A", "B", "C", "H"}

VARIABLES cur, disk, l
vars == <<cur, disk, l>>
TraceLog == ndJsonDeserialize(TraceFile)
Ev == TraceLog[l]
IsEvent(e) == l <= Len(TraceLog) /\ Ev.ev = e /\ l' = l + 1

Init == cur = Configs["A"] /\ disk = "A" /\ l = 1

Start == IsEvent("start") /\ cur' = Configs[Ev.k] /\ disk' = Ev.k
WriteDisk == IsEvent("disk") /\ disk' = Ev.k /\ UNCHANGED cur

\* the reload outcome as logged by the hook, with the configuration in use afterwards
Reloaded ==
    /\ IsEvent("reloaded")
    /\ Ev.ok = (disk \in Loadable)
    /\ cur' = IF disk \in Loadable THEN Configs[disk] ELSE cur
    /\ Ev.base = cur'.base /\ Ev.default = cur'.default /\ Ev.sets = cur'.sets      \* never a mixture
    /\ UNCHANGED disk

\* an add through the agent lands in the base directory in use, under the default in use
Wrote == /\ IsEvent("wrote")
         /\ Ev.base = cur.base /\ Ev.param = cur.default
         /\ UNCHANGED <<cur, disk>>

\* a login of a user whose record names set Ev.set: works iff that set is configured now; upgradeable iff not the default
Login == /\ IsEvent("login")
         /\ Ev.base = cur.base
         /\ Ev.ok = (\E i \in 1..Len(cur.sets) : cur.sets[i] = Ev.set)
         /\ UNCHANGED <<cur, disk>>

\* requests in flight during the reloads were all answered
InFlight == IsEvent("inflight") /\ Ev.unanswered = 0 /\ UNCHANGED <<cur, disk>>

Next == Start \/ WriteDisk \/ Reloaded \/ Wrote \/ Login \/ InFlight
Spec == Init /\ [][Next]_vars

HWM == IF TLCGet(0) < l THEN TLCSet(0, l) ELSE TRUE
TraceConstraint == HWM
TraceAccepted == LET n == TLCGet(0) IN PrintT(<<"HWM", n, Len(TraceLog)>>) /\ n = Len(TraceLog) + 1
ASSUME TLCSet(0, 0)
AlwaysAWholeConfig == \E k \in DOMAIN Configs : cur = Configs[k]
=============================================================================
