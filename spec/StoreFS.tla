------------------------------- MODULE StoreFS -------------------------------
(***************************************************************************)
(* The store's operations as sequences of system calls, exactly in the     *)
(* order store/userhash.go issues them (writeHashStr for add / update, one *)
(* rename for set-admin, unlink for remove), with a process kill or power  *)
(* loss possible between any two calls (the crash views of PosixFS are     *)
(* evaluated in every state) and at most one failing system call per       *)
(* operation, followed by the code's error path (deferred cleanup).        *)
(*                                                                         *)
(* Variant constants describe the design; the valuation CodeVariant is the *)
(* code as it is, every other valuation is a realistic wrong design that   *)
(* TLC must refute (non-vacuity of the invariants).                        *)
(***************************************************************************)
EXTENDS PosixFS

CONSTANTS
    Contexts,           \* operations explored: set of [op, hadOld, hasAux]
    FaultAfterCommit,   \* also explore a failure of open/fsync(base dir) after the rename
    FsyncTmp,           \* fsync the temporary file before the rename
    FsyncDirWrite,      \* fsync the base directory after the rename (add / update)
    FsyncDirSetAdmin,   \* ... after set-admin's rename
    FsyncDirRemove,     \* ... after remove's unlink
    WriteInPlace,       \* write the new record directly into the final file
    CleanupReservation, \* add: remove the empty reservation when the operation fails before the rename
    MayFault            \* explore single system-call failures

VARIABLES pc, faultAt,
          rpc, rino, rsaw     \* a concurrent reader in another process (Authenticate: stat .admin, stat .user, open, read)

svars == <<fsvars, pc, faultAt, rpc, rino, rsaw>>

Target == IF WriteInPlace THEN "F" ELSE "T"

RUnch == UNCHANGED <<rpc, rino, rsaw>>
Goto(l) == pc' = l /\ UNCHANGED faultAt /\ RUnch
FaultHere(l) == MayFault /\ faultAt = "none" /\ faultAt' = pc /\ pc' = l /\ UNCHANGED fsvars /\ RUnch

Exists(n) == vdir[n] # 0

-----------------------------------------------------------------------------
(* add / update: writeHashStr                                              *)

WStart ==   \* Exists() checks, isFormatSupported: read-only
    /\ pc = "start"
    /\ IF ctx.op = "add" /\ (Exists("F") \/ Exists("G")) THEN Return("fail") /\ Goto("done")
       ELSE IF ctx.op = "update" /\ ~Exists("F") THEN Return("fail") /\ Goto("done")
       ELSE UNCHANGED fsvars /\ Goto("open")

WOpen ==    \* open(final, O_RDONLY|O_EXCL [|O_CREAT])
    /\ pc = "open"
    /\ \/ /\ IF ctx.op = "add" THEN SysCreatFinal("F") ELSE UNCHANGED fsvars
          /\ Goto("mktmp")
       \/ FaultHere("fail")

WMkTmp ==   \* MkdirAll(.tmp) + CreateTemp
    /\ pc = "mktmp"
    /\ \/ /\ IF WriteInPlace THEN UNCHANGED fsvars ELSE SysCreatTmp
          /\ Goto("writeline")
       \/ FaultHere("cleanup")

WLine ==    \* the new record line
    /\ pc = "writeline"
    /\ \/ SysWrite(Target, IF ctx.hasAux THEN "torn" ELSE "new") /\ Goto(IF ctx.hasAux THEN "copyaux" ELSE "sync")
       \/ SysWrite(Target, "torn") /\ MayFault /\ faultAt = "none" /\ faultAt' = pc /\ pc' = "cleanup" /\ RUnch  \* short write
       \/ FaultHere("cleanup")

WAux ==     \* copy the auxiliary lines of the old file
    /\ pc = "copyaux"
    /\ \/ SysWrite(Target, "new") /\ Goto("sync")
       \/ FaultHere("cleanup")

WSync ==
    /\ pc = "sync"
    /\ \/ /\ IF FsyncTmp THEN SysFsync(Target) ELSE UNCHANGED fsvars
          /\ Goto("rename")
       \/ FaultHere("cleanup")

WRename ==
    /\ pc = "rename"
    /\ \/ /\ IF WriteInPlace THEN UNCHANGED fsvars ELSE SysRename("T", "F")
          /\ Goto("syncdir")
       \/ FaultHere("cleanup")

WSyncDir ==
    /\ pc = "syncdir"
    /\ \/ /\ IF FsyncDirWrite THEN SysFsyncDir ELSE UNCHANGED fsvars
          /\ Goto("ok")
       \/ FaultAfterCommit /\ FaultHere("cleanup")     \* open(base) or fsync(base) failed *after* the rename

ReservationToClean == /\ CleanupReservation /\ ctx.op = "add" /\ ~ctx.hadOld
                      /\ Exists("F") /\ vdata[vdir["F"]] = "empty"
WCleanup == \* deferred os.Remove(tmp) on the error path (+ reservation clean-up if the design has it)
    /\ pc = "cleanup"
    /\ \/ Exists("T") /\ SysUnlink("T") /\ UNCHANGED <<pc, faultAt>> /\ RUnch
       \/ ~Exists("T") /\ ReservationToClean /\ SysUnlink("F") /\ UNCHANGED <<pc, faultAt>> /\ RUnch
       \/ ~Exists("T") /\ ~ReservationToClean /\ UNCHANGED fsvars /\ Goto("fail")

WOk   == pc = "ok"   /\ Return("ok")   /\ Goto("done")
WFail == pc = "fail" /\ Return("fail") /\ Goto("done")

(* C08: concurrent readers in other processes see the same three possibilities *)
ReaderSeesWhole ==
    rpc = "done" => \/ rsaw \in {"nothing", "old", "new"}
                    \/ rsaw = "empty" /\ ctx.op = "add"

-----------------------------------------------------------------------------
(* set-admin: F is the current name, G the requested one                    *)
SStart ==
    /\ pc = "start"
    /\ IF ~Exists("F") THEN Return("fail") /\ Goto("done") ELSE UNCHANGED fsvars /\ Goto("rename")
SRename ==
    /\ pc = "rename"
    /\ \/ SysRename("F", "G") /\ Goto(IF FsyncDirSetAdmin THEN "syncdir" ELSE "ok")
       \/ FaultHere("fail")
SSyncDir ==
    /\ pc = "syncdir"
    /\ \/ SysFsyncDir /\ Goto("ok")
       \/ FaultAfterCommit /\ FaultHere("fail")

(* remove                                                                   *)
RStart == pc = "start" /\ UNCHANGED fsvars /\ Goto("unlink")
RUnlink ==
    /\ pc = "unlink"
    /\ \/ /\ IF Exists("F") THEN SysUnlink("F") ELSE UNCHANGED fsvars
          /\ Goto(IF FsyncDirRemove THEN "syncdir" ELSE "ok")
       \/ FaultHere("ok")          \* Remove() ignores errors and reports nothing
RSyncDir ==
    /\ pc = "syncdir"
    /\ \/ SysFsyncDir /\ Goto("ok")
       \/ FaultHere("ok")

-----------------------------------------------------------------------------
(* A reader in another process, one system call at a time, interleaved      *)
(* anywhere with the writer: it looks for <user>.admin (G for add/update:   *)
(* never there), then <user>.user (F), opens what it found and reads the    *)
(* whole file.  What it reads is the content of the inode it opened *at the *)
(* time of the read*.                                                       *)
ReaderStat ==
    /\ rpc = "stat" /\ UNCHANGED <<fsvars, pc, faultAt, rsaw>>
    /\ IF vdir["G"] # 0 THEN rpc' = "open" /\ rino' = "G"
       ELSE IF vdir["F"] # 0 THEN rpc' = "open" /\ rino' = "F"
       ELSE rpc' = "done" /\ rino' = "none"
ReaderOpen ==      \* open by name: the name may have been replaced or removed since the stat
    /\ rpc = "open" /\ UNCHANGED <<fsvars, pc, faultAt, rsaw>>
    /\ IF vdir[rino] # 0 THEN rpc' = "read" /\ rino' = vdir[rino]
       ELSE rpc' = "done" /\ rino' = "none"
ReaderRead ==
    /\ rpc = "read" /\ UNCHANGED <<fsvars, pc, faultAt, rino>>
    /\ rsaw' = vdata[rino] /\ rpc' = "done"
Reader == ReaderStat \/ ReaderOpen \/ ReaderRead

Done == pc = "done" /\ rpc = "done" /\ UNCHANGED svars

Next ==
    \/ (ctx.op \in {"add", "update"} /\
          (WStart \/ WOpen \/ WMkTmp \/ WLine \/ WAux \/ WSync \/ WRename \/ WSyncDir \/ WCleanup))
    \/ (ctx.op = "setadmin" /\ (SStart \/ SRename \/ SSyncDir))
    \/ (ctx.op = "remove" /\ (RStart \/ RUnlink \/ RSyncDir))
    \/ WOk \/ WFail \/ Done \/ Reader

Init == (\E c \in Contexts : FsInit(c)) /\ pc = "start" /\ faultAt = "none"
        /\ rpc = "stat" /\ rino = "none" /\ rsaw = "nothing"
Spec == Init /\ [][Next]_svars

(* remove reports nothing, so a faulted remove that did not delete is not an acknowledged removal *)
AckDurableS == (ret = "ok" /\ ~(ctx.op = "remove" /\ faultAt # "none")) => \A v \in PowerLossViews : Acked(v)
=============================================================================
