\* WRONG variant: remote mode with back-pressure everywhere (blocking dispatcher send + upgrader blocking on its semaphore): a stalled master wedges the agent
SPECIFICATION Spec
CONSTANTS
    Clients = {"c1", "c2", "c3"}
    Users = {"u1"}
    Pws = {"p1", "p2"}
    Sets = {1, 2}
    Default = 2
    PolicyOK <- MCPolicyAll
    Cap = 2
    NCap = 2
    UCap = 1
    SemCap = 1
    Mode = "remote"
    UpgradeSend = "blocking"
    UpgraderSem = "block"
    Reloads = {}
    IOFaults = FALSE
    CallerWait = "forever"
    UpgradeRecheck = "full"
    MaxCalls = 1
    Kinds = {"auth", "update", "remove"}
    InitFiles <- MCInit1
INVARIANTS TypeOK AckedNotUndone NoUpgradeWhenOff NotifyMatchesMutations NotifyAllWhenIdle
PROPERTIES UpgradeKeepsPasswordAndAdmin AuthNeverMutates UpgradeOnlyAfterLogin NoWriteWithoutPolicy
           EveryCallReturns DispatcherNeverStuck
