------------------------------ MODULE HooksDir ------------------------------
(***************************************************************************)
(* Hooks.tla plus the state of the hooks DIRECTORY: it can become unusable *)
(* (world-writable, missing, not a directory: runAllHooks returns without  *)
(* starting anything) and be repaired while the agent runs.  A round that   *)
(* runs while the directory is unusable starts no script - nothing there   *)
(* is eligible - but it is still a round of the rate limiter: the interval *)
(* is opened and closed as always, so that changes made after the repair   *)
(* start the hooks again.  `started` counts the rounds that started        *)
(* scripts; the drivers' dirbad-* scenarios bind it (scripts run between    *)
(* the rounds with a usable directory away from a switch and all rounds    *)
(* not clearly inside an unusable phase; a round after the repair exists). *)
(*                                                                         *)
(* ArmAlways = TRUE is the code.  FALSE is the realistic wrong design      *)
(* "arm the rate-limit timer only when the round could run its scripts"    *)
(* (pending is still counted, only the timer branch resets it): after one  *)
(* change that meets an unusable directory no later change is ever         *)
(* followed by a round - EveryChangeCovered is refuted.                    *)
(***************************************************************************)
EXTENDS Hooks
CONSTANTS ArmAlways, MaxSwitches
VARIABLES usable, started, nswitch
dvars == <<vars, usable, started, nswitch>>

InitD == Init /\ usable = TRUE /\ started = 0 /\ nswitch = 0

Switch == /\ nswitch < MaxSwitches /\ nswitch' = nswitch + 1
          /\ usable' = ~usable
          /\ UNCHANGED <<vars, started>>

LoopNotifyD ==
    /\ nq # <<>>
    /\ nq' = Tail(nq)
    /\ IF pending = 0
       THEN /\ Round(StoreForRound) /\ DrainEffect
            /\ timerAt' = IF ArmAlways \/ usable THEN now + T ELSE timerAt
            /\ started' = IF usable THEN started + 1 ELSE started
       ELSE UNCHANGED <<runs, uncovered, hookStore, nsq, timerAt, started>>
    /\ pending' = pending + 1
    /\ UNCHANGED <<now, agentStore, changes, nreload, psend, sh, usable, nswitch>>

LoopTimerD ==
    /\ LoopTimer
    /\ started' = IF pending > Threshold /\ usable THEN started + 1 ELSE started
    /\ UNCHANGED <<usable, nswitch>>

Other == (Change \/ (\E s \in Stores : Reload(s)) \/ ReloadSend \/ Tick \/ LoopNewStore) /\ UNCHANGED <<usable, started, nswitch>>
LoopD == LoopNotifyD \/ LoopTimerD \/ (LoopNewStore /\ UNCHANGED <<usable, started, nswitch>>)
NextD == Other \/ LoopNotifyD \/ LoopTimerD \/ Switch
SpecD == InitD /\ [][NextD]_dvars /\ WF_dvars(LoopD) /\ WF_dvars(Tick /\ UNCHANGED <<usable, started, nswitch>>)
               /\ WF_dvars(ReloadSend /\ UNCHANGED <<usable, started, nswitch>>)

StartedWithinRounds == started <= Len(runs)
(* with a directory that was usable all the time every round started the scripts *)
AlwaysUsableAllStarted == nswitch = 0 => started = Len(runs)
(* a round that runs while the directory is usable starts the scripts, one that runs while it is not starts nothing *)
RoundStartsIffUsable == [][Len(runs') > Len(runs) => (started' = started + (IF usable THEN 1 ELSE 0))]_dvars
=============================================================================
