------------------------------- MODULE Hooks -------------------------------
(***************************************************************************)
(* The update-hooks caller (cmd/whawty-auth/hooks.go): a goroutine that    *)
(* selects over the notification channel, the new-store channel and a      *)
(* rate-limit timer, with a leading edge (first notification of a quiet    *)
(* period runs the hooks at once and arms the timer) and a trailing edge   *)
(* (when the timer fires, the hooks run again iff more notifications came  *)
(* in meanwhile).  Time is discrete, T ticks per rate-limit interval; the  *)
(* loop is prompt (time only advances when no select arm is ready), the    *)
(* choice among ready arms is free - like Go's select.                     *)
(*                                                                         *)
(* Variants: Threshold (trailing run iff pending > Threshold; code: 1),    *)
(* DrainNewStore (take a pending new-store message before running hooks;   *)
(* FALSE = the code before the fix), NewStoreSend (the dispatcher's send   *)
(* of the new directory after a reload: "block" until the loop has taken   *)
(* the previous message (code) | "drop" it when the channel is full).      *)
(***************************************************************************)
EXTENDS Naturals, Sequences, FiniteSets, TLC

CONSTANTS T, MaxTime, MaxChanges, MaxReloads, Stores, Threshold, DrainNewStore, NCap, NewStoreSend

VARIABLES now,
          pending, timerAt,        \* loop state (timerAt = 0: not armed)
          nq,                      \* notification channel: sequence of change ids
          nsq,                     \* new-store channel (capacity 1)
          hookStore,               \* the store directory the hooks caller passes to hooks
          agentStore,              \* the store directory the agent uses
          changes,                 \* ghost: [id |-> [t, store]] of all changes so far (a sequence)
          uncovered,               \* ghost: ids of changes not yet followed by a hook round
          runs,                    \* ghost: the rounds so far: sequence of [t, store]
          nreload,
          sh,                      \* ghost: the store directories the agent has used so far, in order
          psend                    \* the dispatcher after a reload: the directory it still has to send ("" = none; it does nothing else meanwhile)

vars == <<now, pending, timerAt, nq, nsq, hookStore, agentStore, changes, uncovered, runs, nreload, psend, sh>>

FirstStore == CHOOSE x \in Stores : TRUE
Init == /\ now = 0 /\ pending = 0 /\ timerAt = 0 /\ nq = <<>> /\ nsq = <<>>
        /\ hookStore = FirstStore /\ agentStore = FirstStore
        /\ changes = <<>> /\ uncovered = {} /\ runs = <<>> /\ nreload = 0 /\ psend = "" /\ sh = <<FirstStore>>

TimerDue == timerAt # 0 /\ now >= timerAt
LoopReady == nq # <<>> \/ nsq # <<>> \/ TimerDue

\* ---- environment: the dispatcher
Change ==       \* a successful mutation of the agent's current store, followed by Notify <- true
    /\ Len(changes) < MaxChanges /\ Len(nq) < NCap /\ psend = ""
    /\ now + T < MaxTime               \* (bounded horizon: leave room for the trailing edge, else liveness is cut off)
    /\ changes' = Append(changes, [t |-> now, store |-> agentStore, e |-> Len(sh)])
    /\ uncovered' = uncovered \cup {Len(changes) + 1}
    /\ nq' = Append(nq, Len(changes) + 1)
    /\ UNCHANGED <<now, pending, timerAt, nsq, hookStore, agentStore, runs, nreload, psend, sh>>

Reload(s) ==    \* SIGHUP: the agent switches to another store ...
    /\ s \in Stores /\ s # agentStore /\ psend = "" /\ nreload < MaxReloads
    /\ agentStore' = s /\ psend' = s /\ nreload' = nreload + 1 /\ sh' = Append(sh, s)
    /\ UNCHANGED <<now, pending, timerAt, nq, nsq, hookStore, changes, uncovered, runs>>

SendReady == psend # "" /\ (nsq = <<>> \/ NewStoreSend = "drop")
ReloadSend ==   \* ... and tells the hooks caller (channel of capacity 1)
    /\ SendReady
    /\ nsq' = IF nsq = <<>> THEN <<psend>> ELSE nsq          \* "drop": the message is lost when the channel is full
    /\ psend' = ""
    /\ UNCHANGED <<now, pending, timerAt, nq, hookStore, agentStore, changes, uncovered, runs, nreload, sh>>

Tick == /\ ~LoopReady /\ ~SendReady /\ now < MaxTime /\ now' = now + 1
        /\ UNCHANGED <<pending, timerAt, nq, nsq, hookStore, agentStore, changes, uncovered, runs, nreload, psend, sh>>

\* ---- the loop
\* runAllHooks: every change made so far is covered by this round (the hooks read the store now)
Round(store) == /\ runs' = Append(runs, [t |-> now, store |-> store])
                /\ uncovered' = {}

\* with DrainNewStore a pending new-store message is taken before the hooks are started
StoreForRound == IF DrainNewStore /\ nsq # <<>> THEN Head(nsq) ELSE hookStore
DrainEffect   == IF DrainNewStore /\ nsq # <<>> THEN hookStore' = Head(nsq) /\ nsq' = <<>> ELSE UNCHANGED <<hookStore, nsq>>

LoopNotify ==
    /\ nq # <<>>
    /\ nq' = Tail(nq)
    /\ IF pending = 0
       THEN Round(StoreForRound) /\ DrainEffect /\ timerAt' = now + T
       ELSE UNCHANGED <<runs, uncovered, hookStore, nsq, timerAt>>
    /\ pending' = pending + 1
    /\ UNCHANGED <<now, agentStore, changes, nreload, psend, sh>>

LoopTimer ==
    /\ TimerDue
    /\ IF pending > Threshold
       THEN Round(StoreForRound) /\ DrainEffect
       ELSE UNCHANGED <<runs, uncovered, hookStore, nsq>>
    /\ pending' = 0 /\ timerAt' = 0
    /\ UNCHANGED <<now, nq, agentStore, changes, nreload, psend, sh>>

LoopNewStore ==
    /\ nsq # <<>>
    /\ hookStore' = Head(nsq) /\ nsq' = <<>>
    /\ UNCHANGED <<now, pending, timerAt, nq, agentStore, changes, uncovered, runs, nreload, psend, sh>>

Loop == LoopNotify \/ LoopTimer \/ LoopNewStore
Next == Change \/ (\E s \in Stores : Reload(s)) \/ ReloadSend \/ Tick \/ Loop
Spec == Init /\ [][Next]_vars /\ WF_vars(Loop) /\ WF_vars(Tick) /\ WF_vars(ReloadSend)

-----------------------------------------------------------------------------
(* C19 *)
\* a change is never lost: as long as it is uncovered, a round is still to come (safety form)
NoChangeForgotten == uncovered # {} => (nq # <<>> \/ (timerAt # 0 /\ pending > Threshold))
\* ... and it does come (liveness form; needs time to be able to advance: checked with MaxTime large enough)
EveryChangeCovered == (uncovered # {}) ~> (uncovered = {})

\* bursts are coalesced: never more than two rounds within one rate-limit interval
AtMostTwoRoundsPerInterval ==
    \A i \in 1..Len(runs) : (i + 2 <= Len(runs)) => (runs[i + 2].t - runs[i].t >= T)

\* a round that covers a change carries a store directory that was the agent's directory at some moment not before
\* that change (sh = the directories used so far, changes[i].e = how many of them had been used when change i was made)
RoundCarriesCurrentStore ==
    [][\A k \in 1..Len(runs') : k > Len(runs) =>
          \A i \in uncovered : \E j \in changes[i].e..Len(sh) : sh[j] = runs'[k].store
       ]_vars

NoRoundWithoutNotification == Len(runs) <= Len(changes)
=============================================================================
