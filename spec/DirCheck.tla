------------------------------ MODULE DirCheck ------------------------------
(***************************************************************************)
(* Contents of a store directory as a product of entry classes, and what   *)
(* C16 (the consistency check is exact; init only on an empty directory)   *)
(* and C03 (a file with an invalid name never counts as a user or as the   *)
(* required administrator) demand of Check, List, ListFull and Init.       *)
(* A pure case analysis: TLC enumerates it and prints one expectation per  *)
(* case, the replay harness builds each directory (in two creation orders) *)
(* and calls the real store.Dir.                                           *)
(***************************************************************************)
EXTENDS Naturals, FiniteSets, TLC, Json

CONSTANT EmitEdges

\* what the two valid user names "a" and "b" have in the directory
Slots   == {"absent", "user-sup", "user-unsup", "user-empty", "admin-sup", "admin-unsup", "admin-empty",
            "both-sup", "admin-sup+user-unsup"}
Others  == {"none", "x.txt", "a.user.bak", "noext", "a.USER"}       \* an entry with another extension
Subdirs == {"none", "sub", "d.user-dir"}                            \* a sub-directory (one of them named like a user file)
Tmps    == {"absent", "dir-empty", "dir-with-file", "file"}
\* (KELVIN stands for U+212A, which Unicode case folding maps to the letter k; the replay substitutes it)
Invalid == {"none", "-evil.admin-sup", "@boss.admin-sup", ".hidden.user-sup", "bad%name.user-sup", ".admin-sup", "KELVINarl.admin-sup"}

VARIABLE d
\* the second name is unrelated to the first ("b") or a dotted extension of it ("a.b": its files sort between a.admin and
\* a.user, and a prefix match on "a." finds them)
Cases == [a : Slots, b : Slots, other : Others, sub : Subdirs, tmp : Tmps, inv : Invalid, names : {"unrelated"}]
         \cup {c \in [a : Slots, b : Slots, other : {"none"}, sub : {"none"}, tmp : Tmps, inv : Invalid, names : {"dotted-neighbour"}] :
                   c.b # "absent" /\ c.a # "absent"}

HasAdminSup(s) == s \in {"admin-sup", "both-sup", "admin-sup+user-unsup"}
Dup(s)         == s \in {"both-sup", "admin-sup+user-unsup"}
Listed(s)      == s \in {"user-sup", "admin-sup", "both-sup", "admin-sup+user-unsup"}

\* C16: accepted exactly when every entry other than .tmp is named <name>.user|.admin, no name has both,
\* and at least one .admin file holds a supported hash;  C03: files with invalid names never provide it
NamesOK(c) == c.other = "none" /\ c.sub \in {"none", "d.user-dir"}
CheckOK(c) == /\ NamesOK(c) /\ ~Dup(c.a) /\ ~Dup(c.b)
              /\ (HasAdminSup(c.a) \/ HasAdminSup(c.b))

\* init succeeds only on an empty directory (a work area .tmp does not count)
Empty(c) == /\ c.a = "absent" /\ c.b = "absent" /\ c.other = "none" /\ c.sub = "none" /\ c.inv = "none"
\* "must" succeed / "may" (.tmp is not a directory: "ignoring .tmp" could be read either way) / "mustnot"
InitOK(c) == IF ~Empty(c) THEN "mustnot" ELSE IF c.tmp = "file" THEN "may" ELSE "must"

\* list: supported users with valid names only
ListA(c) == Listed(c.a)
ListB(c) == Listed(c.b)

Init == /\ d \in Cases
        /\ IF EmitEdges THEN PrintT(ToJson([dir |-> d, check |-> CheckOK(d), init |-> InitOK(d), lista |-> ListA(d),
                                             listb |-> ListB(d), namesok |-> NamesOK(d)])) ELSE TRUE
Next == UNCHANGED d
Spec == Init /\ [][Next]_d

\* laws
InvalidNeverAdmin == (~HasAdminSup(d.a) /\ ~HasAdminSup(d.b)) => ~CheckOK(d)
InitImpliesEmpty == InitOK(d) # "mustnot" => Empty(d)
=============================================================================
