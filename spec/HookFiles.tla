----------------------------- MODULE HookFiles -----------------------------
(***************************************************************************)
(* Which entries of a hooks directory are started (C19): a non-hidden,     *)
(* executable regular file or symlink, in a directory that is not          *)
(* world-writable.  A pure case analysis; the replay harness builds one    *)
(* directory per directory mode holding one entry per (kind, mode, hidden) *)
(* class and compares the set of scripts that really ran.                  *)
(***************************************************************************)
EXTENDS Naturals, TLC, Json
CONSTANT EmitEdges
VARIABLE e
DirModes == {"0755", "0700", "0775", "0757", "0777", "1777", "0753"}
Kinds == {"regular", "symlink-to-exec", "symlink-to-nonexec", "symlink-dangling", "symlink-to-dir", "dir", "fifo"}
Modes == {"0755", "0644", "0100", "0010", "0001", "0700", "0000", "0777", "4755", "0600"}
Cases == [dirmode : DirModes, kind : Kinds, mode : Modes, hidden : BOOLEAN]

WorldWritable(d) == d \in {"0757", "0777", "1777", "0753"}
ExecBit(m) == m \in {"0755", "0100", "0010", "0001", "0700", "0777", "4755"}
\* "must" be started / "mustnot" / "may" (a symlink whose target is not executable: the attempt fails)
Started(x) ==
    IF WorldWritable(x.dirmode) \/ x.hidden THEN "mustnot"
    ELSE CASE x.kind = "regular"            -> IF ExecBit(x.mode) THEN "must" ELSE "mustnot"
           [] x.kind = "symlink-to-exec"    -> "must"
           [] x.kind = "symlink-to-nonexec" -> "mustnot"     \* nothing can be executed there
           [] x.kind = "symlink-dangling"   -> "mustnot"
           [] x.kind = "symlink-to-dir"     -> "mustnot"
           [] OTHER                         -> "mustnot"
Init == /\ e \in {x \in Cases : x.kind = "regular" \/ x.mode = "0755"}
        /\ IF EmitEdges THEN PrintT(ToJson([case |-> e, started |-> Started(e)])) ELSE TRUE
Next == UNCHANGED e
Spec == Init /\ [][Next]_e
NothingFromUnsafeDir == WorldWritable(e.dirmode) => Started(e) = "mustnot"
=============================================================================
