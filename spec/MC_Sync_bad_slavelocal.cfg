\* a slave doing LOCAL upgrades writes into a directory rsync owns
SPECIFICATION Spec
CONSTANTS
    Users <- MCUsers
    Pws <- MCPws
    NSets = 2
    SlaveMode = "local"
    Rollout = "slaves-first"
    Retire = "safe"
    QuickCheck = FALSE
    Coarse = FALSE
    InitDef = 1
    MaxOps = 3
    Depth = 0
INVARIANTS CleanFilesEqual
CHECK_DEADLOCK FALSE
