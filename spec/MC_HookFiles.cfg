SPECIFICATION Spec
CONSTANTS EmitEdges = TRUE
INVARIANTS NothingFromUnsafeDir
CHECK_DEADLOCK FALSE
