SPECIFICATION TraceSpec
CONSTANTS TraceFile = "trace.ndjson"
CONSTRAINT TraceConstraint
INVARIANTS CrashAtomic NoVisibleBeforeDurable AckDurableT FailureChangesNothing TmpEmptyAfterOp OnlyOwnPaths
POSTCONDITION TraceAccepted
CHECK_DEADLOCK FALSE
