------------------------------- MODULE WebApi -------------------------------
(***************************************************************************)
(* Authorisation matrix of the HTTP API (cmd/whawty-auth/web_api.go).      *)
(*                                                                         *)
(* A request = endpoint x session credential x old-password credential x   *)
(* target x body shape.  Outcome(..) says what the property C06 demands:   *)
(* whether the request may take effect, whether a user list may be         *)
(* disclosed, and the store afterwards.  Every (state, request) edge is    *)
(* printed and executed against the real handler mux on top of the real    *)
(* dispatcher, with real tokens (logins, a demoted administrator's token,  *)
(* expired / tampered / other-instance / garbage tokens).                  *)
(***************************************************************************)
EXTENDS Naturals, FiniteSets, TLC, Json

CONSTANTS MaxDepth, EmitEdges

VARIABLES users, depth, last
vars == <<users, depth, last>>
View == <<users, depth>>

\* who is who at the beginning ("Alice" is an administrator whose name differs from "alice" only by case)
Names    == {"alice", "bob", "Alice", "eve", "ghost"}
Targets  == Names \cup {"../evil"}                    \* plus a name outside the grammar
InitUsers == [n \in Names |->
    CASE n = "alice" -> [present |-> TRUE,  adm |-> FALSE, pw |-> "pw-alice"]
      [] n = "bob"   -> [present |-> TRUE,  adm |-> FALSE, pw |-> "pw-bob"]
      [] n = "Alice"  -> [present |-> TRUE,  adm |-> TRUE,  pw |-> "pw-Alice"]
      [] n = "eve"   -> [present |-> TRUE,  adm |-> FALSE, pw |-> "pw-eve"]   \* was admin when her token was issued
      [] n = "ghost" -> [present |-> FALSE, adm |-> FALSE, pw |-> ""]]

\* session credentials: valid tokens by owner, and the ways a token can be invalid
ValidSess   == {"tok-alice", "tok-bob", "tok-Alice", "tok-eve-staleadmin"}
InvalidSess == {"garbage", "expired", "tampered", "other-instance", "future",
                "expired-after-use"}     \* an administrator's token that was presented (and accepted) while it was valid and has expired since
Sess        == {"none"} \cup ValidSess \cup InvalidSess
OldPw       == {"none", "right", "wrong"}
Endpoints   == {"add", "remove", "set-admin", "list", "list-full", "update", "authenticate"}
\* "missing-cred": the credential members (session, oldpassword, password) are absent from the JSON document altogether - sent
\* right after a request of the same endpoint that carried an administrator's credentials (a recycled request object must not
\* remember them)
Bodies      == {"ok", "empty-user", "empty-pw", "malformed", "wrongtype", "extra-field", "missing-cred"}

Owner(s) == CASE s = "tok-alice" -> "alice" [] s = "tok-bob" -> "bob" [] s = "tok-Alice" -> "Alice"
              [] s = "tok-eve-staleadmin" -> "eve" [] OTHER -> ""
\* the admin flag a token carries is the status at login time
TokAdmin(s) == s \in {"tok-Alice", "tok-eve-staleadmin"}

Known(t) == t \in Names /\ users[t].present

\* sequential store semantics (module Store, supported files only)
Apply(ep, t, adm) ==
    CASE ep = "add"       -> IF t \in Names /\ ~users[t].present
                             THEN [ok |-> TRUE, users |-> [users EXCEPT ![t] = [present |-> TRUE, adm |-> adm, pw |-> "pw-new"]]]
                             ELSE [ok |-> FALSE, users |-> users]
      [] ep = "remove"    -> [ok |-> TRUE, users |-> IF t \in Names THEN [users EXCEPT ![t] = [present |-> FALSE, adm |-> FALSE, pw |-> ""]] ELSE users]
      [] ep = "set-admin" -> IF Known(t) THEN [ok |-> TRUE, users |-> [users EXCEPT ![t].adm = adm]]
                             ELSE [ok |-> FALSE, users |-> users]
      [] ep = "update"    -> IF Known(t) THEN [ok |-> TRUE, users |-> [users EXCEPT ![t].pw = "pw-new"]]
                             ELSE [ok |-> FALSE, users |-> users]
      [] OTHER            -> [ok |-> TRUE, users |-> users]

Refused == [status |-> "refused", users |-> users, list |-> FALSE, token |-> ""]

(* What C06 demands of a request.                                          *)
Outcome(ep, s, o, t, b, adm) ==
    IF b \in {"malformed", "wrongtype", "empty-user", "missing-cred"} THEN Refused
    ELSE IF ep = "authenticate" THEN
        IF b = "empty-pw" \/ o # "right" \/ ~Known(t) THEN Refused
        ELSE [status |-> "ok", users |-> users, list |-> FALSE, token |-> t]
    ELSE IF ep \in {"add", "remove", "set-admin", "list", "list-full"} THEN
        IF s \notin ValidSess \/ ~TokAdmin(s) \/ (ep = "add" /\ b = "empty-pw") THEN Refused
        ELSE LET r == Apply(ep, t, adm) IN
             IF r.ok THEN [status |-> "ok", users |-> r.users, list |-> ep \in {"list", "list-full"}, token |-> ""]
             ELSE Refused
    ELSE \* update
        IF s # "none" /\ o = "none" THEN
            IF b = "empty-pw" \/ s \notin ValidSess \/ ~(TokAdmin(s) \/ Owner(s) = t) THEN Refused
            ELSE LET r == Apply("update", t, FALSE) IN
                 IF r.ok THEN [status |-> "ok", users |-> r.users, list |-> FALSE, token |-> ""] ELSE Refused
        ELSE IF s = "none" /\ o # "none" THEN
            IF o # "right" \/ ~Known(t) THEN Refused
            ELSE IF b = "empty-pw" THEN [status |-> "ok", users |-> users, list |-> FALSE, token |-> ""]
            ELSE [status |-> "ok", users |-> Apply("update", t, FALSE).users, list |-> FALSE, token |-> ""]
        ELSE Refused        \* both or neither credential

Emit(e) == IF EmitEdges THEN PrintT(ToJson(e)) ELSE TRUE

Request(ep, s, o, t, b, adm) ==
    \* prune combinations that do not exist on the wire
    /\ ep # "update" /\ ep # "authenticate" => o = "none"
    /\ ep = "authenticate" => (s = "none" /\ o # "none")
    /\ ep \in {"list", "list-full"} => (t = "alice" /\ b \in {"ok", "malformed", "wrongtype", "extra-field", "missing-cred"})
    /\ ep \notin {"add", "set-admin"} => adm = FALSE
    /\ ep \notin {"add", "update", "authenticate"} => b # "empty-pw"
    /\ b = "missing-cred" => (s = "none" /\ o = (IF ep = "authenticate" THEN "right" ELSE "none"))
    /\ LET out == Outcome(ep, s, o, t, b, adm) IN
       /\ users' = out.users
       /\ depth' = IF out.users # users THEN depth + 1 ELSE depth
       /\ depth' <= MaxDepth
       /\ last' = [ep |-> ep, s |-> s, o |-> o, t |-> t, b |-> b, status |-> out.status, list |-> out.list]
       /\ Emit([ep |-> ep, sess |-> s, oldpw |-> o, target |-> t, body |-> b, adm |-> adm, pre |-> users,
                post |-> out.users, status |-> out.status, list |-> out.list, token |-> out.token])

Next == \E ep \in Endpoints, s \in Sess, o \in OldPw, t \in Targets, b \in Bodies, adm \in BOOLEAN :
            Request(ep, s, o, t, b, adm)

Init == users = InitUsers /\ depth = 0
        /\ last = [ep |-> "", s |-> "", o |-> "", t |-> "", b |-> "", status |-> "", list |-> FALSE]
Spec == Init /\ [][Next]_vars

-----------------------------------------------------------------------------
(* C06 *)
\* a management action takes effect only with a valid admin token (or, for update, self token / right old password)
EffectOnlyIfAuthorised ==
    [][users' # users =>
          \/ (last'.s \in ValidSess /\ TokAdmin(last'.s))
          \/ (last'.ep = "update" /\ last'.s \in ValidSess /\ Owner(last'.s) = last'.t /\ last'.o = "none")
          \/ (last'.ep = "update" /\ last'.s = "none" /\ last'.o = "right")]_vars
RefusedChangesNothing == [][last'.status = "refused" => users' = users]_vars
NoListDisclosure == [][last'.list => (last'.status = "ok" /\ last'.s \in ValidSess /\ TokAdmin(last'.s))]_vars
NeverBothCredentials == [][(last'.s # "none" /\ last'.o # "none" /\ last'.ep = "update") => last'.status = "refused"]_vars
InvalidTokenNeverWorks == [][last'.s \in InvalidSess => (last'.status = "refused" /\ users' = users)]_vars
=============================================================================
