------------------------------- MODULE PosixFS -------------------------------
(***************************************************************************)
(* The file-system level of one store operation on one user: a volatile    *)
(* and a durable layer, system calls as actions, process kill and power    *)
(* loss as derived views, and the crash / durability properties C08, C09.  *)
(*                                                                         *)
(* Persistence model (the standard one): file data written to an inode is  *)
(* durable only after fsync of that inode - before, any torn prefix may be *)
(* what survives; a change of a directory entry of the base directory is   *)
(* durable only after fsync of the base directory - before, any subset of  *)
(* the pending entry operations may be lost; rename is atomic.  Entries of *)
(* the work area .tmp are never made durable by the code and a leftover    *)
(* temporary file is permitted residue, so they are tracked volatile only. *)
(*                                                                         *)
(* Names: "F" = <base>/<user>.<ext> (the target file), "G" = the same user *)
(* with the other extension, "T" = the temporary file in <base>/.tmp.      *)
(* File contents are classes:                                              *)
(*    "old"   the complete previous record with all its auxiliary lines    *)
(*    "new"   the complete new record line plus all auxiliary lines        *)
(*    "empty" zero bytes (the O_EXCL reservation of add)                   *)
(*    "torn"  anything else: partial line, or line with incomplete aux     *)
(* The module is used by StoreFS (the code's protocol, exhaustively) and   *)
(* by TracePosixFS (system calls observed with strace on the real code).   *)
(***************************************************************************)
EXTENDS Naturals, Sequences, FiniteSets, TLC

VARIABLES
    ctx,       \* the operation under way: [op |-> "add"|"update"|"setadmin"|"remove"|"noop",
               \*   hadOld |-> the user existed under name F before, hasAux |-> its record has aux lines]
    vdir,      \* volatile directory: [{"F","G","T"} -> inode | 0]
    ddir,      \* durable base directory: [{"F","G"} -> inode | 0]
    pend,      \* pending (not yet durable) operations on base-directory entries, oldest first
    vdata,     \* [inode -> content class] as seen by readers
    ddata,     \* [inode -> content class] guaranteed on disk
    nextIno,
    ret,       \* "none" | "ok" | "fail": what the operation reported
    foreign    \* a system call touched something that is not F, G, .tmp or the base dir itself

fsvars == <<ctx, vdir, ddir, pend, vdata, ddata, nextIno, ret, foreign>>

OldIno == 1
Inodes == 1..6

FsInit(c) ==
    /\ ctx = c
    /\ vdir = [n \in {"F", "G", "T"} |-> IF n = "F" /\ ctx.hadOld THEN OldIno ELSE 0]
    /\ ddir = [n \in {"F", "G"} |-> IF n = "F" /\ ctx.hadOld THEN OldIno ELSE 0]
    /\ pend = <<>>
    /\ vdata = [i \in Inodes |-> IF i = OldIno THEN "old" ELSE "empty"]
    /\ ddata = [i \in Inodes |-> IF i = OldIno THEN "old" ELSE "empty"]
    /\ nextIno = 2
    /\ ret = "none"
    /\ foreign = FALSE

-----------------------------------------------------------------------------
(* System calls (successful ones change state; a failing call changes      *)
(* nothing and is a stuttering step of this module)                        *)

\* open(F, O_CREAT|O_EXCL): reserve the final name with an empty file
SysCreatFinal(n) ==
    /\ n \in {"F", "G"} /\ vdir[n] = 0
    /\ vdir' = [vdir EXCEPT ![n] = nextIno]
    /\ pend' = Append(pend, [k |-> "set", n |-> n, m |-> n, i |-> nextIno])
    /\ vdata' = [vdata EXCEPT ![nextIno] = "empty"]
    /\ ddata' = [ddata EXCEPT ![nextIno] = "empty"]
    /\ nextIno' = nextIno + 1
    /\ UNCHANGED <<ctx, ddir, ret, foreign>>

\* CreateTemp in .tmp
SysCreatTmp ==
    /\ vdir["T"] = 0
    /\ vdir' = [vdir EXCEPT !["T"] = nextIno]
    /\ vdata' = [vdata EXCEPT ![nextIno] = "empty"]
    /\ ddata' = [ddata EXCEPT ![nextIno] = "empty"]
    /\ nextIno' = nextIno + 1
    /\ UNCHANGED <<ctx, ddir, pend, ret, foreign>>

\* write / copy_file_range into an open file; `cls` is the content class reached
SysWrite(n, cls) ==
    /\ vdir[n] # 0
    /\ vdata' = [vdata EXCEPT ![vdir[n]] = cls]
    /\ UNCHANGED <<ctx, vdir, ddir, pend, ddata, nextIno, ret, foreign>>

SysFsync(n) ==
    /\ vdir[n] # 0
    /\ ddata' = [ddata EXCEPT ![vdir[n]] = vdata[vdir[n]]]
    /\ UNCHANGED <<ctx, vdir, ddir, pend, vdata, nextIno, ret, foreign>>

\* rename(a, b): atomic; only the destination entry in the base directory matters for durability
SysRename(a, b) ==
    /\ vdir[a] # 0 /\ b \in {"F", "G"}
    /\ vdir' = [vdir EXCEPT ![b] = vdir[a], ![a] = 0]
    /\ pend' = Append(pend, [k |-> IF a = "T" THEN "set" ELSE "move", n |-> b, m |-> a, i |-> vdir[a]])
    /\ UNCHANGED <<ctx, ddir, vdata, ddata, nextIno, ret, foreign>>

\* link(a, b): a second name for the same inode (a set-admin done as link + unlink instead of rename)
SysLink(a, b) ==
    /\ vdir[a] # 0 /\ b \in {"F", "G"} /\ vdir[b] = 0
    /\ vdir' = [vdir EXCEPT ![b] = vdir[a]]
    /\ pend' = Append(pend, [k |-> "set", n |-> b, m |-> a, i |-> vdir[a]])
    /\ UNCHANGED <<ctx, ddir, vdata, ddata, nextIno, ret, foreign>>

SysUnlink(n) ==
    /\ vdir[n] # 0
    /\ vdir' = [vdir EXCEPT ![n] = 0]
    /\ pend' = IF n = "T" THEN pend ELSE Append(pend, [k |-> "del", n |-> n, m |-> n, i |-> 0])
    /\ UNCHANGED <<ctx, ddir, vdata, ddata, nextIno, ret, foreign>>

ApplyOp(d, o) ==
    CASE o.k = "set"  -> [d EXCEPT ![o.n] = o.i]
      [] o.k = "del"  -> [d EXCEPT ![o.n] = 0]
      [] o.k = "move" -> [d EXCEPT ![o.n] = o.i, ![o.m] = 0]

RECURSIVE ApplyAll(_, _)
ApplyAll(d, ops) == IF ops = <<>> THEN d ELSE ApplyAll(ApplyOp(d, Head(ops)), Tail(ops))

\* fsync of the base directory: every pending entry operation becomes durable
SysFsyncDir ==
    /\ ddir' = ApplyAll(ddir, pend)
    /\ pend' = <<>>
    /\ UNCHANGED <<ctx, vdir, vdata, ddata, nextIno, ret, foreign>>

SysForeign ==
    /\ foreign' = TRUE
    /\ UNCHANGED <<ctx, vdir, ddir, pend, vdata, ddata, nextIno, ret>>

Return(r) ==
    /\ ret = "none" /\ ret' = r
    /\ UNCHANGED <<ctx, vdir, ddir, pend, vdata, ddata, nextIno, foreign>>

-----------------------------------------------------------------------------
(* Crash views.  A view is what a fresh process finds for the user:        *)
(* [F |-> content class or "absent", G |-> ...]                            *)

KillView == [n \in {"F", "G"} |-> IF vdir[n] = 0 THEN "absent" ELSE vdata[vdir[n]]]

\* sub-sequences of the pending operations that survive a power loss (order kept)
Masks == [1..Len(pend) -> BOOLEAN]
Kept(m) == LET idx == {i \in 1..Len(pend) : m[i]}
               RECURSIVE Build(_)
               Build(i) == IF i > Len(pend) THEN <<>>
                           ELSE IF i \in idx THEN <<pend[i]>> \o Build(i + 1) ELSE Build(i + 1)
           IN Build(1)

\* what power loss may leave in an inode
Survives(i) == IF ddata[i] = vdata[i] THEN {vdata[i]} ELSE {ddata[i], vdata[i], "torn"}

Classes == {"absent", "old", "new", "empty", "torn"}
PowerLossViews ==
    UNION { LET d == ApplyAll(ddir, Kept(m))
            IN  { v \in [{"F", "G"} -> Classes] :
                    \A n \in {"F", "G"} : IF d[n] = 0 THEN v[n] = "absent" ELSE v[n] \in Survives(d[n]) }
          : m \in Masks }

AllCrashViews == {KillView} \cup PowerLossViews

-----------------------------------------------------------------------------
(* C08: after a crash at any instant each hash file of the user is         *)
(* old-complete or new-complete (absent / empty reservation for add), and  *)
(* never both names exist with different stories.                          *)

GoodContent(c) ==
    \/ c \in {"old", "new"}
    \/ c = "absent" /\ (ctx.op \in {"add", "remove"} \/ ~ctx.hadOld)
    \/ c = "empty" /\ ctx.op = "add"

AtomicView(v) ==
    /\ \A n \in {"F", "G"} : v[n] = "absent" \/ GoodContent(v[n])
    \* the user is never lost by add/update/set-admin, and never has two files
    /\ (ctx.hadOld /\ ctx.op \in {"update", "setadmin"}) => (v["F"] # "absent" \/ v["G"] # "absent")
    /\ ~(v["F"] # "absent" /\ v["G"] # "absent")
    /\ ctx.op \in {"add", "update"} => v["G"] = "absent"

CrashAtomic == \A v \in AllCrashViews : AtomicView(v)

(* C09: a new record is never visible under a final name before its content is durable *)
NoVisibleBeforeDurable ==
    \A n \in {"F", "G"} : (vdir[n] # 0 /\ vdata[vdir[n]] \in {"new", "torn"}) => ddata[vdir[n]] = vdata[vdir[n]]

(* C09: once success is reported, every power-loss view shows the change   *)
Acked(v) ==
    CASE ctx.op \in {"add", "update"} -> v["F"] = "new"
      [] ctx.op = "setadmin"          -> (ctx.hadOld => (v["F"] = "absent" /\ v["G"] = "old"))
      [] ctx.op = "remove"            -> (v["F"] = "absent" /\ v["G"] = "absent")
      [] OTHER                        -> v["G"] = "absent" /\ v["F"] = (IF ctx.hadOld THEN "old" ELSE "absent")

AckDurable == ret = "ok" => \A v \in PowerLossViews : Acked(v)

(* C15: a reported failure leaves the store exactly as it was *)
Unchanged(v) == v["G"] = "absent" /\ v["F"] = (IF ctx.hadOld THEN "old" ELSE "absent")
FailureChangesNothing == ret = "fail" => Unchanged(KillView)

(* C16: the work area is empty after each completed operation *)
TmpEmptyAfterOp == ret # "none" => vdir["T"] = 0

(* C16: a completed operation (successful or not) never leaves two files for one user *)
OneFilePerUser == ret # "none" => ~(vdir["F"] # 0 /\ vdir["G"] # 0)

(* C16: whatever a completed add / update / set-admin reports, a user that had a record still has a whole one *)
(* (else a merely failed operation on the last administrator makes the directory fail the check)          *)
RecordSurvives == (ret # "none" /\ ctx.hadOld /\ ctx.op # "remove") =>
                     \E n \in {"F", "G"} : KillView[n] \in {"old", "new"}

(* C03 / C15: only the user's own files, .tmp and the base directory are touched *)
OnlyOwnPaths == ~foreign
=============================================================================
