SPECIFICATION Spec
CONSTANTS EmitEdges = TRUE
INVARIANTS OnlyLdapRewritesNames
CHECK_DEADLOCK FALSE
