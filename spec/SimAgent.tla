------------------------------ MODULE SimAgent ------------------------------
(***************************************************************************)
(* Behaviour generator for the replay binding: Agent plus a history        *)
(* variable holding the *steering steps* of the behaviour - client sends,  *)
(* dispatcher receives and upgrade sends - which is what the gates of the  *)
(* real dispatcher can force.  A receive is marked forced when exactly one *)
(* channel is ready; Go's select cannot be told which ready channel to     *)
(* pick, so after an unforced receive the real run may take another branch *)
(* of the model (it is judged by trace validation either way).  `tlc -simulate` prints the history of every behaviour *)
(* that ran to quiescence.                                                 *)
(***************************************************************************)
EXTENDS Agent, Json

CONSTANT MinSteps
VARIABLE hist
svars == <<vars, hist>>

OnlyReady(k) == \A o \in ChanNames \ {k} : chans[o] = <<>>

SimCore ==
    \/ \E c \in Clients, op \in Ops : ClientCall(c, op) /\ UNCHANGED hist
    \/ \E c \in Clients : /\ ClientSend(c)
                          /\ hist' = Append(hist, [t |-> "send", c |-> c, k |-> cl[c].op.k, u |-> cl[c].op.u,
                                                   p |-> cl[c].op.p, a |-> cl[c].op.a])
    \/ \E k \in ChanNames : DispRecv(k) /\ hist' = Append(hist, [t |-> "recv", k |-> k, forced |-> OnlyReady(k)])
    \/ DispUpgradeSend /\ hist' = Append(hist, [t |-> "upsend"])
    \/ (DispExec \/ DispNotify \/ DispReply \/ DispUpgradeDone \/ HooksRecv) /\ UNCHANGED hist
    \/ Terminated /\ UNCHANGED hist

SimNext == SimCore /\ UNCHANGED dflt

SimInit == Init /\ hist = <<>>
SimSpec == SimInit /\ [][SimNext]_svars

\* every state in which all issued calls have completed ends a replayable behaviour
Settled == /\ disp.pc = "idle" /\ \A k \in ChanNames : chans[k] = <<>>
           /\ \A c \in Clients : cl[c].pc = "idle"
PrintWhenQuiescent == (Settled /\ Len(hist) >= MinSteps) => PrintT(<<"H", ToJson(hist)>>)
=============================================================================
