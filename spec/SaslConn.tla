------------------------------ MODULE SaslConn ------------------------------
(***************************************************************************)
(* One saslauthd listener serving several connections (sasl/sasl.go):      *)
(* per connection the server reads and decodes one request (SaslCodec      *)
(* gives the meaning of the byte stream), calls the authentication         *)
(* callback at most once, writes one length-prefixed reply and closes.     *)
(* Clients send their stream in pieces and then half-close, close, or go   *)
(* silent.  The callback's outcome (verdict, message length class, error)  *)
(* is free.                                                                *)
(*                                                                         *)
(* ClipMessage is the design variant: TRUE = the reply message is cut so   *)
(* that the reply part never exceeds the 256-byte field limit of the       *)
(* bundled decoder (the code after the fix); FALSE = the message is sent   *)
(* as is (and a part over 65535 bytes cannot be encoded at all).           *)
(***************************************************************************)
EXTENDS Naturals, FiniteSets, TLC, Json

CONSTANTS Conns,
          StreamClasses,  \* what the client sends: "good" (complete request, maybe trailing bytes) | "bad" (anything else)
          Finishes,       \* how the client ends: "halfclose" | "close" | "silent"
          MsgClasses,     \* length class of the callback's message
          ClipMessage, EmitEdges

VARIABLES c    \* [Conns -> connection record]

MsgLen(m) == CASE m = "empty" -> 0 [] m = "short" -> 20 [] m = "253" -> 253 [] m = "254" -> 254
               [] m = "65532" -> 65532 [] m = "65533" -> 65533 [] m = "65600" -> 65600

CbOutcomes == [ok : BOOLEAN, msg : MsgClasses, err : BOOLEAN]

NewConn(sc, fin) == [pc |-> "reading", stream |-> sc, fin |-> fin, finished |-> FALSE,
                     cbCalls |-> 0, cb |-> [ok |-> FALSE, msg |-> "empty", err |-> FALSE],
                     replies |-> 0, word |-> "", partLen |-> 0, closed |-> FALSE, owner |-> ""]

Init == c \in [Conns -> {NewConn(sc, fin) : sc \in StreamClasses, fin \in Finishes}]

\* the client stops sending: a complete request is decodable without it, everything else only after it
ClientFinish(i) ==
    /\ ~c[i].finished /\ c[i].fin # "silent"
    /\ c' = [c EXCEPT ![i].finished = TRUE]

\* Request.Decode returns: successfully for a good stream at any time, with an error for a bad stream
\* once the client has finished (or, for over-limit fields, earlier - same outcome)
ServerDecode(i) ==
    /\ c[i].pc = "reading"
    /\ c[i].stream = "good" \/ c[i].finished
    /\ c' = [c EXCEPT ![i].pc = IF c[i].stream = "good" THEN "calling" ELSE "replying",
                      ![i].word = "NO", ![i].partLen = 2 + 1 + 30]     \* "Error decoding request: ..."

ServerCall(i, o) ==
    /\ c[i].pc = "calling" /\ o \in CbOutcomes
    /\ LET word == IF o.ok /\ ~o.err THEN "OK" ELSE "NO"
           mlen == IF o.err /\ o.msg = "empty" THEN 25 ELSE MsgLen(o.msg)   \* err.Error() replaces the message
           raw  == 2 + (IF mlen = 0 THEN 0 ELSE 1 + mlen)
           plen == IF ClipMessage /\ raw > 256 THEN 256 ELSE raw
       IN c' = [c EXCEPT ![i].pc = "replying", ![i].cbCalls = @ + 1, ![i].cb = o, ![i].owner = i,
                         ![i].word = word, ![i].partLen = plen]

\* encodeLengthEncodedStrings refuses parts over 65535 bytes: then nothing at all is written
ServerReply(i) ==
    /\ c[i].pc = "replying"
    /\ c' = [c EXCEPT ![i].pc = "closing", ![i].replies = IF c[i].partLen > 65535 THEN @ ELSE @ + 1]

ServerClose(i) ==
    /\ c[i].pc = "closing"
    /\ c' = [c EXCEPT ![i].pc = "closed", ![i].closed = TRUE]
    /\ IF EmitEdges
       THEN PrintT(ToJson([stream |-> c[i].stream, fin |-> c[i].fin, cb |-> c[i].cb, calls |-> c[i].cbCalls,
                           replies |-> c[i].replies, word |-> c[i].word, partlen |-> c[i].partLen]))
       ELSE TRUE

Done == (\A i \in Conns : c[i].closed \/ (c[i].fin = "silent" /\ c[i].stream = "bad")) /\ UNCHANGED c

Next == \/ \E i \in Conns : ClientFinish(i) \/ ServerDecode(i) \/ ServerReply(i) \/ ServerClose(i)
        \/ \E i \in Conns, o \in CbOutcomes : ServerCall(i, o)
        \/ Done

Spec == Init /\ [][Next]_c /\ \A i \in Conns : WF_c(ServerDecode(i) \/ ServerReply(i) \/ ServerClose(i))
                                               /\ WF_c(\E o \in CbOutcomes : ServerCall(i, o))
                                               /\ WF_c(ClientFinish(i))

-----------------------------------------------------------------------------
(* C05 *)
AtMostOneCallback     == \A i \in Conns : c[i].cbCalls <= 1
CallbackOnlyIfDecoded == \A i \in Conns : c[i].cbCalls = 1 => c[i].stream = "good"
PositiveOnlyIfApproved ==
    \A i \in Conns : (c[i].pc \in {"closing", "closed"} /\ c[i].word = "OK") =>
        (c[i].stream = "good" /\ c[i].cbCalls = 1 /\ c[i].cb.ok /\ ~c[i].cb.err)
ExactlyOneReplyThenClose == \A i \in Conns : c[i].closed => c[i].replies = 1
AtMostOneReply        == \A i \in Conns : c[i].replies <= 1
NoCrossTalk           == \A i \in Conns : c[i].cbCalls = 1 => c[i].owner = i
\* every reply is decodable by the bundled Go client (parts over 256 bytes are refused by its decoder)
ReplyDecodableByGoClient == \A i \in Conns : c[i].replies = 1 => c[i].partLen <= 256
\* the PAM module reads min(len, 256) bytes of the part and looks at its first two: any encodable part works
ReplyDecodableByPam   == \A i \in Conns : c[i].replies = 1 => c[i].partLen <= 65535
\* once the client has finished or closed its sending side the connection gets its reply and is closed
Answered == \A i \in Conns : (c[i].finished \/ c[i].stream = "good") ~> c[i].closed
=============================================================================
