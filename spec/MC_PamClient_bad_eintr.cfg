SPECIFICATION Spec
CONSTANTS
    Replies <- MCReplies
    Delays = {"none", "short", "long"}
    Prompts = {"fast", "slow"}
    Signals = {"none", "one", "stream"}
    OnEintr = "restart"
    DeadlineFrom = "io"
    EofCheck = "eof"
    WriteMode = "nosignal"
    EmitEdges = FALSE
INVARIANTS PamSuccessOnlyOnOK PamSuccessOnOK PamYieldsCode
PROPERTIES PamTerminates
