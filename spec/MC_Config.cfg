SPECIFICATION Spec
CONSTANTS EmitEdges = TRUE
INVARIANTS GoodAccepted UnknownKeysRefused
CHECK_DEADLOCK FALSE
