SPECIFICATION Spec
CONSTANTS
    T = 3
    MaxTime = 9
    MaxChanges = 4
    MaxReloads = 2
    Stores = {"A", "B"}
    Threshold = 2
    DrainNewStore = TRUE
    NewStoreSend = "block"
    NCap = 3
INVARIANTS NoChangeForgotten AtMostTwoRoundsPerInterval NoRoundWithoutNotification
PROPERTIES RoundCarriesCurrentStore 
CHECK_DEADLOCK FALSE
