----------------------------- MODULE PamClient -----------------------------
(***************************************************************************)
(* The PAM module (pam/pam_whawty.c) as a saslauthd client, against an     *)
(* arbitrary server.  The module connects, writes four length-prefixed     *)
(* parts (user and password clipped to 256 bytes, empty service and        *)
(* realm), reads a 2-byte length L, reads min(L,256) bytes and succeeds    *)
(* iff they begin with "OK".  Every read waits in select() for at most     *)
(* `timeout` seconds.                                                      *)
(*                                                                         *)
(* The server is the environment: unreachable, or it delivers the first    *)
(* `cut` bytes of some reply, possibly after a delay on either side of the *)
(* timeout, and then closes or goes silent.                                *)
(*                                                                         *)
(* EofCheck is the design variant for `read() == 0`:                       *)
(*   "stale-errno"  (nread == 0 && errno != EINTR) - the code before the   *)
(*                  fix: with errno == EINTR left over from earlier the    *)
(*                  loop never ends once the server has closed             *)
(*   "eof"          read() == 0 ends the read                              *)
(* WriteMode is the design variant for sending on a connection the server  *)
(* has already closed (a server that does not read the request):           *)
(*   "write"     plain write(): EPIPE comes with SIGPIPE, which kills a    *)
(*               host process that left the signal at its default          *)
(*   "nosignal"  send(..., MSG_NOSIGNAL): the call fails with EPIPE        *)
(***************************************************************************)
EXTENDS Naturals, FiniteSets, TLC, Json

CONSTANTS Replies,     \* set of [id, L (declared length), body (bytes that follow), ok (body begins with "OK")]
          Delays,      \* "none" | "short" (< timeout) | "long" (> timeout) before the server sends
          Prompts,     \* "fast" | "slow": the conversation (password prompt) answers at once / takes longer than the timeout
          DeadlineFrom,\* "io": the time limit applies to each wait on the socket (the code) | "init": one deadline armed before
                       \* the prompt - a slow conversation leaves a negative select timeout (EINVAL), the loop spins
          Signals,     \* "none" | "one" | "stream": handled signals delivered to the host process while the module waits in select()
          OnEintr,     \* "fail": an interrupted wait ends the exchange without success (the code) | "restart": wait again with the
                       \* full timeout - a stream of signals spaced closer than the timeout keeps the module waiting for ever
          EofCheck, WriteMode, EmitEdges

VARIABLES srv,    \* the server's script: [reachable, reply, cut, delay, after, staleErrno]
          pc, got, rc,
          sigs    \* signals delivered so far while waiting (0 or 1 matter)

vars == <<srv, pc, got, rc, sigs>>

Min(a, b) == IF a < b THEN a ELSE b
Need(r) == 2 + Min(r.L, 256)                     \* bytes the module wants to see
Total(r) == 2 + r.body
Cuts(r) == {k \in {0, 1, 2, 3, 4, Need(r) - 1, Need(r), Need(r) + 1, Total(r)} : k <= Total(r)}

Scripts == {[reachable |-> FALSE, reply |-> r, cut |-> 0, delay |-> "none", after |-> "close", staleErrno |-> e, reads |-> TRUE, prompt |-> "fast", signals |-> "none"]
                : r \in {CHOOSE x \in Replies : TRUE}, e \in BOOLEAN}
      \cup {[reachable |-> TRUE, reply |-> r, cut |-> k, delay |-> d, after |-> a, staleErrno |-> e, reads |-> TRUE, prompt |-> "fast", signals |-> "none"]
                : r \in Replies, k \in UNION {Cuts(x) : x \in Replies}, d \in Delays, a \in {"close", "stall"}, e \in BOOLEAN}
      \* the user takes longer over the password than the module's timeout (servers that answer without delay)
      \cup {[reachable |-> TRUE, reply |-> r, cut |-> k, delay |-> "none", after |-> a, staleErrno |-> FALSE, reads |-> TRUE, prompt |-> p, signals |-> "none"]
                : r \in Replies, k \in UNION {Cuts(x) : x \in Replies}, a \in {"close", "stall"}, p \in Prompts \ {"fast"}}
      \* a silent server (nothing, or only the length, then nothing more) while signals arrive in the host process
      \cup {[reachable |-> TRUE, reply |-> r, cut |-> k, delay |-> "none", after |-> "stall", staleErrno |-> FALSE, reads |-> TRUE, prompt |-> "fast", signals |-> g]
                : r \in {x \in Replies : x.id \in {"OK", "NO-msg"}}, k \in {0, 2}, g \in Signals \ {"none"}}
      \* a server that accepts, does not read the request, sends (part of) a negative reply or nothing, and closes
      \cup {[reachable |-> TRUE, reply |-> r, cut |-> k, delay |-> "none", after |-> "close", staleErrno |-> FALSE, reads |-> FALSE, prompt |-> "fast", signals |-> "none"]
                : r \in {x \in Replies : ~x.ok}, k \in UNION {Cuts(x) : x \in Replies}}

\* what the property demands
ExpectSuccess(s) == /\ s.reachable /\ s.cut <= Total(s.reply) /\ s.cut >= Need(s.reply)
                    /\ s.delay # "long" /\ s.reply.ok /\ s.reply.L >= 2

Init == /\ srv \in {s \in Scripts : s.cut \in Cuts(s.reply)}
        /\ pc = "connect" /\ got = 0 /\ rc = "none" /\ sigs = 0
        /\ IF EmitEdges THEN PrintT(ToJson([script |-> srv, success |-> ExpectSuccess(srv), need |-> Need(srv.reply)])) ELSE TRUE

Connect == /\ pc = "connect"
           /\ IF srv.reachable THEN pc' = "send" /\ UNCHANGED rc ELSE pc' = "done" /\ rc' = "unavail"
           /\ UNCHANGED <<srv, got, sigs>>
Send == /\ pc = "send"            \* the four parts (socket buffers absorb them) ...
        /\ ~(DeadlineFrom = "init" /\ srv.prompt = "slow")      \* (wrong design: the deadline has passed, select fails, the loop spins)
        /\ \/ pc' = "read" /\ UNCHANGED rc
           \* ... unless the server has closed without reading: a later part hits a closed connection
           \/ /\ ~srv.reads
              /\ pc' = "done" /\ rc' = IF WriteMode = "write" THEN "killed" ELSE "unavail"
        /\ UNCHANGED <<srv, got, sigs>>

\* one pass of the read loop: select, then read
Read ==
    /\ pc = "read"
    /\ LET want == IF got < 2 THEN 2 ELSE Need(srv.reply)
           avail == srv.cut - got
       IN IF srv.delay = "long" /\ got = 0 THEN pc' = "done" /\ rc' = "unavail" /\ UNCHANGED <<got, sigs>>        \* select timed out
          ELSE IF avail > 0 THEN
               /\ got' = Min(got + avail, want) /\ UNCHANGED <<rc, sigs>>
               /\ pc' = IF Min(got + avail, want) >= Need(srv.reply) /\ got + avail >= 2 THEN "compare" ELSE "read"
          ELSE IF srv.after = "stall" THEN
               \* the module sits in select(); a signal interrupts the wait (EINTR) before the timeout is over
               IF srv.signals = "none" \/ (srv.signals = "one" /\ sigs > 0) \/ OnEintr = "fail"
               THEN pc' = "done" /\ rc' = "unavail" /\ UNCHANGED <<got, sigs>>                          \* timed out / interrupted: no success
               ELSE sigs' = 1 /\ UNCHANGED <<pc, got, rc>>                                               \* waits again, full timeout
          ELSE \* the server has closed: read() returns 0
               IF EofCheck = "stale-errno" /\ srv.staleErrno
               THEN UNCHANGED <<pc, got, rc, sigs>>                                                     \* spins
               ELSE pc' = "done" /\ rc' = "unavail" /\ UNCHANGED <<got, sigs>>
    /\ UNCHANGED srv

Compare == /\ pc = "compare"
           /\ rc' = IF srv.reply.ok /\ srv.reply.L >= 2 THEN "success" ELSE "autherr"
           /\ pc' = "done" /\ UNCHANGED <<srv, got, sigs>>
Done == pc = "done" /\ UNCHANGED vars

Next == Connect \/ Send \/ Read \/ Compare \/ Done
Spec == Init /\ [][Next]_vars /\ WF_vars(Connect \/ Send \/ Compare)
             /\ SF_vars(Read /\ pc' # pc) /\ WF_vars(Read)

PamSuccessOnlyOnOK == rc = "success" => ExpectSuccess(srv)
PamSuccessOnOK     == (pc = "done" /\ ExpectSuccess(srv)) => rc = "success"
PamTerminates      == <>(pc = "done")
PamYieldsCode      == rc # "killed"          \* whatever the server does, the host process gets a PAM code
=============================================================================
