SPECIFICATION Spec
CONSTANTS
    Contexts <- MCContexts
    FsyncTmp = TRUE
    FsyncDirWrite = TRUE
    FsyncDirSetAdmin = TRUE
    FsyncDirRemove = TRUE
    WriteInPlace = TRUE
    CleanupReservation = TRUE
    MayFault = TRUE
    FaultAfterCommit = FALSE
INVARIANTS ReaderSeesWhole
CHECK_DEADLOCK FALSE
