SPECIFICATION Spec
CONSTANTS
    Contexts <- MCContexts
    FsyncTmp = FALSE
    FsyncDirWrite = TRUE
    FsyncDirSetAdmin = TRUE
    FsyncDirRemove = TRUE
    WriteInPlace = FALSE
    CleanupReservation = TRUE
    MayFault = TRUE
    FaultAfterCommit = FALSE
INVARIANTS CrashAtomic NoVisibleBeforeDurable AckDurableS FailureChangesNothing TmpEmptyAfterOp RecordSurvives OnlyOwnPaths ReaderSeesWhole
CHECK_DEADLOCK FALSE
