SPECIFICATION Spec
CONSTANTS FailFast = FALSE  EmitEdges = TRUE  Logins = TRUE
INVARIANTS TypeOK GoodListenersUnaffected ExitOnlyWhenNobodyServes SettledMatchesExpected AnswersOnlyFromServing OnlyLdapCutsNames
CHECK_DEADLOCK FALSE
