\* wrong design: one deadline for the whole exchange armed before the password prompt
SPECIFICATION Spec
CONSTANTS
    Replies <- MCReplies
    Delays = {"none", "short", "long"}
    Prompts = {"fast", "slow"}
    Signals = {"none", "one", "stream"}
    OnEintr = "fail"
    DeadlineFrom = "init"
    EofCheck = "eof"
    WriteMode = "nosignal"
    EmitEdges = FALSE
INVARIANTS PamSuccessOnlyOnOK PamSuccessOnOK PamYieldsCode
PROPERTIES PamTerminates
