\* invalid-name classes against a one-user store (names do not interact with the rest)
SPECIFICATION Spec
CONSTANTS
    Users = {"u1"}
    BadNames <- MCBadNames
    Pws = {"p1", "p2"}
    Sets = {1, 2}
    Algo <- MCAlgo
    KeyClass <- MCKeyClass
    AuxVals = {"none"}
    UnsupKinds = {"malformed"}
    Defaults = {1}
    EmitEdges = TRUE
VIEW View
INVARIANTS TypeOK AuthIffLastPw UnsupportedNeverAuth BadNameNeverAuth
PROPERTIES TargetOnly FailureChangesNothing ReadOnlyChangesNothing BadNameInert UnsupportedRules
CHECK_DEADLOCK FALSE
