------------------------------ MODULE Frontends ------------------------------
(***************************************************************************)
(* The authentication frontends of the agent (C04): what each transport    *)
(* does to the submitted credentials before the store sees them, and which *)
(* credentials are outside the transport's documented limits.  For every   *)
(* (transport, user-name class, password class) the module gives           *)
(*    name    "as-is" | "cut-at-@"   the name the store must be asked for  *)
(*    limits  "inside" | "outside"   outside = the transport may refuse    *)
(*                                   without consulting the store          *)
(* and C04 demands   accept <=> store accepts (name, exactly these password *)
(* bytes)  inside the limits, and  accept => store accepts  always.        *)
(* The replay harness instantiates the classes with real bytes, asks the   *)
(* library for the store's verdict on the same directory and submits the   *)
(* credentials to the running agent binary through each transport.         *)
(***************************************************************************)
EXTENDS Naturals, TLC, Json
CONSTANT EmitEdges
VARIABLE f

Transports == {"sasl", "basic", "json", "ldap", "cli"}
Users == {"existing", "existing-with-at", "nonexistent", "other-case", "padded-space", "trailing-newline", "empty",
          "len-249", "len-256", "len-257", "leading-dash"}
Pws   == {"right", "wrong", "empty", "right-plus-space", "right-minus-last", "case-flipped", "with-colons", "json-escapes-nonbmp",
          "len-255", "len-256", "len-257", "all-byte-values", "leading-dash", "other-users-password",
          "right-nul-tail"}          \* the right password followed by a NUL byte and more bytes (a C string would end at the NUL)
Cases == [transport : Transports, user : Users, pw : Pws]

NameRule(x) == IF x.transport = "ldap" THEN "cut-at-@" ELSE "as-is"

Outside(x) ==
    \/ x.user = "empty" \/ x.pw = "empty"                                            \* non-empty fields everywhere
    \/ (x.transport = "sasl" /\ (x.user = "len-257" \/ x.pw = "len-257"))           \* SASL fields at most 256 bytes
    \/ (x.transport = "cli" /\ (x.user = "leading-dash" \/ x.pw = "leading-dash")) \* parsed as options
    \/ (x.transport = "json" /\ x.pw = "all-byte-values")                           \* not expressible in JSON (invalid UTF-8)
    \/ (x.transport = "basic" /\ x.user = "trailing-newline")                       \* not expressible in a header
    \/ (x.transport = "cli" /\ x.pw = "all-byte-values")                            \* NUL cannot be passed in argv
    \/ (x.transport = "ldap" /\ x.pw = "all-byte-values")
    \/ (x.transport = "cli" /\ x.pw = "right-nul-tail")

Init == /\ f \in Cases
        /\ IF EmitEdges THEN PrintT(ToJson([case |-> f, name |-> NameRule(f), limits |-> IF Outside(f) THEN "outside" ELSE "inside"])) ELSE TRUE
Next == UNCHANGED f
Spec == Init /\ [][Next]_f
OnlyLdapRewritesNames == NameRule(f) = "cut-at-@" <=> f.transport = "ldap"
=============================================================================
