SPECIFICATION Spec
CONSTANTS EmitEdges = TRUE
INVARIANTS NothingOnInvalidStore NoFailingPasswordStored
CHECK_DEADLOCK FALSE
