---------------------------- MODULE MC_SaslCodec ----------------------------
EXTENDS SaslCodec

\* fields over base 3, limit 2: lengths 0, 1, 2 are fine, 3 (= <<1,0>>) and 8 (= <<2,2>>) are over the limit
FieldsD(D) == {<<0, 0>>} \cup {<<0, 1, b>> : b \in D} \cup {<<0, 2, b, c>> : b \in D, c \in D}
              \cup {<<1, 0>>, <<2, 2>>, <<1, 0, 1, 1, 1>>}   \* the last one: an over-limit field complete with its data
Prefixes(S) == UNION {{SubSeq(s, 1, n) : n \in 0..Len(s)} : s \in S}

\* requests: four fields; login / password with two data values, service / realm with one
Req4(D1, D2) == {a \o b \o c \o d : a \in FieldsD(D1), b \in FieldsD(D1), c \in FieldsD(D2), d \in FieldsD(D2)}
Trailing == {<<>>, <<0>>, <<0, 0>>, <<1, 1, 1>>, <<0, 1, 1>>}
GoodReq4(D1, D2) == {s \in Req4(D1, D2) : Expected(s).ok}

StreamsQuick    == Prefixes(Req4({1}, {1})) \cup {s \o t : s \in GoodReq4({1}, {1}), t \in Trailing}
StreamsThorough == Prefixes(Req4({0, 1}, {1})) \cup {s \o t : s \in GoodReq4({0, 1}, {1}), t \in Trailing}

\* responses: one field, every byte string up to length 7 over {0,1,2}
RECURSIVE Strings(_, _)
Strings(A, n) == IF n = 0 THEN {<<>>} ELSE LET S == Strings(A, n - 1) IN S \cup {Append(s, a) : s \in S, a \in A}
StreamsResp == Strings({0, 1, 2}, 7)
=============================================================================
