SPECIFICATION Spec
CONSTANTS TraceFile = "trace.ndjson"
CONSTRAINT TraceConstraint
INVARIANTS SaltsAreFresh
POSTCONDITION TraceAccepted
CHECK_DEADLOCK FALSE
