SPECIFICATION Spec
CONSTANTS
    Replies <- MCReplies
    Delays = {"none", "short", "long"}
    EofCheck = "eof"
    WriteMode = "nosignal"
    EmitEdges = TRUE
INVARIANTS PamSuccessOnlyOnOK PamSuccessOnOK PamYieldsCode
PROPERTIES PamTerminates
