SPECIFICATION Spec
CONSTANTS
    Replies <- MCReplies
    Delays = {"none", "short", "long"}
    Prompts = {"fast", "slow"}
    DeadlineFrom = "io"
    EofCheck = "eof"
    WriteMode = "nosignal"
    EmitEdges = TRUE
INVARIANTS PamSuccessOnlyOnOK PamSuccessOnOK PamYieldsCode
PROPERTIES PamTerminates
