SPECIFICATION Spec
CONSTANTS
    Replies <- MCReplies
    Delays = {"none", "short", "long"}
    EofCheck = "eof"
    EmitEdges = TRUE
INVARIANTS PamSuccessOnlyOnOK PamSuccessOnOK
PROPERTIES PamTerminates
