----------------------------- MODULE TraceHooks -----------------------------
(***************************************************************************)
(* Trace validation of the real hooks loop against module Hooks.  Events:  *)
(*   change s      the driver is about to send Notify for a change in s    *)
(*   reload s      the driver is about to send NewStore s                  *)
(*   hnotify p / htimer p / hnewstore s / hrun s p   verif hooks of the    *)
(*                 loop (p = pending counter before the arm's body)        *)
(*   end           the driver waited several rate-limit intervals          *)
(* Wall-clock time is not part of the trace: the timer arm may be taken    *)
(* whenever the timer is armed (the two-rounds-per-interval bound is       *)
(* checked on real time stamps by the driver).                             *)
(***************************************************************************)
EXTENDS Hooks, Json

CONSTANT TraceFile
VARIABLE l
TraceLog == ndJsonDeserialize(TraceFile)
tvars == <<vars, l>>
Ev == TraceLog[l]
IsEvent(e) == l <= Len(TraceLog) /\ Ev.ev = e /\ l' = l + 1
Line(i) == TraceLog[i]

TReset == /\ IsEvent("reset")
          /\ now' = 0 /\ pending' = 0 /\ timerAt' = 0 /\ nq' = <<>> /\ nsq' = <<>>
          /\ hookStore' = Ev.s /\ agentStore' = Ev.s /\ changes' = <<>> /\ uncovered' = {} /\ runs' = <<>> /\ nreload' = 0 /\ psend' = "" /\ sh' = <<Ev.s>>

TChange == /\ IsEvent("change") /\ Ev.s = agentStore
           /\ changes' = Append(changes, [t |-> now, store |-> agentStore, e |-> Len(sh)])
           /\ uncovered' = uncovered \cup {Len(changes) + 1}
           /\ nq' = Append(nq, Len(changes) + 1)
           /\ UNCHANGED <<now, pending, timerAt, nsq, hookStore, agentStore, runs, nreload, psend, sh>>

\* "reload s": the agent is about to switch to s; its blocking send of s to the loop completes later (TSend, not logged)
TReload == /\ IsEvent("reload") /\ psend = ""
           /\ agentStore' = Ev.s /\ psend' = Ev.s /\ sh' = Append(sh, Ev.s)
           /\ UNCHANGED <<now, pending, timerAt, nq, nsq, hookStore, changes, uncovered, runs, nreload>>
TSend == /\ psend # "" /\ nsq = <<>> /\ nsq' = <<psend>> /\ psend' = ""
         /\ UNCHANGED <<now, pending, timerAt, nq, hookStore, agentStore, changes, uncovered, runs, nreload, sh, l>>

\* a round = "hrun" line, optionally preceded by the drained "hnewstore" line
RoundLines(first) ==
    IF first <= Len(TraceLog) /\ Line(first).ev = "hnewstore"
    THEN /\ first + 1 <= Len(TraceLog) /\ Line(first + 1).ev = "hrun"
         /\ nsq # <<>> /\ Line(first).s = Head(nsq) /\ Line(first + 1).s = Head(nsq)
         /\ hookStore' = Head(nsq) /\ nsq' = <<>> /\ l' = first + 2
    ELSE /\ first <= Len(TraceLog) /\ Line(first).ev = "hrun"
         /\ DrainNewStore => nsq = <<>>            \* with the drain in place a pending new-store message is taken first
         /\ Line(first).s = hookStore
         /\ UNCHANGED <<hookStore, nsq>> /\ l' = first + 1

TNotify ==
    /\ l <= Len(TraceLog) /\ Ev.ev = "hnotify" /\ Ev.p = pending
    /\ nq # <<>> /\ nq' = Tail(nq)
    /\ IF pending = 0
       THEN /\ RoundLines(l + 1)
            /\ runs' = Append(runs, [t |-> now, store |-> hookStore'])
            /\ uncovered' = {} /\ timerAt' = 1
       ELSE UNCHANGED <<runs, uncovered, hookStore, nsq, timerAt>> /\ l' = l + 1
    /\ pending' = pending + 1
    /\ UNCHANGED <<now, agentStore, changes, nreload, psend, sh>>

TTimer ==
    /\ l <= Len(TraceLog) /\ Ev.ev = "htimer" /\ Ev.p = pending /\ timerAt # 0
    /\ IF pending > Threshold
       THEN /\ RoundLines(l + 1)
            /\ runs' = Append(runs, [t |-> now, store |-> hookStore'])
            /\ uncovered' = {}
       ELSE UNCHANGED <<runs, uncovered, hookStore, nsq>> /\ l' = l + 1
    /\ pending' = 0 /\ timerAt' = 0
    /\ UNCHANGED <<now, nq, agentStore, changes, nreload, psend, sh>>

TNewStore == /\ IsEvent("hnewstore") /\ nsq # <<>> /\ Ev.s = Head(nsq)
             /\ hookStore' = Head(nsq) /\ nsq' = <<>>
             /\ UNCHANGED <<now, pending, timerAt, nq, agentStore, changes, uncovered, runs, nreload, psend, sh>>

\* quiet for several intervals: everything has been delivered and every change has had its round
TEnd == /\ IsEvent("end") /\ nq = <<>> /\ nsq = <<>> /\ psend = "" /\ uncovered = {} /\ timerAt = 0
        /\ UNCHANGED vars

TraceNext == TReset \/ TChange \/ TReload \/ TSend \/ TNotify \/ TTimer \/ TNewStore \/ TEnd
TraceInit == Init /\ l = 1
TraceSpec == TraceInit /\ [][TraceNext]_tvars

HWM == IF TLCGet(0) < l THEN TLCSet(0, l) ELSE TRUE
TraceConstraint == HWM
TraceAccepted == LET n == TLCGet(0) IN PrintT(<<"HWM", n, Len(TraceLog)>>) /\ n = Len(TraceLog) + 1
ASSUME TLCSet(0, 0)
=============================================================================
