SPECIFICATION Spec
CONSTANTS
    Procs = {1, 2, 3}
    OpSets <- AllOps3
    Initials = {"absent", "user", "admin"}
    MayFault = FALSE
    Coarse = FALSE
    Serial = TRUE
INVARIANTS WholeFiles LoserHarmless OneFilePerUser NoStrayEmpty SomeOrderExplains
CHECK_DEADLOCK FALSE
