\* known hazard of the documented rsync command (outside the listed properties): with the quick check a password change made within the second of the previous, already copied write never reaches the slave
SPECIFICATION LiveSpec
CONSTANTS
    Users <- MCUsers1
    Pws <- MCPws
    NSets = 2
    SlaveMode = "remote"
    Rollout = "slaves-first"
    Retire = "never"
    QuickCheck = TRUE
    Coarse = FALSE
    InitDef = 2
    MaxOps = 3
    Depth = 0
PROPERTIES Converges
CHECK_DEADLOCK FALSE
