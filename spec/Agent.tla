------------------------------- MODULE Agent -------------------------------
(***************************************************************************)
(* The whawty-auth agent (cmd/whawty-auth/store.go): one dispatcher        *)
(* goroutine serving buffered request channels, blocking clients, the      *)
(* hash-upgrade path (off / local = the dispatcher's own update channel /  *)
(* remote = a second channel drained by an upgrader goroutine), the        *)
(* notification channel to the hooks goroutine, and the password policy.   *)
(*                                                                         *)
(* Written to be bound to the code: one action per blocking point of the   *)
(* dispatcher - receive, library call (the linearization point, logged by  *)
(* the verif hook "exec.*"), upgrade send, notify send, reply.             *)
(*                                                                         *)
(* Variant constants select the design:                                    *)
(*   UpgradeSend    "blocking"  s.upgradeChan <- req        (code before the fix)     *)
(*                  "drop"      select { case ch <- req: default: }                 *)
(*   UpgradeRecheck FALSE       an upgrade request is applied as a plain update    *)
(*                  TRUE        the request is applied only if its password still   *)
(*                              authenticates and the hash is still upgradeable     *)
(* The code as repaired is (drop, TRUE); TLC must refute C10 for           *)
(* "blocking" and C11 for FALSE (non-vacuity), and the counterexamples are *)
(* replayed against the real dispatcher as adversarial scenarios.          *)
(***************************************************************************)
EXTENDS Naturals, Sequences, FiniteSets, TLC

CONSTANTS
    Clients, Users, Pws, Sets,
    Default,          \* configured default parameter-set
    PolicyOK,         \* "user/password" pairs that satisfy the configured policy (zxcvbn looks at the user name too)
    Cap,              \* capacity of each request channel (10 in the code)
    NCap,             \* capacity of hooks.Notify (32 in the code)
    UCap, SemCap,     \* remote upgrader: channel capacity and semaphore (10 / 10 in the code)
    Mode,             \* "off" | "local" | "remote"
    UpgradeSend, UpgradeRecheck,
    UpgraderSem,      \* remote upgrader on a full semaphore: "drop" the request (code) | "block"
    Reloads,          \* default parameter sets the operator may switch to by a configuration reload (SIGHUP); {} = never
    IOFaults,         \* TRUE: a write may be refused by the library with an I/O error (full disk, unusable work area)
    CallerWait,       \* "forever": a caller waits for its answer as long as it takes (code) | "giveup": a caller may stop
                      \* waiting (a time limit on the call) although the reply goes to its own unbuffered response channel
    MaxCalls,         \* calls per client
    Kinds,            \* request kinds clients may issue
    InitFiles         \* initial directory

VARIABLES
    chans,     \* [Kinds' channels -> Seq(request)]
    disp,      \* dispatcher: [pc, req, res]
    files,     \* the store directory, [Users -> file]
    cl,        \* clients: [pc, op, n]
    notifyQ,   \* number of buffered notifications
    upq,       \* remote upgrade channel (sequence of requests)
    sem,       \* remote upgrader: running upload goroutines
    ack,       \* ghost: what the last acknowledged client write per user established
    owed,      \* ghost: successful writes whose notification has not been sent yet (C19)
    dflt       \* the default parameter set in use (Default at start; changed by a reload)

vars == <<chans, disp, files, cl, notifyQ, upq, sem, ack, owed, dflt>>

PolicyPass(u, p) == (u \o "/" \o p) \in PolicyOK

NoFile == [present |-> FALSE, pw |-> "", set |-> 0, adm |-> FALSE]
File(p, s, a) == [present |-> TRUE, pw |-> p, set |-> s, adm |-> a]

ChanNames == {"auth", "update", "add", "remove", "setadmin", "list"}

Ops ==   [k : {"auth"} \cap Kinds, u : Users, p : Pws, a : {FALSE}]
    \cup [k : {"update"} \cap Kinds, u : Users, p : Pws, a : {FALSE}]
    \cup [k : {"add"} \cap Kinds, u : Users, p : Pws, a : BOOLEAN]
    \cup [k : {"remove"} \cap Kinds, u : Users, p : {""}, a : {FALSE}]
    \cup [k : {"setadmin"} \cap Kinds, u : Users, p : {""}, a : BOOLEAN]
    \cup [k : {"list"} \cap Kinds, u : {""}, p : {""}, a : {FALSE}]

NoOp  == [k |-> "none", u |-> "", p |-> "", a |-> FALSE]
NoRes == [ok |-> FALSE, adm |-> FALSE, upg |-> FALSE, list |-> {}]
Idle  == [pc |-> "idle", req |-> [c |-> "none", op |-> NoOp], res |-> NoRes]

UpgradeClient == "upgrade"      \* requests without response channel

-----------------------------------------------------------------------------
(* Sequential semantics of the library call made for a request (module     *)
(* Store, restricted to supported files).                                  *)

AuthOK(fs, u, p) == fs[u].present /\ fs[u].pw = p

(* what the dispatcher re-validates before it executes a queued upgrade request: "full" = the password still     *)
(* authenticates and the record is still upgradeable (code), "setonly" = only the latter, "none" = nothing       *)
Recheck(fs, u, p) ==
    CASE UpgradeRecheck = "full"    -> AuthOK(fs, u, p) /\ fs[u].set # dflt
      [] UpgradeRecheck = "setonly" -> fs[u].present /\ fs[u].set # dflt
      [] OTHER                      -> TRUE

Exec(fs, op, isUpgrade) ==
    CASE op.k = "auth" ->
            [files |-> fs, mut |-> FALSE,
             res |-> [ok |-> AuthOK(fs, op.u, op.p), adm |-> AuthOK(fs, op.u, op.p) /\ fs[op.u].adm,
                      upg |-> AuthOK(fs, op.u, op.p) /\ fs[op.u].set # dflt, list |-> {}]]
      [] op.k = "update" ->
            IF /\ PolicyPass(op.u, op.p)
               /\ fs[op.u].present
               /\ isUpgrade => Recheck(fs, op.u, op.p)
            THEN [files |-> [fs EXCEPT ![op.u] = File(op.p, dflt, @.adm)], mut |-> TRUE,
                  res |-> [NoRes EXCEPT !.ok = TRUE]]
            ELSE [files |-> fs, mut |-> FALSE, res |-> NoRes]
      [] op.k = "add" ->
            IF PolicyPass(op.u, op.p) /\ ~fs[op.u].present
            THEN [files |-> [fs EXCEPT ![op.u] = File(op.p, dflt, op.a)], mut |-> TRUE,
                  res |-> [NoRes EXCEPT !.ok = TRUE]]
            ELSE [files |-> fs, mut |-> FALSE, res |-> NoRes]
      [] op.k = "remove" ->
            [files |-> [fs EXCEPT ![op.u] = NoFile], mut |-> TRUE, res |-> [NoRes EXCEPT !.ok = TRUE]]
      [] op.k = "setadmin" ->
            IF fs[op.u].present
            THEN [files |-> [fs EXCEPT ![op.u].adm = op.a], mut |-> TRUE, res |-> [NoRes EXCEPT !.ok = TRUE]]
            ELSE [files |-> fs, mut |-> FALSE, res |-> NoRes]
      [] op.k = "list" ->
            [files |-> fs, mut |-> FALSE,
             res |-> [NoRes EXCEPT !.ok = TRUE, !.list = {<<u, fs[u].adm>> : u \in {v \in Users : fs[v].present}}]]

-----------------------------------------------------------------------------
(* Clients: a blocking call = send on the channel (blocks while full),     *)
(* then receive on the private response channel.                           *)

ClientCall(c, op) ==
    /\ cl[c].pc = "idle" /\ cl[c].n < MaxCalls
    /\ cl' = [cl EXCEPT ![c] = [pc |-> "calling", op |-> op, n |-> @.n + 1]]
    /\ UNCHANGED <<chans, disp, files, notifyQ, upq, sem, ack, owed, dflt>>

ClientSend(c) ==
    /\ cl[c].pc = "calling"
    /\ Len(chans[cl[c].op.k]) < Cap
    /\ chans' = [chans EXCEPT ![cl[c].op.k] = Append(@, [c |-> c, op |-> cl[c].op])]
    /\ cl' = [cl EXCEPT ![c].pc = "waiting"]
    /\ UNCHANGED <<disp, files, notifyQ, upq, sem, ack, owed, dflt>>

-----------------------------------------------------------------------------
(* Dispatcher                                                              *)

DispRecv(k) ==
    /\ disp.pc = "idle" /\ chans[k] # <<>>
    /\ disp' = [pc |-> "exec", req |-> Head(chans[k]), res |-> NoRes]
    /\ chans' = [chans EXCEPT ![k] = Tail(@)]
    /\ UNCHANGED <<files, cl, notifyQ, upq, sem, ack, owed, dflt>>

IsWrite(op) == op.k \in {"update", "add", "remove", "setadmin"}

AckOf(fs, u) == IF fs[u].present THEN [k |-> "pw", pw |-> fs[u].pw, adm |-> fs[u].adm]
                                 ELSE [k |-> "gone", pw |-> "", adm |-> FALSE]

(* The library call: the linearization point of a request.  Shared with the  *)
(* trace specification (TraceAgent), which binds it to the "exec.*" events. *)
ExecStep(req) ==
    LET op == req.op
        up == req.c = UpgradeClient
        r  == Exec(files, op, up)
    IN /\ files' = r.files
       /\ owed' = IF r.mut THEN owed + 1 ELSE owed
       \* ghost: a client write that succeeds (re)defines what has been acknowledged for its user
       /\ ack' = IF IsWrite(op) /\ ~up /\ r.mut THEN [ack EXCEPT ![op.u] = AckOf(r.files, op.u)] ELSE ack
       /\ disp' = [req |-> req, res |-> r.res,
                   pc |-> IF op.k = "auth" /\ r.res.ok /\ r.res.upg /\ Mode # "off" THEN "upsend"
                          ELSE IF r.mut THEN "notify"
                          ELSE IF up THEN "done" ELSE "reply"]

(* The library reports an I/O failure for a write: nothing changes, nobody is notified, the caller    *)
(* (or, for an upgrade, nobody) gets the error.  Also shared with the trace specification.            *)
ExecStepIOFail(req) ==
    /\ IsWrite(req.op) /\ req.op.k # "remove"          \* RemoveUser reports nothing (known finding of C09)
    /\ UNCHANGED <<files, owed, ack>>
    /\ disp' = [req |-> req, res |-> NoRes, pc |-> IF req.c = UpgradeClient THEN "done" ELSE "reply"]

DispExec ==
    /\ disp.pc = "exec"
    /\ \/ ExecStep(disp.req)
       \/ IOFaults /\ ExecStepIOFail(disp.req)
    /\ UNCHANGED <<chans, cl, notifyQ, upq, sem, dflt>>

UpReq == [c |-> UpgradeClient, op |-> [k |-> "update", u |-> disp.req.op.u, p |-> disp.req.op.p, a |-> FALSE]]

(* local: the upgrade channel is the dispatcher's own update channel *)
DispUpgradeSend ==
    /\ disp.pc = "upsend"
    /\ IF Mode = "local"
       THEN /\ \/ /\ Len(chans["update"]) < Cap
                  /\ chans' = [chans EXCEPT !["update"] = Append(@, UpReq)]
               \/ /\ Len(chans["update"]) >= Cap /\ UpgradeSend = "drop"
                  /\ UNCHANGED chans
            /\ UNCHANGED upq
       ELSE /\ \/ /\ Len(upq) < UCap
                  /\ upq' = Append(upq, UpReq)
               \/ /\ Len(upq) >= UCap /\ UpgradeSend = "drop"
                  /\ UNCHANGED upq
            /\ UNCHANGED chans
    /\ disp' = [disp EXCEPT !.pc = "reply"]
    /\ UNCHANGED <<files, cl, notifyQ, sem, ack, owed, dflt>>

DispNotify ==
    /\ disp.pc = "notify"
    /\ notifyQ < NCap
    /\ notifyQ' = notifyQ + 1
    /\ owed > 0 /\ owed' = owed - 1
    /\ disp' = [disp EXCEPT !.pc = IF disp.req.c = UpgradeClient THEN "done" ELSE "reply"]
    /\ UNCHANGED <<chans, files, cl, upq, sem, ack, dflt>>

\* (wrong design "giveup": the caller has left, nobody will ever receive from the response channel - the send blocks for good)
ClientGiveUp(c) ==
    /\ CallerWait = "giveup" /\ cl[c].pc = "waiting"
    /\ cl' = [cl EXCEPT ![c] = [@ EXCEPT !.pc = "idle", !.op = NoOp]]
    /\ UNCHANGED <<chans, disp, files, notifyQ, upq, sem, ack, owed, dflt>>

DispReply ==
    /\ disp.pc = "reply"
    /\ CallerWait = "giveup" => cl[disp.req.c].pc = "waiting"
    /\ cl' = [cl EXCEPT ![disp.req.c] = [@ EXCEPT !.pc = "idle", !.op = NoOp]]
    /\ disp' = Idle
    /\ UNCHANGED <<chans, files, notifyQ, upq, sem, ack, owed, dflt>>

DispUpgradeDone ==
    /\ disp.pc = "done"
    /\ disp' = Idle
    /\ UNCHANGED <<chans, files, cl, notifyQ, upq, sem, ack, owed, dflt>>

-----------------------------------------------------------------------------
(* Hooks goroutine (module Hooks refines this) and remote upgrader         *)

HooksRecv ==
    /\ notifyQ > 0 /\ notifyQ' = notifyQ - 1
    /\ UNCHANGED <<chans, disp, files, cl, upq, sem, ack, owed, dflt>>

UpgraderRecv ==     \* the code never blocks here: it starts an upload or drops the request
    /\ upq # <<>> /\ upq' = Tail(upq)
    /\ UpgraderSem = "block" => sem < SemCap
    /\ sem' = IF sem < SemCap THEN sem + 1 ELSE sem
    /\ UNCHANGED <<chans, disp, files, cl, notifyQ, ack, owed, dflt>>

UploadDone ==       \* the master answered; no fairness: it may be unreachable or stalled forever
    /\ sem > 0 /\ sem' = sem - 1
    /\ UNCHANGED <<chans, disp, files, cl, notifyQ, upq, ack, owed, dflt>>

Quiescent ==
    /\ \A c \in Clients : cl[c].pc = "idle" /\ cl[c].n = MaxCalls
    /\ disp.pc = "idle" /\ \A k \in ChanNames : chans[k] = <<>>
    /\ upq = <<>> /\ notifyQ = 0

Terminated == Quiescent /\ sem = 0 /\ UNCHANGED vars

DispNext == (\E k \in ChanNames : DispRecv(k)) \/ DispExec \/ DispUpgradeSend \/ DispNotify
            \/ DispReply \/ DispUpgradeDone

(* SIGHUP: the dispatcher, between two requests, loads a configuration with another default parameter set. *)
(* Requests already queued - in particular upgrade requests - stay queued.                                 *)
DispReload(d) ==
    /\ disp.pc = "idle" /\ d \in Reloads /\ d # dflt
    /\ dflt' = d
    /\ UNCHANGED <<chans, disp, files, cl, notifyQ, upq, sem, ack, owed>>

CoreNext ==
    \/ \E c \in Clients, op \in Ops : ClientCall(c, op)
    \/ \E c \in Clients : ClientSend(c)
    \/ \E c \in Clients : ClientGiveUp(c)
    \/ DispNext \/ HooksRecv \/ UpgraderRecv \/ UploadDone

Next == \/ CoreNext
        \/ \E d \in Reloads : DispReload(d)
        \/ Terminated

Init ==
    /\ chans = [k \in ChanNames |-> <<>>]
    /\ disp = Idle
    /\ files = InitFiles
    /\ cl = [c \in Clients |-> [pc |-> "idle", op |-> NoOp, n |-> 0]]
    /\ notifyQ = 0 /\ upq = <<>> /\ sem = 0
    /\ ack = [u \in Users |-> AckOf(InitFiles, u)]
    /\ owed = 0
    /\ dflt = Default

Fairness == /\ WF_vars(DispNext) /\ WF_vars(HooksRecv) /\ WF_vars(UpgraderRecv)
            /\ \A c \in Clients : WF_vars(ClientSend(c))

Spec == Init /\ [][Next]_vars /\ Fairness

-----------------------------------------------------------------------------
(* Properties                                                              *)

TypeOK ==
    /\ \A k \in ChanNames : Len(chans[k]) <= Cap
    /\ notifyQ \in 0..NCap /\ Len(upq) <= UCap /\ sem \in 0..SemCap
    /\ disp.pc \in {"idle", "exec", "upsend", "notify", "reply", "done"}

(* C10: every call returns (deadlock freedom is checked by TLC itself)      *)
EveryCallReturns == \A c \in Clients : (cl[c].pc # "idle") ~> (cl[c].pc = "idle")
DispatcherNeverStuck == (disp.pc # "idle") ~> (disp.pc = "idle")

(* C11: what a client write established is never changed by anything but   *)
(* a later client write (in particular not by an internal upgrade)          *)
AckedNotUndone ==
    \A u \in Users :
        /\ ack[u].k = "pw"   => (files[u].present /\ files[u].pw = ack[u].pw /\ files[u].adm = ack[u].adm)
        /\ ack[u].k = "gone" => ~files[u].present

(* C12 *)
UpgradeKeepsPasswordAndAdmin ==
    [][(disp.pc = "exec" /\ disp.req.c = UpgradeClient) =>
          \A u \in Users : /\ files'[u].present = files[u].present
                           /\ files'[u].pw = files[u].pw /\ files'[u].adm = files[u].adm
                           /\ files'[u].set \in {files[u].set, dflt}]_vars
AuthNeverMutates ==
    [][(disp.pc = "exec" /\ disp.req.op.k \in {"auth", "list"}) => files' = files]_vars
NoUpgradeWhenOff == Mode = "off" =>
    /\ upq = <<>>
    /\ \A k \in ChanNames : \A i \in 1..Len(chans[k]) : chans[k][i].c # UpgradeClient
NumUp(ch) == Cardinality({i \in 1..Len(ch) : ch[i].c = UpgradeClient})
UpgradeOnlyAfterLogin ==   \* an upgrade request is only ever sent right after a successful login
    [][(NumUp(chans'["update"]) + Len(upq') > NumUp(chans["update"]) + Len(upq)) =>
          (disp.pc = "upsend" /\ disp.res.ok /\ disp.res.upg /\ Mode # "off")]_vars

(* C17: nothing is written with a password that fails the policy            *)
NoWriteWithoutPolicy ==
    [][\A u \in Users : (files'[u] # files[u] /\ files'[u].present /\ files'[u].pw # files[u].pw)
                            => PolicyPass(u, files'[u].pw)]_vars

(* C19 (agent side): exactly one notification per successful mutation       *)
NotifyMatchesMutations == owed \in {0, 1} /\ (owed = 1 <=> disp.pc = "notify")
NotifyAllWhenIdle == disp.pc = "idle" => owed = 0

(* C12 liveness: on an agent with no writers the upgrade does happen       *)
LoginConverges ==
    \A u \in Users : [](( /\ Mode = "local" /\ disp.pc = "upsend" /\ disp.req.op.u = u
                           /\ PolicyPass(u, disp.req.op.p)) => <>(files[u].set = dflt))
=============================================================================
