SPECIFICATION Spec
CONSTANTS
    Procs = {1, 2}
    OpSets <- AllOps2
    Initials = {"absent", "user", "admin"}
    MayFault = FALSE
    Coarse = TRUE
    Serial = FALSE
INVARIANTS WholeFiles TmpPrivate QuiescentWhole
CHECK_DEADLOCK FALSE
