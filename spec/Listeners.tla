------------------------------ MODULE Listeners ------------------------------
(***************************************************************************)
(* Life cycle of the agent process `whawty-auth run` (cmd/whawty-auth/     *)
(* main.go cmdRun): one goroutine per configured listener                  *)
(*    saslauthd sockets (any number), http, https, ldap, ldaps             *)
(* each of which binds its address, (for TLS kinds) builds its TLS         *)
(* configuration and then serves until its accept loop ends; the process   *)
(* waits for ALL goroutines and exits with status 0 when the last one has  *)
(* returned.  One action per blocking point of the code:                   *)
(*    Bind(l)      net.Listen / sasl.NewServer   (fails: address in use,   *)
(*                 socket directory missing) -> goroutine returns          *)
(*    TlsSetup(l)  config.TLS.ToGoTLSConfig()    (fails: certificate       *)
(*                 unreadable) -> goroutine returns, and the code does NOT *)
(*                 close the TCP listener it has already bound: the port   *)
(*                 stays open in the process, nobody accepts ("leaked")    *)
(*    Login(l,c)   one authentication through a serving listener           *)
(*    Exit         wg.Wait() returned                                      *)
(* The environment (which address can be bound, which certificate can be   *)
(* read) is chosen in the initial state; `Expected(env)` is the declarative*)
(* outcome the replay harness demands from the real binary started in that *)
(* environment, and the invariants tie it to the state machine.            *)
(* Variant FailFast = TRUE is the wrong design "one listener that cannot   *)
(* start stops the agent" (the others would stop answering): refuted.      *)
(***************************************************************************)
EXTENDS Naturals, FiniteSets, TLC, Json
CONSTANTS FailFast, EmitEdges, Logins
VARIABLES env, gor, sock, proc, out

Listeners == {"sasl1", "sasl2", "http", "https", "ldap", "ldaps"}
Tls(l)    == l \in {"https", "ldaps"}
Kind(l)   == IF l \in {"sasl1", "sasl2"} THEN "sasl" ELSE l
Envs      == {e \in [Listeners -> {"ok", "busy", "badtls"}] : \A l \in Listeners : e[l] = "badtls" => Tls(l)}

\* credentials as classes; the store knows user "u" (password "right") and nothing else
Creds == {"u/right", "u/wrong", "u@realm/right", "nobody/right"}
NameSeen(l, c)   == IF Kind(l) \in {"ldap", "ldaps"} /\ c = "u@realm/right" THEN "u" ELSE
                    CASE c = "u/right" -> "u" [] c = "u/wrong" -> "u" [] c = "u@realm/right" -> "u@realm" [] OTHER -> "nobody"
StoreVerdict(l, c) == NameSeen(l, c) = "u" /\ c # "u/wrong"

vars == <<env, gor, sock, proc, out>>

Expected(e) == [l \in Listeners |-> CASE e[l] = "ok" -> "serves" [] e[l] = "busy" -> "dead" [] OTHER -> "mute"]
Alive(e)    == \E l \in Listeners : e[l] = "ok"

Init == /\ env \in Envs
        /\ gor = [l \in Listeners |-> "bind"]
        /\ sock = [l \in Listeners |-> "none"]
        /\ proc = "running"
        /\ out = <<"none", "none", FALSE>>
        /\ IF EmitEdges THEN PrintT(ToJson([env |-> env, expected |-> Expected(env), alive |-> Alive(env),
                                            verdicts |-> [l \in Listeners |-> [c \in Creds |-> StoreVerdict(l, c)]]])) ELSE TRUE

Fail(l) == IF FailFast THEN proc' = "exited" ELSE UNCHANGED proc

Bind(l) == /\ proc = "running" /\ gor[l] = "bind"
           /\ IF env[l] = "busy"
                 THEN /\ gor' = [gor EXCEPT ![l] = "done"] /\ UNCHANGED sock /\ Fail(l)
                 ELSE /\ gor' = [gor EXCEPT ![l] = IF Tls(l) THEN "tls" ELSE "serve"]
                      /\ sock' = [sock EXCEPT ![l] = IF Tls(l) THEN "leaked" ELSE "accepting"]   \* bound, accept loop not yet running
                      /\ UNCHANGED proc
           /\ UNCHANGED <<env, out>>

TlsSetup(l) == /\ proc = "running" /\ gor[l] = "tls"
               /\ IF env[l] = "badtls"
                     THEN /\ gor' = [gor EXCEPT ![l] = "done"] /\ UNCHANGED sock /\ Fail(l)       \* listener never closed
                     ELSE /\ gor' = [gor EXCEPT ![l] = "serve"] /\ sock' = [sock EXCEPT ![l] = "accepting"] /\ UNCHANGED proc
               /\ UNCHANGED <<env, out>>

Login(l, c) == /\ Logins /\ proc = "running" /\ sock[l] = "accepting"
               /\ out' = <<l, c, StoreVerdict(l, c)>>
               /\ UNCHANGED <<env, gor, sock, proc>>

Exit == /\ proc = "running" /\ \A l \in Listeners : gor[l] = "done"
        /\ proc' = "exited" /\ UNCHANGED <<env, gor, sock, out>>

Next == \/ \E l \in Listeners : Bind(l) \/ TlsSetup(l) \/ \E c \in Creds : Login(l, c)
        \/ Exit
Spec == Init /\ [][Next]_vars /\ WF_<<env, gor, sock, proc>>(\E l \in Listeners : Bind(l) \/ TlsSetup(l)) /\ WF_vars(Exit)

Settled == \A l \in Listeners : gor[l] \in {"serve", "done"}

TypeOK == /\ env \in Envs /\ proc \in {"running", "exited"}
          /\ gor \in [Listeners -> {"bind", "tls", "serve", "done"}]
          /\ sock \in [Listeners -> {"none", "leaked", "accepting"}]

\* a listener whose environment is fine is never stopped by the trouble of another one
GoodListenersUnaffected == \A l \in Listeners : env[l] = "ok" /\ gor[l] = "serve" => proc = "running" /\ sock[l] = "accepting"
ExitOnlyWhenNobodyServes == proc = "exited" => ~Alive(env)
\* the state machine ends where the declarative outcome says
SettledMatchesExpected == Settled /\ proc = "running" =>
      \A l \in Listeners : CASE Expected(env)[l] = "serves" -> sock[l] = "accepting"
                             [] Expected(env)[l] = "dead"   -> sock[l] = "none"
                             [] OTHER                        -> sock[l] = "leaked"
\* nobody is ever answered by a listener that did not come up, and every answer is the store's
AnswersOnlyFromServing == out[1] # "none" => env[out[1]] = "ok" /\ out[3] = StoreVerdict(out[1], out[2])
OnlyLdapCutsNames == \A l \in Listeners : StoreVerdict(l, "u@realm/right") <=> Kind(l) \in {"ldap", "ldaps"}

ComesUp  == <>[](proc = "running" => \A l \in Listeners : env[l] = "ok" => sock[l] = "accepting")
GoesDown == ~Alive(env) => <>(proc = "exited")
=============================================================================
