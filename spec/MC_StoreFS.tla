----------------------------- MODULE MC_StoreFS -----------------------------
EXTENDS StoreFS
MCContexts ==
    {[op |-> "add",      hadOld |-> FALSE, hasAux |-> FALSE],
     [op |-> "add",      hadOld |-> TRUE,  hasAux |-> FALSE],
     [op |-> "update",   hadOld |-> TRUE,  hasAux |-> FALSE],
     [op |-> "update",   hadOld |-> TRUE,  hasAux |-> TRUE],
     [op |-> "update",   hadOld |-> FALSE, hasAux |-> FALSE],
     [op |-> "setadmin", hadOld |-> TRUE,  hasAux |-> FALSE],
     [op |-> "setadmin", hadOld |-> FALSE, hasAux |-> FALSE],
     [op |-> "remove",   hadOld |-> TRUE,  hasAux |-> FALSE],
     [op |-> "remove",   hadOld |-> FALSE, hasAux |-> FALSE]}
=============================================================================
