SPECIFICATION Spec
CONSTANTS EmitEdges = TRUE
INVARIANTS InvalidNeverAdmin InitImpliesEmpty
CHECK_DEADLOCK FALSE
