\* every interleaving of management, logins on both hosts, lossy forwarding, name-by-name rsync and reloads under the documented roll-out order
SPECIFICATION Spec
CONSTANTS
    Users <- MCUsers
    Pws <- MCPws
    NSets = 2
    SlaveMode = "remote"
    Rollout = "slaves-first"
    Retire = "safe"
    QuickCheck = FALSE
    Coarse = FALSE
    InitDef = 1
    MaxOps = 3
    Depth = 0
INVARIANTS TypeOK MasterTracksAck SlaveSound CleanFilesEqual SlaveAvailable MasterAvailable SlaveKnowsMasterSets
PROPERTIES SlaveOnlySynced UpgradeKeepsPassword
CHECK_DEADLOCK FALSE
