\* the hooks loop with a hooks directory that becomes unusable and is repaired (at most 2 switches)
SPECIFICATION SpecD
CONSTANTS
    T = 3
    MaxTime = 9
    MaxChanges = 4
    MaxReloads = 1
    Stores = {"A", "B"}
    Threshold = 1
    DrainNewStore = TRUE
    NewStoreSend = "block"
    NCap = 3
    ArmAlways = TRUE
    MaxSwitches = 2
INVARIANTS NoChangeForgotten AtMostTwoRoundsPerInterval NoRoundWithoutNotification StartedWithinRounds AlwaysUsableAllStarted
PROPERTIES EveryChangeCovered RoundStartsIffUsable
CHECK_DEADLOCK FALSE
