SPECIFICATION Spec
CONSTANTS
    Replies <- MCReplies
    Delays = {"none", "short", "long"}
    Prompts = {"fast", "slow"}
    Signals = {"none", "one", "stream"}
    OnEintr = "fail"
    DeadlineFrom = "io"
    EofCheck = "stale-errno"
    WriteMode = "nosignal"
    EmitEdges = FALSE
INVARIANTS PamSuccessOnlyOnOK PamSuccessOnOK PamYieldsCode
PROPERTIES PamTerminates
