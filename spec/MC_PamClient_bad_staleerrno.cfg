SPECIFICATION Spec
CONSTANTS
    Replies <- MCReplies
    Delays = {"none", "short", "long"}
    EofCheck = "stale-errno"
    EmitEdges = FALSE
INVARIANTS PamSuccessOnlyOnOK PamSuccessOnOK
PROPERTIES PamTerminates
