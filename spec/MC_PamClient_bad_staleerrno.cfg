SPECIFICATION Spec
CONSTANTS
    Replies <- MCReplies
    Delays = {"none", "short", "long"}
    EofCheck = "stale-errno"
    WriteMode = "nosignal"
    EmitEdges = FALSE
INVARIANTS PamSuccessOnlyOnOK PamSuccessOnOK PamYieldsCode
PROPERTIES PamTerminates
