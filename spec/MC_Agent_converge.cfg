\* C12 liveness: with no writers around, a successful login of an upgradeable user leads to the rewrite
SPECIFICATION Spec
CONSTANTS
    Clients = {"c1", "c2"}
    Users = {"u1"}
    Pws = {"p1", "p2"}
    Sets = {1, 2}
    Default = 2
    PolicyOK <- MCPolicyAll
    Cap = 2
    NCap = 2
    UCap = 2
    SemCap = 1
    Mode = "local"
    UpgradeSend = "drop"
    UpgraderSem = "drop"
    Reloads = {}
    IOFaults = FALSE
    CallerWait = "forever"
    UpgradeRecheck = "full"
    MaxCalls = 2
    Kinds = {"auth"}
    InitFiles <- MCInit1
INVARIANTS TypeOK AckedNotUndone
PROPERTIES LoginConverges EveryCallReturns UpgradeKeepsPasswordAndAdmin
