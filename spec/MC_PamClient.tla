---------------------------- MODULE MC_PamClient ----------------------------
EXTENDS PamClient
R(id, l, b, ok) == [id |-> id, L |-> l, body |-> b, ok |-> ok]
MCReplies == { R("OK", 2, 2, TRUE), R("OK-msg", 27, 27, TRUE), R("NO", 2, 2, FALSE), R("NO-msg", 20, 20, FALSE),
               R("O", 1, 1, FALSE), R("empty", 0, 0, FALSE), R("KO", 2, 2, FALSE), R("ok-lowercase", 2, 2, FALSE),
               R("OK-256", 256, 256, TRUE), R("OK-257", 257, 257, TRUE), R("NO-65535", 65535, 300, FALSE),
               R("OK-65535", 65535, 300, TRUE), R("OK-declared-longer", 10, 4, TRUE), R("OK-declared-shorter", 2, 9, TRUE),
               R("NO-then-OK", 2, 6, FALSE), R("len0-then-OK", 0, 2, FALSE), R("len1-O-then-K", 1, 2, FALSE) }
=============================================================================
