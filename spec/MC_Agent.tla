----------------------------- MODULE MC_Agent -----------------------------
EXTENDS Agent
\* u1 holds an upgradeable hash (set 1, default 2) for p1; u2 (if any) is up to date
MCInit1 == [u \in Users |-> IF u = "u1" THEN File("p1", 1, FALSE) ELSE File("p2", 2, TRUE)]
MCPolicyAll == {u \o "/" \o p : u \in Users, p \in Pws}
MCPolicyP1  == {u \o "/" \o "p1" : u \in Users}
=============================================================================
