\* every history of 5 successful management steps / logins on one user, 2 passwords (argon2id default: exact bytes)
INIT ExhInit
NEXT ExhNext
CONSTANTS
    Users = {"u1"}
    BadNames = {}
    Pws = {"p1", "p2"}
    Sets = {1, 2}
    Algo <- MCAlgo
    KeyClass <- MCKeyClass
    AuxVals = {"none"}
    UnsupKinds = {}
    Defaults = {2}
    EmitEdges = FALSE
    Depth = 5
INVARIANTS PrintAtDepth AuthIffLastPw
CHECK_DEADLOCK FALSE
