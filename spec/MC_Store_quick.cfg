\* exhaustive, every edge printed and replayed: 2 users (one name a dotted prefix of the other), 3 passwords (two key-equivalent
\* under scrypt), 2 parameter sets (scrypt, argon2id), both defaults
SPECIFICATION Spec
CONSTANTS
    Users = {"u1", "u1.b"}
    BadNames = {}
    Pws = {"p1", "p1z", "p2"}
    Sets = {1, 2}
    Algo <- MCAlgo
    KeyClass <- MCKeyClass
    AuxVals = {"none", "a1"}
    UnsupKinds = {"unkparam", "malformed"}
    Defaults = {1, 2}
    EmitEdges = TRUE
VIEW View
INVARIANTS TypeOK AuthIffLastPw ListExistsAgree UnsupportedNeverAuth BadNameNeverAuth
PROPERTIES TargetOnly FailureChangesNothing ReadOnlyChangesNothing BadNameInert UnsupportedRules
           ValidStaysValid WritesUseDefault UpdateKeepsAux SetAdminKeepsRecord
CHECK_DEADLOCK FALSE
