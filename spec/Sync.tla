-------------------------------- MODULE Sync --------------------------------
(***************************************************************************)
(* Two hosts: a MASTER agent (local upgrades, web API) and a SLAVE agent   *)
(* whose store directory is a copy of the master's, refreshed by           *)
(* `rsync -rlpt --delete master::store slave` (contrib/sync), and whose    *)
(* successful logins with an upgradeable hash are forwarded to the master  *)
(* as a web-API "update" carrying only the old password - which is a LOGIN *)
(* on the master that triggers the master's own local upgrade              *)
(* (cmd/whawty-auth/store.go remoteHTTPUpgrade, web_api.go handleWebUpdate)*)
(*                                                                         *)
(* Grain: one step per FILE NAME.  A user is two possible names            *)
(* (<u>.user, <u>.admin); store/userhash.go Exists() looks at .admin first,*)
(* so with both names present the .admin file decides ("Eff").  rsync      *)
(* refreshes name by name (temp file + rename, or unlink), in no           *)
(* particular order, while both agents keep serving - so the slave         *)
(* directory is in general NOT a snapshot of the master.  Operations of    *)
(* one agent are atomic here; their internal interleavings are the         *)
(* business of Agent.tla / StoreFS.tla / TwoWriters.tla.                   *)
(*                                                                         *)
(* Configuration roll-out (contrib/sync/README.md "Add a new               *)
(* parameter-set"): new sets are added on the slaves first, then on the    *)
(* master; unused sets are retired.  Rollout / Retire select the protocol; *)
(* the wrong orders are kept as variants TLC must refute.                  *)
(*                                                                         *)
(* What holds (MC_Sync_*.cfg):                                             *)
(*   MasterTracksAck   the master's verdict is that of its last            *)
(*                     acknowledged write; remote upgrades never change a  *)
(*                     password or an admin flag              (C01, C12)   *)
(*   SlaveSound        whatever authenticates on the slave was once        *)
(*                     acknowledged by the master for that user   (C01)    *)
(*   SlaveOnlySynced   in remote / off mode the slave's agent never        *)
(*                     writes its directory                        (C12)   *)
(*   CleanFilesEqual   a name not changed on the master since it was last  *)
(*                     copied is identical on both hosts                   *)
(*   SlaveAvailable    under the documented roll-out order no record on    *)
(*                     the slave names a set the slave does not know (C02: *)
(*                     such a record never authenticates)                  *)
(*   Converges         if users keep logging in on the slave, rsync keeps  *)
(*                     running and requests are not lost forever, every    *)
(*                     record ends up under the master's default on both   *)
(*                     hosts                                       (C12)   *)
(* Refuted variants: master-first roll-out, early retirement (both break   *)
(* SlaveAvailable), a slave doing LOCAL upgrades (breaks CleanFilesEqual   *)
(* and Converges: rsync and the slave undo each other for ever).           *)
(*                                                                         *)
(* Generator mode (Coarse): a forwarded upgrade is delivered within the    *)
(* login step; `tlc -simulate` prints whole histories, which the harness   *)
(* replays on two real agents in one process with real rsync runs          *)
(* restricted to one name each (--include <name> --exclude '*').           *)
(***************************************************************************)
EXTENDS Naturals, FiniteSets, Sequences, TLC, Json

CONSTANTS Users, Pws, NSets,
          SlaveMode,   \* "remote" | "off" | "local"
          Rollout,     \* "slaves-first" | "free"
          Retire,      \* "safe" | "early" | "never"
          QuickCheck,  \* rsync's default "quick check": a name whose size and whole-second modification time are
                       \* unchanged is skipped, whatever its content (known hazard, see SamesNext)
          Coarse,      \* generator mode
          InitDef,     \* both hosts start with default InitDef and the sets 1..InitDef; every record is of set 1
          MaxOps,      \* bound on management + configuration steps
          Depth        \* generator: length of a history

Sets  == 1..NSets
Exts  == {"user", "admin"}
Files == Users \X Exts
None  == [pw |-> "-", set |-> 0]
Recs  == [pw : Pws, set : Sets]

VARIABLES m, s, mcfg, scfg, q, todo, dirty, acked, cur, curadm, nops, hist,
          sames     \* names rewritten on the master within the same second and with the same size as the version the
                    \* slave holds (only with QuickCheck)
vars == <<m, s, mcfg, scfg, q, todo, dirty, acked, cur, curadm, nops, hist, sames>>

Eff(d, u) == IF d[<<u, "admin">>] # None THEN <<u, "admin">>
             ELSE IF d[<<u, "user">>] # None THEN <<u, "user">> ELSE <<u, "none">>
Has(d, u) == Eff(d, u)[2] # "none"
RecOf(d, u) == d[Eff(d, u)]
LoginOK(d, cfg, u, pw) == Has(d, u) /\ RecOf(d, u).set \in cfg.sup /\ RecOf(d, u).pw = pw
Upgradeable(d, cfg, u) == RecOf(d, u).set # cfg.def

(* generator: every logged step carries the projected post-state of both directories and the names that are
   allowed to differ between the hosts *)
P(d) == {[u |-> f[1], x |-> f[2], p |-> d[f].pw, k |-> d[f].set] : f \in {g \in Files : d[g] # None}}
D(ds) == {[u |-> f[1], x |-> f[2]] : f \in ds}
Log(e) == hist' = IF Coarse THEN Append(hist, e @@ [ms |-> P(m'), ss |-> P(s'), dirty |-> D(dirty')]) ELSE hist
Op == nops < MaxOps /\ nops' = nops + 1
NoOp == nops' = nops

Init ==
    /\ \E f \in [Users -> {"user", "admin", "none"}], p \in [Users -> Pws] :
          /\ \E u \in Users : f[u] = "admin"
          /\ m = [x \in Files |-> IF f[x[1]] = x[2] THEN [pw |-> p[x[1]], set |-> 1] ELSE None]
          /\ cur = [u \in Users |-> IF f[u] = "none" THEN "-" ELSE p[u]]
          /\ curadm = [u \in Users |-> f[u] = "admin"]
    /\ s = m
    /\ acked = [u \in Users |-> IF cur[u] = "-" THEN {} ELSE {cur[u]}]
    /\ mcfg = [def |-> InitDef, sup |-> 1..InitDef] /\ scfg = mcfg
    /\ q = {} /\ todo = {} /\ dirty = {} /\ nops = 0 /\ sames = {}
    /\ hist = IF Coarse THEN <<[t |-> "init", ms |-> P(m), ss |-> P(m), def |-> InitDef]>> ELSE <<>>

---------------------------------------------------------------------------
(* master: management through its agent *)
MWrite(u, ext, pw) ==
    /\ m' = [m EXCEPT ![<<u, ext>>] = [pw |-> pw, set |-> mcfg.def]]
    /\ dirty' = dirty \cup {<<u, ext>>}
    /\ acked' = [acked EXCEPT ![u] = @ \cup {pw}]
    /\ cur' = [cur EXCEPT ![u] = pw]

MAdd(u, pw, adm) ==
    /\ Op /\ ~Has(m, u)
    /\ MWrite(u, IF adm THEN "admin" ELSE "user", pw)
    /\ curadm' = [curadm EXCEPT ![u] = adm]
    /\ UNCHANGED <<s, mcfg, scfg, q, todo>>
    /\ Log([t |-> "madd", u |-> u, p |-> pw, a |-> adm])

MUpdate(u, pw) ==
    /\ Op /\ Has(m, u) /\ RecOf(m, u).set \in mcfg.sup
    /\ MWrite(u, Eff(m, u)[2], pw)
    /\ UNCHANGED <<s, mcfg, scfg, q, todo, curadm>>
    /\ Log([t |-> "mupdate", u |-> u, p |-> pw])

MSetAdmin(u, adm) ==
    /\ Op /\ Has(m, u) /\ curadm[u] # adm /\ RecOf(m, u).set \in mcfg.sup
    /\ \/ adm    \* never remove the last administrator (Check() would refuse the directory at the next reload)
       \/ \E v \in Users \ {u} : Has(m, v) /\ curadm[v]
    /\ LET from == Eff(m, u) to == <<u, IF adm THEN "admin" ELSE "user">> IN
          /\ m' = [m EXCEPT ![to] = m[from], ![from] = None]
          /\ dirty' = dirty \cup {from, to}
    /\ curadm' = [curadm EXCEPT ![u] = adm]
    /\ UNCHANGED <<s, mcfg, scfg, q, todo, acked, cur>>
    /\ Log([t |-> "msetadmin", u |-> u, a |-> adm])

MRemove(u) ==
    /\ Op /\ Has(m, u)
    /\ \E v \in Users \ {u} : Has(m, v) /\ curadm[v]
    /\ m' = [m EXCEPT ![<<u, "admin">>] = None, ![<<u, "user">>] = None]
    /\ dirty' = dirty \cup {f \in {<<u, "admin">>, <<u, "user">>} : m[f] # None}
    /\ cur' = [cur EXCEPT ![u] = "-"] /\ curadm' = [curadm EXCEPT ![u] = FALSE]
    /\ UNCHANGED <<s, mcfg, scfg, q, todo, acked>>
    /\ Log([t |-> "mremove", u |-> u])

(* a login on the master (direct, or a forwarded upgrade request): the master upgrades locally *)
MLoginEffect(u, pw) ==
    IF LoginOK(m, mcfg, u, pw) /\ Upgradeable(m, mcfg, u)
    THEN /\ m' = [m EXCEPT ![Eff(m, u)] = [pw |-> pw, set |-> mcfg.def]]
         /\ dirty' = dirty \cup {Eff(m, u)}
    ELSE UNCHANGED <<m, dirty>>

MLogin(u, pw) ==
    /\ NoOp /\ MLoginEffect(u, pw)
    /\ UNCHANGED <<s, mcfg, scfg, q, todo, acked, cur, curadm>>
    /\ Log([t |-> "mlogin", u |-> u, p |-> pw, ok |-> LoginOK(m, mcfg, u, pw)])

---------------------------------------------------------------------------
(* slave: logins; forwarding *)
SLogin(u, pw) ==
    /\ NoOp
    /\ LET ok == LoginOK(s, scfg, u, pw)
           up == ok /\ Upgradeable(s, scfg, u) IN
       /\ CASE up /\ SlaveMode = "remote" /\ Coarse ->
                  /\ MLoginEffect(u, pw) /\ UNCHANGED <<s, q>>
            [] up /\ SlaveMode = "remote" /\ ~Coarse ->
                  /\ q' = q \cup {<<u, pw>>} /\ UNCHANGED <<s, m, dirty>>
            [] up /\ SlaveMode = "local" ->
                  /\ s' = [s EXCEPT ![Eff(s, u)] = [pw |-> pw, set |-> scfg.def]]
                  /\ UNCHANGED <<m, q, dirty>>
            [] OTHER -> UNCHANGED <<s, m, q, dirty>>
       /\ Log([t |-> "slogin", u |-> u, p |-> pw, ok |-> ok, adm |-> ok /\ Eff(s, u)[2] = "admin", up |-> up])
    /\ UNCHANGED <<mcfg, scfg, todo, acked, cur, curadm>>

Deliver(r) ==
    /\ r \in q /\ q' = q \ {r} /\ NoOp
    /\ MLoginEffect(r[1], r[2])
    /\ UNCHANGED <<s, mcfg, scfg, todo, acked, cur, curadm, hist>>

Drop(r) ==     \* "a failed update call will be silently ignored"
    /\ r \in q /\ q' = q \ {r}
    /\ UNCHANGED <<m, s, mcfg, scfg, todo, dirty, acked, cur, curadm, nops, hist>>

---------------------------------------------------------------------------
(* rsync: name by name *)
SyncStart ==
    /\ todo = {} /\ todo' = Files /\ ~Coarse
    /\ UNCHANGED <<m, s, mcfg, scfg, q, dirty, acked, cur, curadm, nops, hist>>

SyncFile(f) ==
    /\ IF Coarse THEN todo' = todo ELSE f \in todo /\ todo' = todo \ {f}
    /\ IF QuickCheck /\ f \in sames
       THEN UNCHANGED <<s, dirty>>          \* skipped: same size, same second
       ELSE s' = [s EXCEPT ![f] = m[f]] /\ dirty' = dirty \ {f}
    /\ NoOp
    /\ UNCHANGED <<m, mcfg, scfg, q, acked, cur, curadm>>
    /\ Log([t |-> "syncfile", u |-> f[1], x |-> f[2]])

---------------------------------------------------------------------------
(* configuration: reloads on either host.  A reload is all-or-nothing (C18): the agent loads the new file,
   runs Check() on the directory under the NEW configuration and keeps the old one if that fails - which is
   what happens on a slave whose directory is in the middle of an rsync run (both names of a user present)
   or whose only administrator records name a set the new configuration no longer has. *)
UsedBy(d) == {d[f].set : f \in {g \in Files : d[g] # None}}
CheckOK(d, c) == /\ \A u \in Users : ~(d[<<u, "admin">>] # None /\ d[<<u, "user">>] # None)
                 /\ \E u \in Users : d[<<u, "admin">>] # None /\ d[<<u, "admin">>].set \in c.sup

SReloadTo(c) ==
    /\ Op
    /\ scfg' = IF CheckOK(s, c) THEN c ELSE scfg
    /\ UNCHANGED <<m, s, mcfg, q, todo, dirty, acked, cur, curadm>>
    /\ Log([t |-> "sreload", def |-> c.def, sup |-> c.sup, ok |-> CheckOK(s, c)])

MReloadTo(c) ==
    /\ Op
    /\ mcfg' = IF CheckOK(m, c) THEN c ELSE mcfg
    /\ UNCHANGED <<m, s, scfg, q, todo, dirty, acked, cur, curadm>>
    /\ Log([t |-> "mreload", def |-> c.def, sup |-> c.sup, ok |-> CheckOK(m, c)])

SAddSet(k)  == k \in Sets \ scfg.sup /\ SReloadTo([scfg EXCEPT !.sup = @ \cup {k}])
SDefault(k) == k \in scfg.sup /\ k # scfg.def /\ SReloadTo([scfg EXCEPT !.def = k])
MAddSet(k)  == /\ k \in Sets \ mcfg.sup
               /\ Rollout = "slaves-first" => k \in scfg.sup
               /\ MReloadTo([mcfg EXCEPT !.sup = @ \cup {k}])
MDefault(k) == k \in mcfg.sup /\ k # mcfg.def /\ MReloadTo([mcfg EXCEPT !.def = k])

(* retiring a set ("You can and should delete all parameter-sets which are not used anymore") *)
MRetire(k) ==
    /\ Retire # "never" /\ k \in mcfg.sup /\ k # mcfg.def
    /\ k \notin UsedBy(m)
    /\ MReloadTo([mcfg EXCEPT !.sup = @ \ {k}])

SRetire(k) ==
    /\ Retire # "never" /\ k \in scfg.sup /\ k # scfg.def
    /\ Retire = "safe" => k \notin UsedBy(s) /\ k \notin UsedBy(m) /\ k \notin mcfg.sup
    /\ SReloadTo([scfg EXCEPT !.sup = @ \ {k}])

---------------------------------------------------------------------------
Mgmt == \/ \E u \in Users, p \in Pws, a \in BOOLEAN : MAdd(u, p, a)
        \/ \E u \in Users, p \in Pws : MUpdate(u, p)
        \/ \E u \in Users, a \in BOOLEAN : MSetAdmin(u, a)
        \/ \E u \in Users : MRemove(u)
Cfg  == \/ \E k \in Sets : SAddSet(k) \/ SDefault(k) \/ MAddSet(k) \/ MDefault(k) \/ MRetire(k) \/ SRetire(k)
Logins == \/ \E u \in Users, p \in Pws : SLogin(u, p)
          \/ \E u \in Users, p \in Pws : MLogin(u, p)
Net  == \E r \in q : Deliver(r) \/ Drop(r)
Rsync == SyncStart \/ \E f \in Files : SyncFile(f)

(* the quick-check hazard: a record of the same parameter set has the same size; if the master rewrites a name the
   slave already holds in its current version within the same second, rsync -t sees nothing to do - and keeps
   seeing nothing until the name changes again.  Whether two writes fall into one second is the environment's
   choice.  (Observed with rsync 3.2.7 and the command of contrib/sync/README.md; outside the listed properties.) *)
SamesNext ==
    IF ~QuickCheck THEN sames' = {}
    ELSE \E c \in BOOLEAN :
           LET ch == {f \in Files : m'[f] # m[f]} IN
           sames' = ((sames \ ch) \ {f \in Files : s'[f] # s[f]})
                    \cup (IF c THEN {f \in ch : f \notin dirty /\ s[f] # None /\ m'[f] # None /\ m'[f].set = s[f].set}
                          ELSE {})

Next == (Mgmt \/ Cfg \/ Logins \/ Net \/ Rsync) /\ SamesNext

Spec == Init /\ [][Next]_vars

(* fairness for Converges: rsync keeps running, every user keeps logging in on the slave with the current
   password, forwarded requests are not lost for ever *)
Fair == /\ WF_vars(SyncStart /\ SamesNext) /\ \A f \in Files : WF_vars(SyncFile(f) /\ SamesNext)
        /\ \A u \in Users, p \in Pws : WF_vars(SLogin(u, p) /\ p = cur[u] /\ q' # q /\ SamesNext)
        /\ \A r \in (Users \X Pws) : SF_vars(Deliver(r) /\ SamesNext)
LiveSpec == Spec /\ Fair

---------------------------------------------------------------------------
TypeOK == /\ m \in [Files -> Recs \cup {None}] /\ s \in [Files -> Recs \cup {None}]
          /\ mcfg.def \in mcfg.sup /\ scfg.def \in scfg.sup
          /\ q \subseteq Users \X Pws /\ todo \subseteq Files /\ dirty \subseteq Files

MasterTracksAck ==
    \A u \in Users :
        /\ Has(m, u) <=> cur[u] # "-"
        /\ Has(m, u) => /\ RecOf(m, u).pw = cur[u]
                        /\ (Eff(m, u)[2] = "admin") = curadm[u]
                        /\ ~(m[<<u, "admin">>] # None /\ m[<<u, "user">>] # None)

SlaveSound == \A f \in Files : s[f] # None => s[f].pw \in acked[f[1]]

CleanFilesEqual == \A f \in Files \ dirty : s[f] = m[f]

SlaveAvailable == \A f \in Files : s[f] # None => s[f].set \in scfg.sup
MasterAvailable == \A f \in Files : m[f] # None => m[f].set \in mcfg.sup
SlaveKnowsMasterSets == mcfg.sup \subseteq scfg.sup

(* action properties *)
SlaveOnlySynced == [][s' # s => \E f \in Files : s' = [s EXCEPT ![f] = m[f]]]_vars
UpgradeKeepsPassword ==
    [][\A f \in Files : (m[f] # None /\ m'[f] # None /\ m'[f].pw # m[f].pw) => nops' # nops]_vars

Settled == /\ \A f \in Files : m[f] # None => m[f].set = mcfg.def
           /\ s = m
Converges == <>[](scfg.def = mcfg.def) => <>[]Settled

Bound == nops <= MaxOps

(* generator *)
GenNext == Len(hist) < Depth /\ Next
PrintAtDepth == Len(hist) = Depth => PrintT(<<"H", ToJson(hist)>>)
=============================================================================
