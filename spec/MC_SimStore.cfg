\* histories of 30 steps over 3 users (named like the file extensions; two related by a dotted prefix, two by letter case), 4 passwords, 3 parameter sets
INIT SimInit
NEXT SimNext
CONSTANTS
    Users = {"user", "user.admin", "USER"}
    BadNames = {}
    Pws = {"p1", "p1z", "p2", "p3"}
    Sets = {1, 2, 3}
    Algo <- MCAlgo
    KeyClass <- MCKeyClass
    AuxVals = {"none", "a1"}
    UnsupKinds = {"unkparam", "malformed"}
    Defaults = {1, 2, 3}
    EmitEdges = FALSE
    Depth = 30
INVARIANTS PrintAtDepth AuthIffLastPw UnsupportedNeverAuth
CHECK_DEADLOCK FALSE
