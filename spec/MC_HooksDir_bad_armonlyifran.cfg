\* wrong design: the rate-limit timer is armed only when the round could run its scripts
SPECIFICATION SpecD
CONSTANTS
    T = 3
    MaxTime = 9
    MaxChanges = 4
    MaxReloads = 1
    Stores = {"A", "B"}
    Threshold = 1
    DrainNewStore = TRUE
    NewStoreSend = "block"
    NCap = 3
    ArmAlways = FALSE
    MaxSwitches = 2
INVARIANTS NoChangeForgotten AtMostTwoRoundsPerInterval NoRoundWithoutNotification StartedWithinRounds AlwaysUsableAllStarted
PROPERTIES EveryChangeCovered RoundStartsIffUsable
CHECK_DEADLOCK FALSE
