//go:build verif

// In-package driver for the agent (cmd/whawty-auth, package main).  It is copied into a scratch
// copy of the repository by bin/check and run with `go test -tags verif`.
//
// It (1) installs a recorder on the verif hooks, (2) controls the dispatcher with the gates
// "disp.idle" and "upgrade.send", (3) executes scenarios (JSON, generated from TLC behaviours and
// counterexamples) against a real `store` object and (4) writes the recorded events as ndjson for
// validation against TraceAgent.tla.
package main

import (
	"encoding/base64"
	"net/url"
	"errors"
	"bytes"
	"crypto/sha256"
	"encoding/json"
	"fmt"
	"io"
	"math/rand"
	"net"
	"net/http"
	"net/http/httptest"
	"os"
	"os/signal"
	"path/filepath"
	"runtime"
	"sort"
	"strconv"
	"strings"
	"sync"
	"sync/atomic"
	"syscall"
	"testing"
	"time"

	"github.com/glauth/ldap"
	zxcvbn "github.com/nbutton23/zxcvbn-go"
	"github.com/whawty/auth/sasl"
	"github.com/whawty/auth/verifconcrete"

	lib "github.com/whawty/auth/store"
)

// ---------------------------------------------------------------- recorder

type recorder struct {
	mu     sync.Mutex
	events []map[string]interface{}
	pwTag  map[string]string // concrete password -> model tag
}

var rec = &recorder{}

// recQuiet: during a "quiet" load nothing is recorded (the run is judged by liveness only, at full request rate)
var recQuiet int32

func (r *recorder) add(m map[string]interface{}) {
	if atomic.LoadInt32(&recQuiet) != 0 {
		return
	}
	r.mu.Lock()
	m["seq"] = len(r.events) + 1
	m["ts"] = time.Now().UnixMicro() % 100000000
	r.events = append(r.events, m)
	r.mu.Unlock()
}

func (r *recorder) tag(pw string) string {
	if t, ok := r.pwTag[pw]; ok {
		return t
	}
	return "?" + pw
}

func errStr(v interface{}) string {
	if v == nil {
		return ""
	}
	if e, ok := v.(error); ok && e != nil {
		return e.Error()
	}
	return ""
}

func isNilErr(v interface{}) bool {
	if v == nil {
		return true
	}
	e, ok := v.(error)
	return ok && e == nil
}

func listPairs(l lib.UserList) [][]interface{} {
	out := [][]interface{}{}
	keys := []string{}
	for k := range l {
		keys = append(keys, k)
	}
	sort.Strings(keys)
	for _, k := range keys {
		out = append(out, []interface{}{k, l[k].IsAdmin})
	}
	return out
}

func base(ev string) map[string]interface{} {
	return map[string]interface{}{"ev": ev, "c": "", "k": "", "u": "", "p": "", "a": false, "ok": false,
		"adm": false, "admknown": true, "upg": false, "list": [][]interface{}{}, "err": "", "io": false, "n": 0}
}

// curBase: base directory of the scenario being executed (reload events of older dispatchers are not this run's)
var curBase atomic.Value

// hupWant: the default parameter set of the configuration the driver put on disk before its last SIGHUP (0 = none yet)
var hupWant int32

// ioFaultWindow is 1 while the driver has made the store's work area unusable ("breaktmp" step).
var ioFaultWindow int32

// isIOFail: the library's error wraps a failed system call and the driver is currently injecting such failures.
func isIOFail(v interface{}) bool {
	e, ok := v.(error)
	if !ok || e == nil || atomic.LoadInt32(&ioFaultWindow) == 0 {
		return false
	}
	var pe *os.PathError
	var le *os.LinkError
	var en syscall.Errno
	return errors.As(e, &pe) || errors.As(e, &le) || errors.As(e, &en)
}

// sink is installed as verifSink: it translates hook events into trace records.
func (r *recorder) sink(ev string, args ...interface{}) {
	switch ev {
	case "exec.auth":
		m := base("exec")
		m["k"], m["u"], m["p"] = "auth", args[0], r.tag(args[1].(string))
		m["ok"], m["adm"], m["upg"], m["err"] = args[2], args[3], args[4], errStr(args[5])
		r.add(m)
	case "exec.add", "exec.init":
		m := base("exec")
		m["k"], m["u"], m["p"], m["a"] = strings.TrimPrefix(ev, "exec."), args[0], r.tag(args[1].(string)), args[2]
		m["ok"], m["err"], m["io"] = isNilErr(args[3]), errStr(args[3]), isIOFail(args[3])
		r.add(m)
	case "exec.update":
		m := base("exec")
		m["k"], m["u"], m["p"] = "update", args[0], r.tag(args[1].(string))
		m["ok"], m["err"], m["io"] = isNilErr(args[2]), errStr(args[2]), isIOFail(args[2])
		r.add(m)
	case "exec.remove":
		m := base("exec")
		m["k"], m["u"], m["ok"] = "remove", args[0], true
		r.add(m)
	case "exec.setadmin":
		m := base("exec")
		m["k"], m["u"], m["a"] = "setadmin", args[0], args[1]
		m["ok"], m["err"], m["io"] = isNilErr(args[2]), errStr(args[2]), isIOFail(args[2])
		r.add(m)
	case "exec.list":
		m := base("exec")
		m["k"] = "list"
		m["ok"], m["err"] = isNilErr(args[1]), errStr(args[1])
		m["list"] = listPairs(args[0].(lib.UserList))
		r.add(m)
	case "exec.listfull", "exec.check":
		m := base("exec")
		m["k"] = strings.TrimPrefix(ev, "exec.")
		last := args[len(args)-1]
		m["ok"], m["err"] = isNilErr(last), errStr(last)
		r.add(m)
	case "upgrade.sent", "upgrade.drop", "upgrade.begin", "upgrade.skip":
		m := base(map[string]string{"upgrade.sent": "upsent", "upgrade.drop": "updrop", "upgrade.begin": "upbegin", "upgrade.skip": "upskip"}[ev])
		m["u"], m["p"] = args[0], r.tag(args[1].(string))
		r.add(m)
	case "notify.sent":
		r.add(base("notify"))
	case "reload.ok", "reload.fail":
		m := base(strings.Replace(ev, ".", "", 1))
		m["k"] = args[0]
		if d, ok := args[1].(*lib.Dir); ok && d != nil {
			if cb, _ := curBase.Load().(string); cb != "" && d.BaseDir != cb {
				return // the dispatcher of an earlier scenario (same process, same signal)
			}
			m["n"] = int(d.Default)
			if w := atomic.LoadInt32(&hupWant); w != 0 && ev == "reload.ok" {
				m["n"] = int(w) // what the configuration on disk says; "p" carries what the agent reports to use
			}
			m["u"] = d.BaseDir
			m["p"] = fmt.Sprint(d.Default)
			ids := []int{}
			for id := range d.Params {
				ids = append(ids, int(id))
			}
			sort.Ints(ids)
			m["list"] = ids
		}
		r.add(m)
	case "hooks.run", "hooks.exec", "hooks.timer", "hooks.notify", "hooks.newstore":
		m := base(strings.Replace(ev, ".", "", 1))
		if len(args) > 0 {
			m["u"] = fmt.Sprint(args[0])
		}
		if len(args) > 1 {
			m["p"] = fmt.Sprint(args[1])
		}
		r.add(m)
	}
}

// ---------------------------------------------------------------- gates

type gates struct {
	mu     sync.Mutex
	cond   *sync.Cond
	armed  map[string]bool
	parked map[string]bool
	tokens map[string]int
	gen    int
	seen   map[uint64]int // goroutine id -> generation in which it first came to a gate
}

// goid: the calling goroutine's id (ids are never reused).
func goid() uint64 {
	var buf [64]byte
	n := runtime.Stack(buf[:], false)
	f := strings.Fields(string(buf[:n]))
	if len(f) < 2 {
		return 0
	}
	id, _ := strconv.ParseUint(f[1], 10, 64)
	return id
}

var gt = func() *gates {
	g := &gates{armed: map[string]bool{}, parked: map[string]bool{}, tokens: map[string]int{}, seen: map[uint64]int{}}
	g.cond = sync.NewCond(&g.mu)
	return g
}()

func (g *gates) hold(point string) {
	id := goid()
	g.mu.Lock()
	gen := g.gen
	// a dispatcher of an earlier scenario that wakes up again (SIGHUP reaches every dispatcher of the process) must not
	// take part in this scenario: it stops here for good
	if first, ok := g.seen[id]; ok && first != gen {
		g.mu.Unlock()
		select {}
	}
	g.seen[id] = gen
	if g.armed[point] {
		g.parked[point] = true
		g.cond.Broadcast()
		for g.gen == gen && g.armed[point] && g.tokens[point] == 0 {
			g.cond.Wait()
		}
		if g.gen == gen { // goroutines of an earlier scenario leave without touching anything
			if g.tokens[point] > 0 {
				g.tokens[point]--
			}
			g.parked[point] = false
			g.cond.Broadcast()
		}
	}
	g.mu.Unlock()
}

// newGeneration detaches every goroutine still waiting at a gate from an earlier scenario.
func (g *gates) newGeneration() {
	g.mu.Lock()
	g.gen++
	g.armed = map[string]bool{}
	g.parked = map[string]bool{}
	g.tokens = map[string]int{}
	g.cond.Broadcast()
	g.mu.Unlock()
}

func (g *gates) arm(points ...string) {
	g.mu.Lock()
	for _, p := range points {
		g.armed[p] = true
		g.tokens[p] = 0
	}
	g.mu.Unlock()
}

func (g *gates) disarm(points ...string) {
	g.mu.Lock()
	for _, p := range points {
		g.armed[p] = false
	}
	g.cond.Broadcast()
	g.mu.Unlock()
}

func (g *gates) release(point string) {
	g.mu.Lock()
	g.tokens[point]++
	g.cond.Broadcast()
	g.mu.Unlock()
}

// waitParked waits until the goroutine is parked at one of the points; returns the point or "".
func (g *gates) waitParked(timeout time.Duration, points ...string) string {
	deadline := time.Now().Add(timeout)
	for {
		g.mu.Lock()
		for _, p := range points {
			if g.parked[p] && g.tokens[p] == 0 {
				g.mu.Unlock()
				return p
			}
		}
		g.mu.Unlock()
		if time.Now().After(deadline) {
			return ""
		}
		time.Sleep(200 * time.Microsecond)
	}
}

// ---------------------------------------------------------------- scenarios

type fileSt struct {
	Present bool   `json:"present"`
	Pw      string `json:"pw"`
	Set     uint   `json:"set"`
	Adm     bool   `json:"adm"`
	Aux     string `json:"aux,omitempty"`  // projection only: orig | none | other
	Time    int64  `json:"time,omitempty"` // projection only
}

type step struct {
	T string `json:"t"` // send | recv | upsend | free | load | hup | sleep | token
	C string `json:"c"`
	Via string `json:"via"`
	K string `json:"k"`
	U string `json:"u"`
	P string `json:"p"`
	A bool   `json:"a"`
	N int    `json:"n"`
	// load
	Clients int      `json:"clients"`
	Calls   int      `json:"calls"`
	Kinds   []string `json:"kinds"`
	Users   []string `json:"users"`
	Pws     []string `json:"pws"`
	Vias    []string `json:"vias"`
	Quiet   bool     `json:"quiet"`
	Watch   bool     `json:"watch"` // an observer scans the base directory all the time: never two files for one user
	// hup
	Cfg string `json:"cfg"`
}

type scenario struct {
	Name       string             `json:"name"`
	Mode       string             `json:"mode"` // "" | local | http://...
	Default    uint               `json:"default"`
	Files      map[string]fileSt  `json:"files"`
	Passwords  map[string]string  `json:"passwords"` // tag -> concrete
	PolicyType string             `json:"policy_type"`
	PolicyCond string             `json:"policy_cond"`
	Steps      []step             `json:"steps"`
	Seed       int64              `json:"seed"`
	Gated      bool               `json:"gated"`
	Frontends  bool               `json:"frontends"`
	HTTPAdmin  []string           `json:"http_admin"` // [user, password tag] used to obtain the session token
	HooksDir   string             `json:"hooks_dir"`
}

type scenResult struct {
	Name   string `json:"name"`
	Hung   bool   `json:"hung"`
	Where  string `json:"where"`
	Stacks string `json:"stacks,omitempty"`
	First  int    `json:"first"` // first event index (0-based) of this scenario in the trace
	Last   int    `json:"last"`
	Base   string `json:"base"`
}

const t0agent = int64(1500000000)

var watchdog = 8 * time.Second

type runner struct {
	sc    *scenario
	st    *store
	api   *Store
	base  string
	cfg   string
	sets  map[uint]concrete.ParamSet
	wg    sync.WaitGroup
	calls int
	freed bool
	fe    frontEnds
	res   scenResult
	masterBase string
	masterDown int32
	masterHits int32
	oldFsize   syscall.Rlimit
}

func (r *runner) materialise(dir string) {
	r.base = filepath.Join(dir, "base")
	os.RemoveAll(dir)
	if err := os.MkdirAll(r.base, 0700); err != nil {
		panic(err)
	}
	rng := rand.New(rand.NewSource(r.sc.Seed + 99))
	for u, f := range r.sc.Files {
		if !f.Present {
			continue
		}
		line, _ := concrete.MakeRecord(r.sets[f.Set], []byte(r.sc.Passwords[f.Pw]), t0agent, rng)
		ext := ".user"
		if f.Adm {
			ext = ".admin"
		}
		if err := os.WriteFile(filepath.Join(r.base, u+ext), []byte(line+r.auxOf(u)), 0600); err != nil {
			panic(err)
		}
	}
	r.cfg = filepath.Join(dir, "store.yaml")
	os.WriteFile(r.cfg, []byte(concrete.ConfigYAML(r.base, r.sc.Default, r.sets, []uint{1, 2, 3})), 0600)
}

// auxOf: the auxiliary data materialised for user u; the variants rotate with the scenario seed (terminated line,
// unterminated last line, CRLF line ends, a line longer than 64 KiB, arbitrary bytes)
func (r *runner) auxOf(u string) string {
	variants := []string{"totp: QUJD\n", "totp: QUJD\nu2f: REVG", "a: b\r\nc: d\r\n", "long: " + strings.Repeat("A", 70000) + "\nshort: x\n",
		"bin: \x00\x01\xff\xfe\n\n\nend"}
	names := []string{}
	for n := range r.sc.Files {
		names = append(names, n)
	}
	sort.Strings(names)
	for i, n := range names {
		if n == u {
			return variants[(i+int(r.sc.Seed%1000003))%len(variants)]
		}
	}
	return variants[0]
}

// project is pi: the real directory as model files (passwords identified by recomputation).
func (r *runner) project() (map[string]fileSt, bool, bool) { return r.projectDir(r.base) }

func (r *runner) projectDir(base string) (map[string]fileSt, bool, bool) {
	out := map[string]fileSt{}
	for u := range r.sc.Files {
		out[u] = fileSt{}
	}
	ents, _ := os.ReadDir(base)
	tmpEmpty := true
	adminOK := false
	for _, e := range ents {
		if e.Name() == ".tmp" {
			sub, _ := os.ReadDir(filepath.Join(base, ".tmp"))
			tmpEmpty = len(sub) == 0
			continue
		}
		ext := filepath.Ext(e.Name())
		u := strings.TrimSuffix(e.Name(), ext)
		b, _ := os.ReadFile(filepath.Join(base, e.Name()))
		line, rest := concrete.SplitFile(b)
		f := fileSt{Present: true, Adm: ext == ".admin", Pw: "?"}
		switch string(rest) {
		case r.auxOf(u):
			f.Aux = "orig"
		case "":
			f.Aux = "none"
		default:
			f.Aux = "other"
		}
		if recd, err := concrete.ParseLine(line); err == nil {
			f.Set = recd.Param
			f.Time = recd.Time
			if ps, ok := r.sets[recd.Param]; ok && ps.FormatID() == recd.Format {
				for tag, pw := range r.sc.Passwords {
					if bytes.Equal(ps.Digest([]byte(pw), recd.Salt), recd.Digest) {
						f.Pw = tag
					}
				}
			}
		}
		if prev, dup := out[u]; dup && prev.Present {
			f.Pw = "DUPLICATE"
		}
		if f.Adm && f.Pw != "?" {
			adminOK = true
		}
		out[u] = f
	}
	return out, adminOK, tmpEmpty
}

func (r *runner) lenOf(k string) int {
	switch k {
	case "auth":
		return len(r.st.authenticateChan)
	case "update":
		return len(r.st.updateChan)
	case "add":
		return len(r.st.addChan)
	case "remove":
		return len(r.st.removeChan)
	case "setadmin":
		return len(r.st.setAdminChan)
	case "list":
		return len(r.st.listChan)
	}
	return 0
}

func (r *runner) totalQueued() int {
	n := 0
	for _, k := range []string{"auth", "update", "add", "remove", "setadmin", "list"} {
		n += r.lenOf(k)
	}
	return n
}

// call performs one blocking client call and logs call/ret around it.
func (r *runner) call(c, k, u, ptag string, a bool) { r.callVia("api", c, k, u, ptag, a) }

// callVia performs one blocking client call through the given frontend and logs call/ret around it.
//   api   the in-process Store interface            sasl  saslauthd unix socket (bundled Go client)
//   http  JSON API with an admin session token       basic HTTP basic-auth      ldap  LDAP simple bind
// httpOld: a password change over the HTTP API authorised by the user's current password (field
// "oldpassword", tag in oldTag).  The handler makes two dispatcher calls - authenticate, then update - which
// are logged as two client calls <c>.a and <c>.u.
func (r *runner) httpOld(c, u, oldTag, newTag string) {
	ca, cu := base("call"), base("call")
	ca["c"], ca["k"], ca["u"], ca["p"], ca["via"] = c+".a", "auth", u, oldTag, "httpold"
	cu["c"], cu["k"], cu["u"], cu["p"], cu["via"] = c+".u", "update", u, newTag, "httpold"
	rec.add(ca)
	rec.add(cu)
	st, _ := r.post("/api/update", map[string]interface{}{"username": u, "oldpassword": r.sc.Passwords[oldTag], "newpassword": r.sc.Passwords[newTag]})
	ra, ru := base("ret"), base("ret")
	ra["c"], ra["k"], ra["ok"], ra["admknown"], ra["via"] = c+".a", "auth", st != 401 && st != 0, false, "httpold"
	ru["c"], ru["k"], ru["ok"], ru["via"], ru["err"] = c+".u", "update", st == 200, "httpold", fmt.Sprintf("http %d policy?", st)
	rec.add(ra)
	rec.add(ru)
}

func (r *runner) callVia(via, c, k, u, ptag string, a bool) {
	if via == "httpold" {
		parts := strings.SplitN(ptag, ">", 2) // "oldtag>newtag"
		r.httpOld(c, u, parts[0], parts[1])
		return
	}
	m := base("call")
	m["c"], m["k"], m["u"], m["p"], m["a"], m["via"] = c, k, u, ptag, a, via
	rec.add(m)
	pw := r.sc.Passwords[ptag]
	ret := base("ret")
	ret["c"], ret["k"], ret["via"] = c, k, via
	switch via {
	case "sasl":
		ok, msg, err := sasl.NewClient(r.fe.saslPath).Auth(u, pw, "svc", "realm")
		ret["ok"], ret["err"] = ok && err == nil, msg+errStr(err)
		ret["admknown"] = false
	case "ldap":
		code, err := ldapHandler{store: r.api}.Bind(u+"@example.org", pw, nil)
		ok := code == ldap.LDAPResultSuccess && err == nil
		ret["ok"], ret["admknown"] = ok, false
	case "basic":
		req, _ := http.NewRequest("GET", r.fe.httpURL+"/basic-auth", nil)
		req.SetBasicAuth(u, pw)
		resp, err := http.DefaultClient.Do(req)
		ok := err == nil && resp.StatusCode == 200
		if err == nil {
			io.Copy(io.Discard, resp.Body)
			resp.Body.Close()
		}
		ret["ok"], ret["admknown"] = ok, false
	case "http":
		r.httpCall(ret, k, u, pw, a)
	default:
		switch k {
		case "auth":
			ok, adm, _, err := r.api.Authenticate(u, pw)
			ret["ok"], ret["adm"], ret["err"] = ok, adm, errStr(err)
		case "update":
			err := r.api.Update(u, pw)
			ret["ok"], ret["err"] = err == nil, errStr(err)
		case "add":
			err := r.api.Add(u, pw, a)
			ret["ok"], ret["err"] = err == nil, errStr(err)
		case "remove":
			err := r.api.Remove(u)
			ret["ok"], ret["err"] = err == nil, errStr(err)
		case "setadmin":
			err := r.api.SetAdmin(u, a)
			ret["ok"], ret["err"] = err == nil, errStr(err)
		case "list":
			l, err := r.api.List()
			ret["ok"], ret["err"] = err == nil, errStr(err)
			ret["list"] = listPairs(l)
		}
	}
	rec.add(ret)
}

func (r *runner) post(path string, body interface{}) (int, map[string]interface{}) {
	b, _ := json.Marshal(body)
	resp, err := http.Post(r.fe.httpURL+path, "application/json", bytes.NewReader(b))
	if err != nil {
		return 0, nil
	}
	defer resp.Body.Close()
	out := map[string]interface{}{}
	json.NewDecoder(resp.Body).Decode(&out)
	return resp.StatusCode, out
}

func (r *runner) httpCall(ret map[string]interface{}, k, u, pw string, a bool) {
	switch k {
	case "auth":
		st, out := r.post("/api/authenticate", map[string]interface{}{"username": u, "password": pw})
		ret["ok"] = st == 200
		if adm, ok := out["admin"].(bool); ok {
			ret["adm"] = adm
		}
		if s, _ := out["session"].(string); st == 200 && s == "" {
			ret["err"] = "200 without session"
		}
	case "update":
		st, _ := r.post("/api/update", map[string]interface{}{"session": r.fe.token, "username": u, "newpassword": pw})
		ret["ok"] = st == 200
	case "add":
		st, _ := r.post("/api/add", map[string]interface{}{"session": r.fe.token, "username": u, "password": pw, "admin": a})
		ret["ok"] = st == 200
	case "remove":
		st, _ := r.post("/api/remove", map[string]interface{}{"session": r.fe.token, "username": u})
		ret["ok"] = st == 200
	case "setadmin":
		st, _ := r.post("/api/set-admin", map[string]interface{}{"session": r.fe.token, "username": u, "admin": a})
		ret["ok"] = st == 200
	case "list":
		st, out := r.post("/api/list", map[string]interface{}{"session": r.fe.token})
		ret["ok"] = st == 200
		pairs := [][]interface{}{}
		if l, ok := out["list"].(map[string]interface{}); ok {
			keys := []string{}
			for k := range l {
				keys = append(keys, k)
			}
			sort.Strings(keys)
			for _, k := range keys {
				e, _ := l[k].(map[string]interface{})
				adm, _ := e["admin"].(bool)
				pairs = append(pairs, []interface{}{k, adm})
			}
		}
		ret["list"] = pairs
	}
}

type frontEnds struct {
	saslPath string
	httpURL  string
	token    string
	srv      *httptest.Server
}

// startFrontends runs the real saslauthd listener and the real HTTP handler on top of the agent.
func (r *runner) startFrontends(dir string) {
	r.fe.saslPath = filepath.Join(dir, "sasl.sock")
	go runSaslAuthSocket(r.fe.saslPath, r.api) //nolint:errcheck
	mux, err := newWebHandler(r.api)
	if err != nil {
		panic(err)
	}
	r.fe.srv = httptest.NewServer(mux)
	r.fe.httpURL = r.fe.srv.URL
	for i := 0; i < 2000; i++ {
		if _, err := os.Stat(r.fe.saslPath); err == nil {
			break
		}
		time.Sleep(time.Millisecond)
	}
}

func (r *runner) hang(where string) {
	buf := make([]byte, 1<<20)
	n := runtime.Stack(buf, true)
	st := string(buf[:n])
	r.res.Hung = true
	r.res.Where = where
	// classify: where is the dispatcher goroutine blocked?
	for _, g := range strings.Split(st, "\n\n") {
		if !strings.Contains(g, "dispatchRequests") {
			continue
		}
		r.res.Stacks = g
		switch {
		case strings.Contains(g, "chan send") && strings.Contains(g, "(*store).authenticate"):
			r.res.Where = "dispatcher blocked in upgrade send"
		case strings.Contains(g, "chan send") && (strings.Contains(g, "(*store).update") || strings.Contains(g, "(*store).add") || strings.Contains(g, "(*store).remove") || strings.Contains(g, "(*store).setAdmin")):
			r.res.Where = "dispatcher blocked in notify send"
		case strings.Contains(g, "chan send"):
			r.res.Where = "dispatcher blocked in a channel send"
		}
	}
}

func (r *runner) run(dir string) scenResult {
	sc := r.sc
	r.res = scenResult{Name: sc.Name}
	r.sets = concrete.DefaultSets()
	r.materialise(dir)
	r.res.Base = r.base
	curBase.Store(r.base) // from here on reload events of other (earlier) dispatchers of this process are not this run's
	atomic.StoreInt32(&hupWant, 0)
	rec.mu.Lock()
	rec.pwTag = map[string]string{}
	for t, p := range sc.Passwords {
		rec.pwTag[p] = t
	}
	r.res.First = len(rec.events)
	rec.mu.Unlock()

	reset := base("reset")
	reset["files"] = sc.Files
	reset["k"] = sc.Name
	reset["dirsha"] = dirSha(r.base)
	reset["policyok"] = r.policyOK()
	rec.add(reset)

	gt.newGeneration()
	if sc.Gated {
		gt.arm("disp.idle", "upgrade.send")
	}
	var err error
	if sc.Mode == "stalled" { // an upgrade master that accepts connections and never answers
		ln, lerr := net.Listen("tcp", "127.0.0.1:0")
		if lerr != nil {
			panic(lerr)
		}
		defer ln.Close()
		go func() {
			var held []net.Conn
			for {
				c, aerr := ln.Accept()
				if aerr != nil {
					return
				}
				held = append(held, c)
			}
		}()
		sc.Mode = "http://" + ln.Addr().String() + "/api/update"
	}
	if sc.Mode == "master" { // a second real agent (local upgrades, real web handler) as upgrade master
		mdir := filepath.Join(dir, "master")
		mr := &runner{sc: sc, sets: r.sets}
		mr.materialise(mdir)
		r.masterBase = mr.base
		mst, merr := NewStore(mr.cfg, "local", "", "", "")
		if merr != nil {
			panic(merr)
		}
		mmux, merr := newWebHandler(mst.GetInterface())
		if merr != nil {
			panic(merr)
		}
		msrv := httptest.NewServer(http.HandlerFunc(func(w http.ResponseWriter, q *http.Request) {
			switch atomic.LoadInt32(&r.masterDown) {
			case 1: // the master answers, but with an error
				http.Error(w, "master is down", http.StatusServiceUnavailable)
				return
			case 2: // transport-level failure: the connection is cut without any answer
				if hj, ok := w.(http.Hijacker); ok {
					if c, _, err := hj.Hijack(); err == nil {
						c.Close()
						return
					}
				}
				http.Error(w, "master is down", http.StatusServiceUnavailable)
				return
			}
			atomic.AddInt32(&r.masterHits, 1)
			mmux.ServeHTTP(w, q)
		}))
		defer func() {
			done := make(chan struct{})
			go func() { msrv.CloseClientConnections(); msrv.Close(); close(done) }()
			select {
			case <-done:
			case <-time.After(2 * time.Second):
			}
		}()
		sc.Mode = msrv.URL + "/api/update"
	}
	curBase.Store(r.base)
	atomic.StoreInt32(&hupWant, 0)
	r.st, err = NewStore(r.cfg, sc.Mode, sc.PolicyType, sc.PolicyCond, sc.HooksDir)
	if err != nil {
		panic(fmt.Sprintf("NewStore: %v", err))
	}
	r.api = r.st.GetInterface()
	if sc.Frontends {
		r.startFrontends(dir)
		defer func() { // Close waits for requests in flight: with a wedged dispatcher they never finish
			done := make(chan struct{})
			go func() { r.fe.srv.CloseClientConnections(); r.fe.srv.Close(); close(done) }()
			select {
			case <-done:
			case <-time.After(2 * time.Second):
			}
		}()
	}
	if sc.Gated && gt.waitParked(watchdog, "disp.idle") == "" {
		panic("dispatcher did not reach the idle gate")
	}

	for _, s := range sc.Steps {
		if r.res.Hung {
			break
		}
		switch s.T {
		case "send":
			before := r.lenOf(s.K)
			r.wg.Add(1)
			r.calls++
			// one client identity per call: after an unforced receive the real run may serve the
			// calls of a model client in another order than the model did
			cid := fmt.Sprintf("%s.%d", s.C, r.calls)
			fin := make(chan struct{})
			go func(s step) {
				defer r.wg.Done()
				defer close(fin)
				r.callVia(s.Via, cid, s.K, s.U, s.P, s.A)
			}(s)
			// wait until the request sits in its channel (or has already been answered, or its sender is
			// blocked on a full channel)
			deadline := time.Now().Add(250 * time.Millisecond)
		waitq:
			for r.lenOf(s.K) == before && time.Now().Before(deadline) {
				select {
				case <-fin:
					break waitq
				default:
					runtime.Gosched()
					time.Sleep(50 * time.Microsecond)
				}
			}
		case "recv":
			// only meaningful if the dispatcher waits at the idle gate and something is queued (after
			// an unforced receive the real run may be ahead of or behind the model's behaviour)
			if gt.waitParked(50*time.Millisecond, "disp.idle") == "" {
				continue
			}
			for i := 0; i < 200 && r.totalQueued() == 0; i++ {
				time.Sleep(100 * time.Microsecond)
			}
			if r.totalQueued() == 0 {
				continue
			}
			gt.release("disp.idle")
			if gt.waitParked(watchdog, "disp.idle", "upgrade.send") == "" {
				r.hang("after recv")
			}
		case "upsend":
			if gt.waitParked(50*time.Millisecond, "upgrade.send") == "" {
				continue
			}
			gt.release("upgrade.send")
			if gt.waitParked(watchdog, "disp.idle", "upgrade.send") == "" {
				r.hang("after upgrade send")
			}
		case "token": // log in as an administrator over HTTP to obtain the session token (a real, logged call)
			done := make(chan struct{})
			go func() {
				defer close(done)
				m := base("call")
				m["c"], m["k"], m["u"], m["p"], m["via"] = "tok", "auth", sc.HTTPAdmin[0], sc.HTTPAdmin[1], "http"
				rec.add(m)
				st, out := r.post("/api/authenticate", map[string]interface{}{"username": sc.HTTPAdmin[0], "password": sc.Passwords[sc.HTTPAdmin[1]]})
				ret := base("ret")
				ret["c"], ret["k"], ret["ok"], ret["via"] = "tok", "auth", st == 200, "http"
				if adm, ok := out["admin"].(bool); ok {
					ret["adm"] = adm
				}
				r.fe.token, _ = out["session"].(string)
				rec.add(ret)
			}()
			if sc.Gated { // serve exactly this request
				for i := 0; i < 5000 && r.totalQueued() == 0; i++ {
					time.Sleep(100 * time.Microsecond)
				}
				gt.release("disp.idle")
				for gt.waitParked(watchdog, "disp.idle", "upgrade.send") == "upgrade.send" {
					gt.release("upgrade.send")
					time.Sleep(time.Millisecond)
				}
			}
			<-done
		case "master_down":
			if s.N == 2 {
				atomic.StoreInt32(&r.masterDown, 2)
			} else {
				atomic.StoreInt32(&r.masterDown, 1)
			}
		case "master_up":
			atomic.StoreInt32(&r.masterDown, 0)
		case "fdstorm":
			r.fdStorm(s)
		case "load":
			r.load(s)
		case "sleep":
			time.Sleep(time.Duration(s.N) * time.Millisecond)
		case "breaktmp": // the work area becomes a regular file: every add/update of the library fails with ENOTDIR
			os.RemoveAll(filepath.Join(r.base, ".tmp"))
			os.WriteFile(filepath.Join(r.base, ".tmp"), []byte("not a directory\n"), 0600)
			atomic.StoreInt32(&ioFaultWindow, 1)
		case "checkdup": // at rest (all calls have returned): no user has two files
			ents, _ := os.ReadDir(r.base)
			have := map[string]bool{}
			for _, e := range ents {
				have[e.Name()] = true
			}
			for n := range have {
				if strings.HasSuffix(n, ".user") && have[strings.TrimSuffix(n, ".user")+".admin"] {
					m := base("dupseen")
					m["u"] = strings.TrimSuffix(n, ".user")
					rec.add(m)
				}
			}
		case "fsizelimit": // writes beyond s.N bytes of any file fail with EFBIG (a full disk / quota seen from inside the process)
			signal.Ignore(syscall.SIGXFSZ)
			var old syscall.Rlimit
			syscall.Getrlimit(syscall.RLIMIT_FSIZE, &old)
			r.oldFsize = old
			syscall.Setrlimit(syscall.RLIMIT_FSIZE, &syscall.Rlimit{Cur: uint64(s.N), Max: old.Max})
			atomic.StoreInt32(&ioFaultWindow, 1)
		case "fsizeunlimit":
			syscall.Setrlimit(syscall.RLIMIT_FSIZE, &r.oldFsize)
			atomic.StoreInt32(&ioFaultWindow, 0)
		case "stampnow": // the user's record gets the current second as its last-change time (taken early in a wall-clock second)
			for time.Now().Nanosecond() > 150e6 {
				time.Sleep(5 * time.Millisecond)
			}
			for _, ext := range []string{".user", ".admin"} {
				fn := filepath.Join(r.base, s.U+ext)
				if b, err := os.ReadFile(fn); err == nil {
					nl := bytes.IndexByte(b, '\n')
					if nl < 0 {
						nl = len(b)
					}
					f := strings.Split(string(b[:nl]), ":")
					if len(f) == 5 {
						f[1] = fmt.Sprint(time.Now().Unix())
						os.WriteFile(fn, append([]byte(strings.Join(f, ":")), b[nl:]...), 0600)
					}
				}
			}
		case "extupdate": // another process (a CLI command beside the agent) changes a password through the library, not the agent
			if xd, err := lib.NewDirFromConfig(r.cfg); err == nil {
				xd.UpdateUser(s.U, r.sc.Passwords[s.P])
			}
		case "hangup": // s.N web clients send a login and close their connection 300 ms later, without waiting for the answer
			hu, _ := url.Parse(r.fe.httpURL)
			for i := 0; i < s.N; i++ {
				conn, err := net.Dial("tcp", hu.Host)
				if err != nil {
					continue
				}
				cred := base64.StdEncoding.EncodeToString([]byte(s.U + ":" + r.sc.Passwords[s.P]))
				if i%2 == 0 {
					fmt.Fprintf(conn, "GET /basic-auth HTTP/1.1\r\nHost: agent\r\nAuthorization: Basic %s\r\n\r\n", cred)
				} else {
					body, _ := json.Marshal(map[string]string{"username": s.U, "password": r.sc.Passwords[s.P]})
					fmt.Fprintf(conn, "POST /api/authenticate HTTP/1.1\r\nHost: agent\r\nContent-Type: application/json\r\nContent-Length: %d\r\n\r\n%s", len(body), body)
				}
				go func(c net.Conn) { time.Sleep(300 * time.Millisecond); c.Close() }(conn)
			}
		case "chmodhooks": // the hooks directory becomes unusable (world-writable) / usable again
			os.Chmod(sc.HooksDir, os.FileMode(s.N))
		case "fixtmp":
			os.Remove(filepath.Join(r.base, ".tmp"))
			atomic.StoreInt32(&ioFaultWindow, 0)
		case "hup":
			r.hup(s)
		case "free":
			r.free()
		}
	}
	if !r.res.Hung && !r.freed {
		r.free()
	}
	rec.mu.Lock()
	r.res.Last = len(rec.events)
	rec.mu.Unlock()
	return r.res
}

// free lets everything run to completion and logs the idle projection.
func (r *runner) free() {
	r.freed = true
	gt.disarm("disp.idle", "upgrade.send")
	done := make(chan struct{})
	go func() { r.wg.Wait(); close(done) }()
	select {
	case <-done:
	case <-time.After(watchdog):
		r.hang("calls did not return")
		return
	}
	if r.masterBase != "" { // remote upgrades are asynchronous: give the master a moment to finish them
		for i := 0; i < 40; i++ {
			mf, _, _ := r.projectDir(r.masterBase)
			done := true
			for _, f := range mf {
				if f.Present && f.Set != r.sc.Default && f.Pw != "?" {
					done = false
				}
			}
			if done {
				break
			}
			time.Sleep(50 * time.Millisecond)
		}
	}
	// quiesce: park the dispatcher at the idle gate with all queues empty.  The dispatcher may be
	// sitting in its select, so probe requests (list calls by client "probe") make it loop.
	gt.arm("disp.idle")
	var pd chan struct{}
	deadline := time.Now().Add(watchdog)
	for {
		if pd != nil {
			select {
			case <-pd:
				pd = nil
			default:
			}
		}
		if gt.waitParked(2*time.Millisecond, "disp.idle") != "" {
			if pd != nil { // parked after answering the probe, or before receiving it?
				select {
				case <-pd:
					pd = nil
				case <-time.After(20 * time.Millisecond):
				}
			}
			if pd == nil && r.totalQueued() == 0 {
				break // parked, nothing queued, no probe in flight: idle
			}
			gt.release("disp.idle") // serve the probe or a queued upgrade request
			time.Sleep(100 * time.Microsecond)
		} else if pd == nil {
			pd = make(chan struct{})
			go func(pd chan struct{}) { r.call("probe", "list", "", "", false); close(pd) }(pd)
		}
		if time.Now().After(deadline) {
			r.hang("dispatcher did not become idle")
			gt.disarm("disp.idle")
			return
		}
	}
	files, adminOK, tmpEmpty := r.project()
	m := base("idle")
	m["files"] = files
	m["checkok"] = adminOK
	m["tmpempty"] = tmpEmpty
	m["checkerr"] = errStr(r.st.dir.Check())
	m["dirsha"] = dirSha(r.base)
	if r.masterBase != "" {
		mf, _, _ := r.projectDir(r.masterBase)
		m["master"] = mf
		m["master_hits"] = atomic.LoadInt32(&r.masterHits)
	}
	rec.add(m)
	gt.disarm("disp.idle")
}

// load: seeded random concurrent clients, no gates.
func (r *runner) load(s step) {
	if s.Watch {
		stop := make(chan struct{})
		seen := make(chan string, 1)
		go func() {
			for {
				select {
				case <-stop:
					return
				default:
				}
				ents, _ := os.ReadDir(r.base)
				have := map[string]bool{}
				for _, e := range ents {
					have[e.Name()] = true
				}
				for n := range have {
					if strings.HasSuffix(n, ".user") && have[strings.TrimSuffix(n, ".user")+".admin"] {
						select {
						case seen <- strings.TrimSuffix(n, ".user"):
						default:
						}
					}
				}
			}
		}()
		defer func() {
			close(stop)
			select {
			case u := <-seen:
				m := base("dupseen")
				m["u"] = u
				rec.mu.Lock()
				m["seq"] = len(rec.events) + 1
				rec.events = append(rec.events, m)
				rec.mu.Unlock()
			default:
			}
		}()
	}
	if s.Quiet {
		atomic.StoreInt32(&recQuiet, 1)
		defer atomic.StoreInt32(&recQuiet, 0)
	}
	var wg sync.WaitGroup
	for i := 0; i < s.Clients; i++ {
		wg.Add(1)
		go func(i int) {
			defer wg.Done()
			rng := rand.New(rand.NewSource(r.sc.Seed*1000 + int64(i)))
			c := fmt.Sprintf("c%d", i+1)
			for j := 0; j < s.Calls; j++ {
				k := s.Kinds[rng.Intn(len(s.Kinds))]
				u := s.Users[rng.Intn(len(s.Users))]
				p := s.Pws[rng.Intn(len(s.Pws))]
				a := rng.Intn(2) == 0
				switch k {
				case "remove":
					p, a = "", false
				case "setadmin":
					p = ""
				case "auth", "update":
					a = false
				case "list":
					u, p, a = "", "", false
				}
				via := "api"
				if len(s.Vias) > 0 {
					via = s.Vias[rng.Intn(len(s.Vias))]
					if k != "auth" && via != "http" {
						via = "api"
					}
					if (u == "" || r.sc.Passwords[p] == "") && k != "list" {
						via = "api" // the transports refuse empty fields before the store is consulted
					}
					if via == "http" && r.fe.token == "" && k != "auth" {
						via = "api"
					}
				}
				r.callVia(via, c, k, u, p, a)
			}
		}(i)
	}
	done := make(chan struct{})
	go func() { wg.Wait(); close(done) }()
	select {
	case <-done:
	case <-time.After(10 * watchdog):
		r.hang("load did not complete")
	}
}

// hup: the operator switches the default parameter set to s.N and sends SIGHUP.  Under gating the dispatcher is
// released once; Go's select may then take the reload or a queued request (both are behaviours of the model).
func (r *runner) hup(s step) {
	count := func() int {
		n := 0
		rec.mu.Lock()
		for _, e := range rec.events[r.res.First:] {
			if e["ev"] == "reloadok" || e["ev"] == "reloadfail" {
				n++
			}
		}
		rec.mu.Unlock()
		return n
	}
	before := count()
	atomic.StoreInt32(&hupWant, int32(s.N))
	os.WriteFile(r.cfg, []byte(concrete.ConfigYAML(r.base, uint(s.N), r.sets, []uint{1, 2, 3})), 0600)
	syscall.Kill(os.Getpid(), syscall.SIGHUP)
	time.Sleep(20 * time.Millisecond)
	if r.sc.Gated {
		if gt.waitParked(50*time.Millisecond, "disp.idle") == "" {
			return
		}
		gt.release("disp.idle")
		if gt.waitParked(watchdog, "disp.idle", "upgrade.send") == "" {
			r.hang("after hup")
		}
		return
	}
	for i := 0; i < 2000 && count() == before; i++ {
		time.Sleep(time.Millisecond)
	}
}

// fdStorm: a sasl client connects while the process has no free file descriptor (accept fails with
// EMFILE); after descriptors are free again that client and a fresh one must be answered.
func (r *runner) fdStorm(s step) {
	var old syscall.Rlimit
	syscall.Getrlimit(syscall.RLIMIT_NOFILE, &old)
	ents, _ := os.ReadDir("/proc/self/fd")
	lim := syscall.Rlimit{Cur: uint64(len(ents) + 6), Max: old.Max}
	syscall.Setrlimit(syscall.RLIMIT_NOFILE, &lim)
	var hog []*os.File
	for {
		f, err := os.Open("/dev/null")
		if err != nil {
			break
		}
		hog = append(hog, f)
	}
	if len(hog) > 0 { // leave exactly one descriptor: the client's socket
		hog[len(hog)-1].Close()
		hog = hog[:len(hog)-1]
	}
	d1 := make(chan struct{})
	go func() { r.callVia("sasl", "fd1", "auth", s.U, s.P, false); close(d1) }()
	time.Sleep(150 * time.Millisecond)
	for _, f := range hog {
		f.Close()
	}
	syscall.Setrlimit(syscall.RLIMIT_NOFILE, &old)
	d2 := make(chan struct{})
	go func() { r.callVia("sasl", "fd2", "auth", s.U, s.P, false); close(d2) }()
	for _, d := range []chan struct{}{d1, d2} {
		select {
		case <-d:
		case <-time.After(watchdog):
			r.hang("sasl listener stopped answering after a transient accept error")
			return
		}
	}
}

// dirSha is a byte-level fingerprint of the directory (names, modes, contents; .tmp if empty ignored).
func dirSha(dir string) string {
	snap := concrete.Snapshot(dir)
	keys := []string{}
	for k, v := range snap {
		if k == ".tmp" && v == "dir" || k == "." {
			continue
		}
		keys = append(keys, k+"="+v)
	}
	sort.Strings(keys)
	return fmt.Sprintf("%x", sha256.Sum256([]byte(strings.Join(keys, "\n"))))[:16]
}

// policyOK evaluates the scenario's policy condition independently of policy.go: the "user/tag" pairs
// (for every user name the scenario can use, incl. names that equal a password) that satisfy it.
func (r *runner) policyOK() []string {
	out := []string{}
	if r.sc.PolicyType != "zxcvbn" {
		return out // no policy: python treats the empty list as "everything passes"
	}
	f := strings.Fields(r.sc.PolicyCond)
	thr, _ := strconv.ParseFloat(f[2], 64)
	users := map[string]bool{}
	for u := range r.sc.Files {
		users[u] = true
	}
	for _, st := range r.sc.Steps {
		if st.U != "" {
			users[st.U] = true
		}
		for _, u := range st.Users {
			users[u] = true
		}
	}
	for tag, pw := range r.sc.Passwords {
		if tag == "" {
			continue
		}
		for u := range users {
			sc := zxcvbn.PasswordStrength(pw, []string{u, "whawty"})
			var v float64
			switch f[0] {
			case "score":
				v = float64(sc.Score)
			case "entropy":
				v = sc.Entropy
			case "time":
				v = sc.CrackTime
			}
			if v >= thr {
				out = append(out, u+"/"+tag)
			}
		}
	}
	sort.Strings(out)
	if len(out) == 0 {
		out = append(out, "nobody/nothing")
	}
	return out
}

func TestVerifAgentScenarios(t *testing.T) {
	in, out := os.Getenv("VERIF_IN"), os.Getenv("VERIF_OUT")
	if in == "" {
		t.Skip("VERIF_IN not set")
	}
	scratch := os.Getenv("VERIF_SCRATCH")
	if scratch == "" {
		scratch = "/dev/shm/verif-agent"
	}
	b, err := os.ReadFile(in)
	if err != nil {
		t.Fatal(err)
	}
	var scs []scenario
	if err := json.Unmarshal(b, &scs); err != nil {
		t.Fatal(err)
	}
	verifSink = rec.sink
	verifHold = gt.hold
	wl.SetOutput(os.Stderr)
	wl.SetOutput(devNull{})
	var results []scenResult
	for i := range scs {
		r := &runner{sc: &scs[i]}
		res := r.run(filepath.Join(scratch, fmt.Sprintf("s%d", i)))
		results = append(results, res)
		if res.Hung {
			// a wedged dispatcher keeps its goroutines; later scenarios get fresh stores
			gt.disarm("disp.idle", "upgrade.send")
		}
	}
	f, err := os.Create(filepath.Join(out, "trace.ndjson"))
	if err != nil {
		t.Fatal(err)
	}
	enc := json.NewEncoder(f)
	rec.mu.Lock()
	for _, e := range rec.events {
		enc.Encode(e)
	}
	rec.mu.Unlock()
	f.Close()
	rb, _ := json.MarshalIndent(results, "", " ")
	os.WriteFile(filepath.Join(out, "results.json"), rb, 0644)
	os.RemoveAll(scratch)
}

type devNull struct{}

func (devNull) Write(p []byte) (int, error) { return len(p), nil }
