//go:build verif

// Replay of the WebApi module's edges against the real handler mux on top of the real dispatcher (C06).
package main

import (
	"bufio"
	"bytes"
	"encoding/base64"
	"encoding/json"
	"fmt"
	"math/rand"
	"net/http"
	"net/http/httptest"
	"os"
	"path/filepath"
	"sort"
	"strings"
	"sync"
	"testing"
	"time"

	"github.com/whawty/auth/verifconcrete"
)

type wUser struct {
	Present bool   `json:"present"`
	Adm     bool   `json:"adm"`
	Pw      string `json:"pw"`
}

type wEdge struct {
	Ep     string           `json:"ep"`
	Sess   string           `json:"sess"`
	OldPw  string           `json:"oldpw"`
	Target string           `json:"target"`
	Body   string           `json:"body"`
	Adm    bool             `json:"adm"`
	Pre    map[string]wUser `json:"pre"`
	Post   map[string]wUser `json:"post"`
	Status string           `json:"status"`
	List   bool             `json:"list"`
	Token  string           `json:"token"`
}

type wViolation struct {
	Key    string `json:"key"`
	Detail string `json:"detail"`
	Edge   *wEdge `json:"edge,omitempty"`
}

var wPw = map[string]string{"pw-alice": "Alice's pw #1", "pw-bob": "bob:pw", "pw-Alice": "Boss-pw ü", "pw-eve": "eve pw",
	"pw-new": "a brand new password"}

var (
	wMu   sync.Mutex
	wViol = map[string]wViolation{}
	wReqs int
)

func wViolate(key, detail string, e *wEdge) {
	wMu.Lock()
	if _, ok := wViol[key]; !ok {
		wViol[key] = wViolation{key, detail, e}
	}
	wMu.Unlock()
}

type wWorker struct {
	dir, base string
	mux       *http.ServeMux
	sessions  *webSessionFactory
	expiredAfterUseAt time.Time
	tokens    map[string]string
	sets      map[uint]concrete.ParamSet
	lines     map[string]string
}

func (w *wWorker) line(pw string) string {
	if l, ok := w.lines[pw]; ok {
		return l
	}
	rng := rand.New(rand.NewSource(int64(len(w.lines) + 7)))
	l, _ := concrete.MakeRecord(w.sets[1], []byte(wPw[pw]), 1500000000, rng)
	w.lines[pw] = l
	return l
}

func (w *wWorker) materialise(users map[string]wUser) {
	ents, _ := os.ReadDir(w.base)
	for _, e := range ents {
		os.RemoveAll(filepath.Join(w.base, e.Name()))
	}
	for n, u := range users {
		if !u.Present {
			continue
		}
		ext := ".user"
		if u.Adm {
			ext = ".admin"
		}
		if err := os.WriteFile(filepath.Join(w.base, n+ext), []byte(w.line(u.Pw)+"totp: QUJD\n"), 0600); err != nil {
			panic(err)
		}
	}
}

func (w *wWorker) do(path string, body []byte) (int, map[string]interface{}, string) {
	req := httptest.NewRequest("POST", path, bytes.NewReader(body))
	req.Header.Set("Content-Type", "application/json")
	rr := httptest.NewRecorder()
	w.mux.ServeHTTP(rr, req)
	out := map[string]interface{}{}
	json.Unmarshal(rr.Body.Bytes(), &out)
	return rr.Code, out, rr.Body.String()
}

func newWWorker(dir string) *wWorker {
	w := &wWorker{dir: dir, base: filepath.Join(dir, "base"), sets: concrete.DefaultSets(), lines: map[string]string{},
		tokens: map[string]string{}}
	os.RemoveAll(dir)
	if err := os.MkdirAll(w.base, 0700); err != nil {
		panic(err)
	}
	cfg := filepath.Join(dir, "store.yaml")
	os.WriteFile(cfg, []byte(concrete.ConfigYAML(w.base, 1, w.sets, []uint{1, 2})), 0600)
	st, err := NewStore(cfg, "", "", "", "")
	if err != nil {
		panic(err)
	}
	w.mux, err = newWebHandler(st.GetInterface())
	if err != nil {
		panic(err)
	}
	h, _ := w.mux.Handler(httptest.NewRequest("POST", "/api/list", nil))
	w.sessions = h.(webHandler).sessions
	// tokens are issued in the initial state, in which eve still is an administrator
	w.materialise(map[string]wUser{"alice": {true, false, "pw-alice"}, "bob": {true, false, "pw-bob"},
		"Alice": {true, true, "pw-Alice"}, "eve": {true, true, "pw-eve"}})
	for _, n := range []string{"alice", "bob", "Alice", "eve"} {
		b, _ := json.Marshal(map[string]string{"username": n, "password": wPw["pw-"+n]})
		code, out, raw := w.do("/api/authenticate", b)
		tok, _ := out["session"].(string)
		if code != 200 || tok == "" {
			panic("login failed: " + raw)
		}
		key := "tok-" + n
		if n == "eve" {
			key = "tok-eve-staleadmin"
		}
		w.tokens[key] = tok
	}
	now := time.Now().Unix()
	seal := func(f *webSessionFactory, pt string) string {
		_, _, n, c := f.sealToken(pt)
		return base64.URLEncoding.EncodeToString(n) + ":" + base64.URLEncoding.EncodeToString(c)
	}
	w.tokens["expired"] = seal(w.sessions, fmt.Sprintf("Alice:true:%d", now-3600))
	w.tokens["future"] = seal(w.sessions, fmt.Sprintf("Alice:true:%d", now+3600))
	// a token with two or three seconds of life left, used once while it is valid; by the time the first edge presents it
	// it has expired (whatever an earlier acceptance may have left behind in the agent)
	w.tokens["expired-after-use"] = seal(w.sessions, fmt.Sprintf("Alice:true:%d", now-597))
	w.expiredAfterUseAt = time.Unix(now-597+600, 0).Add(1200 * time.Millisecond)
	for _, ep := range []string{"/api/list", "/api/list-full"} {
		b, _ := json.Marshal(map[string]string{"session": w.tokens["expired-after-use"]})
		if code, _, raw := w.do(ep, b); code != 200 {
			panic("the priming request with the short-lived token was refused: " + raw)
		}
	}
	other, _ := NewWebSessionFactory(600 * time.Second)
	w.tokens["other-instance"] = seal(other, fmt.Sprintf("Alice:true:%d", now))
	p := strings.SplitN(w.tokens["tok-Alice"], ":", 2)
	ct, _ := base64.URLEncoding.DecodeString(p[1])
	ct[3] ^= 0x10
	w.tokens["tampered"] = p[0] + ":" + base64.URLEncoding.EncodeToString(ct)
	w.tokens["garbage"] = "AAAA:AAAA"
	w.tokens["none"] = ""
	return w
}

func (w *wWorker) project() map[string]wUser {
	out := map[string]wUser{}
	ents, _ := os.ReadDir(w.base)
	for _, e := range ents {
		if e.Name() == ".tmp" {
			continue
		}
		ext := filepath.Ext(e.Name())
		n := strings.TrimSuffix(e.Name(), ext)
		b, _ := os.ReadFile(filepath.Join(w.base, e.Name()))
		line, _ := concrete.SplitFile(b)
		u := wUser{Present: true, Adm: ext == ".admin", Pw: "?"}
		if rec, err := concrete.ParseLine(line); err == nil {
			if ps, ok := w.sets[rec.Param]; ok {
				for tag, pw := range wPw {
					if bytes.Equal(ps.Digest([]byte(pw), rec.Salt), rec.Digest) {
						u.Pw = tag
					}
				}
			}
		}
		if _, dup := out[n]; dup {
			u.Pw = "DUPLICATE"
		}
		out[n] = u
	}
	return out
}

func (w *wWorker) run(e *wEdge, variant int) {
	w.materialise(e.Pre)
	before := concrete.Snapshot(w.base)
	user := e.Target
	newpw := wPw["pw-new"]
	old := ""
	switch e.OldPw {
	case "right":
		old = "no such user, so no right password"
		if u, ok := e.Pre[e.Target]; ok && u.Present {
			old = wPw[u.Pw]
		}
	case "wrong":
		old = []string{"not the password", wPw["pw-new"], " ", wPw["pw-Alice"]}[variant%4]
		if u, ok := e.Pre[e.Target]; ok && u.Present {
			if variant%2 == 1 && len(wPw[u.Pw]) > 2 {
				old = wPw[u.Pw][:len(wPw[u.Pw])-1] // near miss
			}
			if old == wPw[u.Pw] {
				old = "not the password"
			}
		}
	}
	sess := w.tokens[e.Sess]
	if e.Sess == "expired-after-use" {
		if d := time.Until(w.expiredAfterUseAt); d > 0 {
			time.Sleep(d)
		}
	}
	if e.Sess == "garbage" {
		sess = []string{"AAAA:AAAA", "x", ":", "AAAAAAAAAAAAAAAA:AAAAAAAAAAAAAAAAAAAAAAAAAAAAAAAA", "null"}[variant%5]
	}
	if e.Body == "empty-user" {
		user = ""
	}
	if e.Body == "empty-pw" {
		newpw = ""
		if e.Ep == "authenticate" {
			old = ""
		}
	}
	m := map[string]interface{}{}
	path := "/api/" + e.Ep
	switch e.Ep {
	case "authenticate":
		m["username"], m["password"] = user, old
	case "add":
		m["session"], m["username"], m["password"], m["admin"] = sess, user, newpw, e.Adm
	case "remove":
		m["session"], m["username"] = sess, user
	case "set-admin":
		m["session"], m["username"], m["admin"] = sess, user, e.Adm
	case "list", "list-full":
		m["session"] = sess
	case "update":
		m["username"], m["newpassword"] = user, newpw
		if e.Sess != "none" {
			m["session"] = sess
		}
		if e.OldPw != "none" {
			m["oldpassword"] = old
		}
	}
	if e.Body == "extra-field" {
		m["unexpected"] = map[string]interface{}{"a": []int{1, 2}}
	}
	if e.Body == "wrongtype" {
		m[[]string{"username", "session"}[variant%2]] = 12345
		if e.Ep == "list" || e.Ep == "list-full" || e.Ep == "authenticate" {
			m["username"] = []string{"x"}
			m["session"] = 1
		}
	}
	if e.Body == "missing-cred" {
		// prime: a request of the same endpoint with an administrator's credentials that is refused for its (invalid) target, so
		// that nothing changes - then the probe without any credential member
		prime := map[string]interface{}{"session": w.tokens["tok-Alice"], "username": "../nobody", "password": wPw["pw-Alice"], "newpassword": "x", "admin": false}
		if e.Ep == "authenticate" {
			prime = map[string]interface{}{"username": "Alice", "password": wPw["pw-Alice"]}
		}
		if e.Ep == "update" && variant%2 == 1 {
			prime = map[string]interface{}{"username": "Alice", "oldpassword": wPw["pw-Alice"], "newpassword": ""}
		}
		pb, _ := json.Marshal(prime)
		for i := 0; i < 3; i++ {
			w.do(path, pb)
		}
		delete(m, "session")
		delete(m, "oldpassword")
		delete(m, "password")
		if variant%3 == 2 { // ... or explicitly null
			m["session"], m["password"], m["oldpassword"] = nil, nil, nil
		}
	}
	body, _ := json.Marshal(m)
	if e.Body == "malformed" {
		body = [][]byte{body[:len(body)/2], []byte("{"), []byte(""), []byte("[]"), []byte("{\"session\": }")}[variant%5]
	}
	var code int
	var out map[string]interface{}
	var raw string
	func() {
		defer func() {
			if r := recover(); r != nil {
				code, raw = -1, fmt.Sprint(r)
			}
		}()
		code, out, raw = w.do(path, body)
	}()
	wMu.Lock()
	wReqs++
	wMu.Unlock()
	key := fmt.Sprintf("%s:%s/%s:%s", e.Ep, e.Sess, e.OldPw, e.Body)
	if code == -1 {
		wViolate(key+":panic", raw, e)
		return
	}
	ok := code >= 200 && code < 300
	if ok != (e.Status == "ok") {
		wViolate(key+fmt.Sprintf(":status-%v", ok), fmt.Sprintf("target %s: model %s, real HTTP %d %.200s", e.Target, e.Status, code, raw), e)
	}
	after := concrete.Snapshot(w.base)
	diff := concrete.DiffSnap(before, after)
	for i := 0; i < len(diff); i++ {
		if diff[i] == "+.tmp" {
			diff = append(diff[:i], diff[i+1:]...)
			i--
		}
	}
	same := true
	for n := range e.Pre {
		if e.Pre[n] != e.Post[n] {
			same = false
		}
	}
	// an update that re-sets the password the user already has rewrites the record (fresh salt) although
	// the abstract state is the same
	rewrite := e.Ep == "update" && e.Status == "ok" && !(e.OldPw != "none" && e.Body == "empty-pw")
	if same && rewrite {
		for _, d := range diff {
			if !strings.HasPrefix(d, "~"+e.Target+".") {
				wViolate(key+":store-changed", fmt.Sprintf("target %s: %v", e.Target, diff), e)
			}
		}
		if got := w.project(); got[e.Target] != e.Post[e.Target] {
			wViolate(key+":effect", fmt.Sprintf("user %s: model %+v real %+v", e.Target, e.Post[e.Target], got[e.Target]), e)
		}
	} else if same {
		if len(diff) > 0 {
			k := ":store-changed"
			if e.Status == "refused" {
				k = ":refused-but-store-changed"
			}
			wViolate(key+k, fmt.Sprintf("target %s: %v", e.Target, diff), e)
		}
	} else {
		got := w.project()
		for n, want := range e.Post {
			g := got[n]
			if g != want {
				wViolate(key+":effect", fmt.Sprintf("user %s: model %+v real %+v", n, want, g), e)
			}
		}
		for n := range got {
			if _, known := e.Post[n]; !known {
				wViolate(key+":effect", "unexpected user file "+n, e)
			}
		}
	}
	// disclosure
	l, has := out["list"].(map[string]interface{})
	if !e.List && has && len(l) > 0 {
		wViolate(key+":list-disclosed", fmt.Sprintf("HTTP %d with a user list of %d entries", code, len(l)), e)
	}
	if e.List && ok {
		want := []string{}
		for n, u := range e.Post {
			if u.Present {
				want = append(want, n)
			}
		}
		gotl := []string{}
		for n := range l {
			gotl = append(gotl, n)
		}
		sort.Strings(want)
		sort.Strings(gotl)
		if fmt.Sprint(want) != fmt.Sprint(gotl) {
			wViolate(key+":list-content", fmt.Sprintf("model %v real %v", want, gotl), e)
		}
	}
	// a token is issued only by a successful authentication and names the login identity
	s, _ := out["session"].(string)
	if e.Token == "" && s != "" {
		wViolate(key+":token-without-authentication", raw, e)
	}
	if e.Token != "" && ok {
		st, _, u, a := w.sessions.Check(s)
		if st != http.StatusOK || u != e.Token || a != e.Pre[e.Token].Adm {
			wViolate(key+":token-identity", fmt.Sprintf("token checks as (%d,%q,%v), login was %q admin=%v", st, u, a, e.Token, e.Pre[e.Token].Adm), e)
		}
		if adm, _ := out["admin"].(bool); adm != e.Pre[e.Token].Adm {
			wViolate(key+":admin-flag", raw, e)
		}
	}
}

func TestVerifWebApi(t *testing.T) {
	in, outp := os.Getenv("VERIF_IN"), os.Getenv("VERIF_OUT")
	if in == "" {
		t.Skip("VERIF_IN not set")
	}
	scratch := os.Getenv("VERIF_SCRATCH")
	f, err := os.Open(in)
	if err != nil {
		t.Fatal(err)
	}
	defer f.Close()
	wl.SetOutput(devNull{})
	sc := bufio.NewScanner(f)
	sc.Buffer(make([]byte, 1<<20), 1<<24)
	ch := make(chan *wEdge, 256)
	var wg sync.WaitGroup
	start := time.Now()
	for i := 0; i < 16; i++ {
		wg.Add(1)
		go func(i int) {
			defer wg.Done()
			w := newWWorker(filepath.Join(scratch, fmt.Sprintf("w%d", i)))
			n := 0
			for e := range ch {
				n++
				w.run(e, n)
			}
		}(i)
	}
	edges := 0
	perEp := map[string]int{}
	for sc.Scan() {
		var e wEdge
		if err := json.Unmarshal(sc.Bytes(), &e); err != nil {
			t.Fatal(err)
		}
		edges++
		perEp[e.Ep]++
		ee := e
		ch <- &ee
	}
	close(ch)
	wg.Wait()
	// overlapping logins on one handler: right password of the administrator next to wrong passwords of a plain user.  Nobody
	// may obtain a session (let alone an administrator's) with a wrong password, and the issued session names the caller.
	storm := newWWorker(filepath.Join(scratch, "storm"))
	keys := []string{}
	for k := range wPw {
		keys = append(keys, k)
	}
	sort.Strings(keys)
	right, wrong := keys[0], keys[1]
	storm.materialise(map[string]wUser{"Alice": {true, true, right}, "bob": {true, false, right}})
	var swg sync.WaitGroup
	for g := 0; g < 16; g++ {
		swg.Add(1)
		go func(g int) {
			defer swg.Done()
			for i := 0; i < 120; i++ {
				user, pw, want := "Alice", right, true
				if (g+i)%2 == 1 {
					user, pw, want = "bob", wrong, false
				}
				body, _ := json.Marshal(map[string]string{"username": user, "password": wPw[pw]})
				code, out, _ := storm.do("/api/authenticate", body)
				wMu.Lock()
				wReqs++
				wMu.Unlock()
				if !want && code == 200 {
					wViolate("concurrent-login:wrong-password-got-session", fmt.Sprintf("user %s, reply %v", user, out), nil)
				}
				if want && code != 200 {
					wViolate("concurrent-login:right-password-refused", fmt.Sprintf("user %s: HTTP %d %v", user, code, out), nil)
				}
				if code == 200 {
					if tok, _ := out["session"].(string); tok != "" {
						_, _, su, sadm := storm.sessions.Check(tok)
						if su != user || sadm != (user == "Alice") {
							wViolate("concurrent-login:session-names-another-account", fmt.Sprintf("login of %s returned a session for %s (admin=%v)", user, su, sadm), nil)
						}
					}
				}
			}
		}(g)
	}
	swg.Wait()
	var vs []wViolation
	for _, v := range wViol {
		vs = append(vs, v)
	}
	res := map[string]interface{}{"edges": edges, "requests": wReqs, "per_endpoint": perEp, "violations": vs,
		"elapsed_s": time.Since(start).Seconds()}
	b, _ := json.MarshalIndent(res, "", " ")
	os.WriteFile(outp, b, 0644)
	os.RemoveAll(scratch)
}
