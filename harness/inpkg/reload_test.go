//go:build verif

// Reload scenarios on a real agent (C18): configurations are put on disk, the process signals itself
// with SIGHUP, and the outcome is observed through the verif hook and through where subsequent writes land.
package main

import (
	"encoding/json"
	"fmt"
	"math/rand"
	"os"
	"path/filepath"
	"sync"
	"sync/atomic"
	"syscall"
	"testing"
	"time"

	"github.com/whawty/auth/verifconcrete"
)

type rlCfg struct {
	Base    string
	Default uint
	Sets    []uint
}

func TestVerifReload(t *testing.T) {
	in, outp := os.Getenv("VERIF_IN"), os.Getenv("VERIF_OUT")
	if in == "" {
		t.Skip("VERIF_IN not set")
	}
	scratch := os.Getenv("VERIF_SCRATCH")
	wl.SetOutput(devNull{})
	var plan [][]string // sequences of disk kinds
	b, _ := os.ReadFile(in)
	if err := json.Unmarshal(b, &plan); err != nil {
		t.Fatal(err)
	}
	sets := concrete.DefaultSets()
	cfgs := map[string]rlCfg{"A": {"A", 1, []uint{1, 2}}, "B": {"B", 2, []uint{2, 3}}, "C": {"A", 2, []uint{1, 2, 3}}, "D": {"noadmin", 1, []uint{1}},
		"E": {"A", 1, []uint{1, 3}}, // same directory as A/C, but the only administrator's parameter set (2) is gone: fails the check
		"F": {"B", 3, []uint{3}},    // the same for B's directory
		"G": {"stray", 1, []uint{1, 2}},
		"H": {"A", 2, []uint{2, 3}}} // loads (the administrator's set 2 is there), but set 1 is retired: its records are unsupported from now on // a directory with a valid administrator and a stray file: fails the check
	rng := rand.New(rand.NewSource(7))
	var events []map[string]interface{}
	var emu sync.Mutex
	emit := func(m map[string]interface{}) {
		for _, k := range []string{"k", "base"} {
			if _, ok := m[k]; !ok {
				m[k] = ""
			}
		}
		for _, k := range []string{"default", "param", "set", "unanswered"} {
			if _, ok := m[k]; !ok {
				m[k] = 0
			}
		}
		if _, ok := m["ok"]; !ok {
			m["ok"] = false
		}
		if _, ok := m["sets"]; !ok {
			m["sets"] = []int{}
		}
		emu.Lock()
		events = append(events, m)
		emu.Unlock()
	}
	reloaded := make(chan map[string]interface{}, 16)
	verifHold = nil
	verifSink = func(ev string, args ...interface{}) {
		if ev == "reload.ok" || ev == "reload.fail" {
			rec := &recorder{}
			rec.sink(ev, args...)
			reloaded <- rec.events[0]
		}
	}
	for si, seq := range plan {
		root := filepath.Join(scratch, fmt.Sprintf("r%d", si))
		os.RemoveAll(root)
		mkbase := func(name string, admin bool) string {
			d := filepath.Join(root, name)
			os.MkdirAll(d, 0700)
			if admin {
				for set := uint(1); set <= 3; set++ { // one user per parameter set, all with password "pw"
					line, _ := concrete.MakeRecord(sets[set], []byte("pw"), 1500000000, rng)
					ext := ".user"
					if set == 2 {
						ext = ".admin"
					}
					os.WriteFile(filepath.Join(d, fmt.Sprintf("set%d%s", set, ext)), []byte(line), 0600)
				}
			}
			return d
		}
		bases := map[string]string{"A": mkbase("A", true), "B": mkbase("B", true), "noadmin": mkbase("noadmin", false), "stray": mkbase("stray", true)}
		os.WriteFile(filepath.Join(bases["stray"], "README.txt"), []byte("hello\n"), 0600)
		cfgfile := filepath.Join(root, "store.yaml")
		write := func(kind string) {
			switch kind {
			case "unparsable":
				os.WriteFile(cfgfile, []byte("basedir: [\n  this is not yaml"), 0600)
			case "unknownkey":
				os.WriteFile(cfgfile, []byte(concrete.ConfigYAML(bases["B"], 2, sets, []uint{2, 3})+"colour: blue\n"), 0600)
			case "badset":
				os.WriteFile(cfgfile, []byte(concrete.ConfigYAML(bases["B"], 9, sets, []uint{2, 3})), 0600)
			case "rekeyed-baddefault", "rekeyed-stray":
				// configurations that are refused only AFTER their parameter sets have been parsed (undefined default / a
				// directory that fails the check) and that re-define every id in use with other keys and costs: nothing
				// of them may show in the configuration the agent goes on using
				rk := map[uint]concrete.ParamSet{}
				for id, ps := range sets {
					if ps.Algo == "scrypt" {
						k := append([]byte{}, ps.HmacKey...)
						for i := range k {
							k[i] ^= 0x5a
						}
						ps.HmacKey = k
					} else {
						ps.Time++
					}
					rk[id] = ps
				}
				if kind == "rekeyed-baddefault" {
					os.WriteFile(cfgfile, []byte(concrete.ConfigYAML(bases["A"], 9, rk, []uint{1, 2, 3})), 0600)
				} else {
					os.WriteFile(cfgfile, []byte(concrete.ConfigYAML(bases["stray"], 1, rk, []uint{1, 2, 3})), 0600)
				}
			case "missing":
				os.Remove(cfgfile)
			default:
				c := cfgs[kind]
				os.WriteFile(cfgfile, []byte(concrete.ConfigYAML(bases[c.Base], c.Default, sets, c.Sets)), 0600)
			}
		}
		write(seq[0])
		st, err := NewStore(cfgfile, "", "", "", "")
		if err != nil {
			t.Fatal(err)
		}
		api := st.GetInterface()
		emit(map[string]interface{}{"ev": "start", "k": seq[0]})
		// requests in flight all the time
		var stop, unanswered, answered int32
		var wg sync.WaitGroup
		for g := 0; g < 4; g++ {
			wg.Add(1)
			go func(g int) {
				defer wg.Done()
				for atomic.LoadInt32(&stop) == 0 {
					done := make(chan struct{})
					go func() {
						if g%2 == 0 {
							api.Authenticate("set2", "pw")
						} else {
							api.List()
						}
						close(done)
					}()
					select {
					case <-done:
						atomic.AddInt32(&answered, 1)
					case <-time.After(5 * time.Second):
						atomic.AddInt32(&unanswered, 1)
						return
					}
				}
			}(g)
		}
		baseName := func(p string) string { return filepath.Base(p) }
		wedged := false
		within := func(f func()) bool { // a request that is not answered within 5 s: the agent is wedged
			if wedged {
				return false
			}
			done := make(chan struct{})
			go func() { f(); close(done) }()
			select {
			case <-done:
				return true
			case <-time.After(5 * time.Second):
				wedged = true
				atomic.AddInt32(&unanswered, 1)
				return false
			}
		}
		observe := func(step int) {
			// where does a write land, and under which parameter set?
			user := fmt.Sprintf("new%d", step)
			var err error
			if !within(func() { err = api.Add(user, "pw", false) }) {
				return
			}
			if err == nil {
				for name, dir := range bases {
					if bb, err := os.ReadFile(filepath.Join(dir, user+".user")); err == nil {
						line, _ := concrete.SplitFile(bb)
						r, _ := concrete.ParseLine(line)
						emit(map[string]interface{}{"ev": "wrote", "base": name, "param": int(r.Param)})
					}
				}
			} else {
				emit(map[string]interface{}{"ev": "wrote", "base": "ERROR " + err.Error(), "param": 0})
			}
			for set := 1; set <= 3; set++ {
				var ok bool
				if !within(func() { ok, _, _, _ = api.Authenticate(fmt.Sprintf("set%d", set), "pw") }) {
					return
				}
				emit(map[string]interface{}{"ev": "login", "base": baseName(st.dir.BaseDir), "set": set, "ok": ok})
			}
		}
		observe(0)
		for i, kind := range seq[1:] {
			if wedged {
				break
			}
			write(kind)
			dk := "X" // not loadable
			if _, ok := cfgs[kind]; ok {
				dk = kind
			}
			emit(map[string]interface{}{"ev": "disk", "k": dk})
			syscall.Kill(os.Getpid(), syscall.SIGHUP)
			select {
			case ev := <-reloaded:
				ids := []int{}
				for _, x := range ev["list"].([]int) {
					ids = append(ids, x)
				}
				def := 0
				fmt.Sscan(fmt.Sprint(ev["p"]), &def)
				emit(map[string]interface{}{"ev": "reloaded", "ok": ev["ev"] == "reloadok", "base": baseName(fmt.Sprint(ev["u"])), "default": def, "sets": ids})
			case <-time.After(5 * time.Second):
				emit(map[string]interface{}{"ev": "reloaded", "ok": false, "base": "NO REACTION TO SIGHUP", "default": 0, "sets": []int{}})
			}
			observe(i + 1)
		}
		atomic.StoreInt32(&stop, 1)
		wg.Wait()
		emit(map[string]interface{}{"ev": "inflight", "unanswered": int(atomic.LoadInt32(&unanswered)), "k": fmt.Sprint(atomic.LoadInt32(&answered))})
	}
	f, _ := os.Create(outp)
	enc := json.NewEncoder(f)
	for _, e := range events {
		enc.Encode(e)
	}
	f.Close()
	os.RemoveAll(scratch)
}
