//go:build verif

// In-package driver for Sync.tla: two real agents in one process - a master (local upgrades, real web
// handler behind an httptest server) and a slave (remote upgrades towards that server) - each with its own
// store directory and configuration file, and real `rsync -rlpt --delete` runs restricted to one file name
// per step.  Every step of a model history (tlc -simulate on MC_Sync_gen.cfg) is executed, then both
// directories are projected and compared with the model's post-state; login verdicts and reload outcomes are
// compared with the model's.
package main

import (
	"bytes"
	"crypto/sha256"
	"encoding/json"
	"fmt"
	"math/rand"
	"net/http"
	"net/http/httptest"
	"os"
	"os/exec"
	"path/filepath"
	"sort"
	"strings"
	"sync"
	"sync/atomic"
	"syscall"
	"testing"
	"time"

	"github.com/whawty/auth/verifconcrete"

	lib "github.com/whawty/auth/store"
)

type syncFile struct {
	U string `json:"u"`
	X string `json:"x"`
	P string `json:"p"`
	K uint   `json:"k"`
}

type syncStep struct {
	T     string     `json:"t"`
	U     string     `json:"u"`
	X     string     `json:"x"`
	P     string     `json:"p"`
	A     bool       `json:"a"`
	OK    bool       `json:"ok"`
	Adm   bool       `json:"adm"`
	Up    bool       `json:"up"`
	Def   uint       `json:"def"`
	Sup   []uint     `json:"sup"`
	MS    []syncFile `json:"ms"`
	SS    []syncFile `json:"ss"`
	Dirty []syncFile `json:"dirty"`
}

type syncInput struct {
	Histories [][]syncStep      `json:"histories"`
	Passwords map[string]string `json:"passwords"`
	SlaveMode string            `json:"slave_mode"` // remote | off | local
	Seed      int64             `json:"seed"`
}

type syncFinding struct {
	History int    `json:"history"`
	Step    int    `json:"step"`
	Prop    string `json:"prop"`
	Key     string `json:"key"`
	Detail  string `json:"detail"`
}

type syncHost struct {
	dir, base, cfg string
	st             *store
	api            *Store
}

var (
	syncMu      sync.Mutex
	syncReloads = map[string][]bool{} // base directory -> outcomes of reloads seen so far
)

func syncSink(ev string, args ...interface{}) {
	if os.Getenv("VERIF_SYNC_DEBUG") != "" && len(args) > 0 {
		fmt.Fprintf(os.Stderr, "EV %s %v\n", ev, args[0])
	}
	if ev != "reload.ok" && ev != "reload.fail" {
		return
	}
	if d, ok := args[1].(*lib.Dir); ok && d != nil {
		syncMu.Lock()
		syncReloads[d.BaseDir] = append(syncReloads[d.BaseDir], ev == "reload.ok")
		syncMu.Unlock()
	}
}

func syncReloadCount(base string) int {
	syncMu.Lock()
	defer syncMu.Unlock()
	return len(syncReloads[base])
}

type syncRun struct {
	in      *syncInput
	sets    map[uint]concrete.ParamSet
	m, s    syncHost
	aux     map[string]string // master: user -> auxiliary data the record must carry ("" = none)
	lastM   map[string]string // master: name -> content as last seen (see bump)
	clock   int64
	finds   []syncFinding
	hi, si  int
	steps   int
	syncs   int
	reloads int
}

func (r *syncRun) find(prop, key, detail string) {
	r.finds = append(r.finds, syncFinding{History: r.hi, Step: r.si, Prop: prop, Key: key, Detail: detail})
}

func (r *syncRun) writeCfg(h *syncHost, def uint, sup []uint) {
	ids := append([]uint{}, sup...)
	sort.Slice(ids, func(i, j int) bool { return ids[i] < ids[j] })
	os.WriteFile(h.cfg, []byte(concrete.ConfigYAML(h.base, def, r.sets, ids)), 0600)
}

// proj: the directory as model files (password identified by recomputing the digest with x/crypto only)
func (r *syncRun) proj(base string) (map[string]syncFile, map[string][]byte, string) {
	out := map[string]syncFile{}
	raw := map[string][]byte{}
	extra := ""
	ents, _ := os.ReadDir(base)
	for _, e := range ents {
		n := e.Name()
		if n == ".tmp" {
			if sub, _ := os.ReadDir(filepath.Join(base, n)); len(sub) != 0 {
				extra += " .tmp-not-empty"
			}
			continue
		}
		ext := filepath.Ext(n)
		u := strings.TrimSuffix(n, ext)
		if ext != ".user" && ext != ".admin" {
			extra += " stray:" + n
			continue
		}
		b, _ := os.ReadFile(filepath.Join(base, n))
		raw[n] = b
		line, _ := concrete.SplitFile(b)
		f := syncFile{U: u, X: ext[1:], P: "?"}
		if recd, err := concrete.ParseLine(line); err == nil {
			f.K = recd.Param
			if set, ok := r.sets[recd.Param]; ok && set.FormatID() == recd.Format {
				for tag, pw := range r.in.Passwords {
					if bytes.Equal(set.Digest([]byte(pw), recd.Salt), recd.Digest) {
						f.P = tag
					}
				}
			}
		}
		out[n] = f
	}
	return out, raw, extra
}

func wantMap(fs []syncFile) map[string]syncFile {
	m := map[string]syncFile{}
	for _, f := range fs {
		m[f.U+"."+f.X] = f
	}
	return m
}

func diffProj(want, got map[string]syncFile) string {
	var d []string
	for n, w := range want {
		if g, ok := got[n]; !ok {
			d = append(d, "missing "+n)
		} else if g != w {
			d = append(d, fmt.Sprintf("%s is (pw %s, set %d), expected (pw %s, set %d)", n, g.P, g.K, w.P, w.K))
		}
	}
	for n := range got {
		if _, ok := want[n]; !ok {
			d = append(d, "unexpected "+n)
		}
	}
	sort.Strings(d)
	return strings.Join(d, "; ")
}

// settle: compares both directories with the model's post-state; an asynchronous effect (the forwarded
// upgrade: HTTP request to the master, then the master's queued local upgrade) gets up to 3 s to land.
func (r *syncRun) settle(st *syncStep) {
	wm, ws := wantMap(st.MS), wantMap(st.SS)
	var dm, ds, em, es string
	var rawM, rawS map[string][]byte
	deadline := time.Now().Add(3 * time.Second)
	for {
		var gm, gs map[string]syncFile
		gm, rawM, em = r.proj(r.m.base)
		gs, rawS, es = r.proj(r.s.base)
		dm, ds = diffProj(wm, gm), diffProj(ws, gs)
		if (dm == "" && ds == "") || time.Now().After(deadline) {
			break
		}
		time.Sleep(5 * time.Millisecond)
	}
	kind := st.T
	if dm != "" {
		prop := "C12"
		switch st.T {
		case "madd", "mupdate", "msetadmin", "mremove":
			prop = "C01"
		}
		r.find(prop, "sync:"+kind+":master-directory", dm)
	}
	if ds != "" {
		r.find("C12", "sync:"+kind+":slave-directory", ds)
	}
	if em != "" || es != "" { // a work file of a write in flight is not residue: look again
		time.Sleep(100 * time.Millisecond)
		_, _, em = r.proj(r.m.base)
		_, _, es = r.proj(r.s.base)
	}
	if em != "" || es != "" {
		r.find("C16", "sync:"+kind+":directory-content", "master:"+em+" slave:"+es)
	}
	r.bump()
	if dm != "" || ds != "" {
		return
	}
	// a name not changed on the master since it was last copied is byte-identical on both hosts
	dirty := wantMap(st.Dirty)
	for n, b := range rawM {
		if _, d := dirty[n]; d {
			continue
		}
		if sb, ok := rawS[n]; ok && !bytes.Equal(sb, b) {
			r.find("C12", "sync:"+kind+":clean-file-differs", n)
		}
	}
	// auxiliary data on the master survives every operation on an existing user
	for n, b := range rawM {
		u := strings.TrimSuffix(n, filepath.Ext(n))
		_, rest := concrete.SplitFile(b)
		if string(rest) != r.aux[u] {
			r.find("C12", "sync:"+kind+":auxiliary-data", fmt.Sprintf("%s: %d bytes, expected %d", n, len(rest), len(r.aux[u])))
		}
	}
}

// bump: every version of a master file gets a modification time of its own second.  rsync -t skips a name whose
// size and whole-second modification time are unchanged (Sync.tla, QuickCheck); the histories are generated with
// QuickCheck = FALSE, i.e. for writes that do not share a second, and the harness must not depend on how fast it runs.
func (r *syncRun) bump() {
	ents, _ := os.ReadDir(r.m.base)
	for _, e := range ents {
		if e.Name() == ".tmp" {
			continue
		}
		p := filepath.Join(r.m.base, e.Name())
		b, err := os.ReadFile(p)
		if err != nil {
			continue
		}
		if old, ok := r.lastM[p]; !ok || old != string(b) {
			r.lastM[p] = string(b)
			r.clock += 2
			ts := time.Unix(t0agent+r.clock, 0)
			os.Chtimes(p, ts, ts)
		}
	}
}

// quickCheckHazard reproduces the known hazard with the documented rsync flags: a same-size rewrite within the
// second of the version already copied is not transferred.  Reported as coverage information, never as a violation.
func (r *syncRun) quickCheckHazard(scratch string) string {
	a, b := filepath.Join(scratch, "qa"), filepath.Join(scratch, "qb")
	os.MkdirAll(a, 0700)
	os.MkdirAll(b, 0700)
	rng := rand.New(rand.NewSource(7))
	l1, _ := concrete.MakeRecord(r.sets[1], []byte("one"), t0agent, rng)
	l2, _ := concrete.MakeRecord(r.sets[1], []byte("two"), t0agent, rng)
	f := filepath.Join(a, "u1.user")
	os.WriteFile(f, []byte(l1), 0600)
	os.Chtimes(f, time.Unix(t0agent, 100), time.Unix(t0agent, 100))
	exec.Command("rsync", "-rlpt", "--delete", a+"/", b+"/").Run()
	os.WriteFile(f, []byte(l2), 0600)
	os.Chtimes(f, time.Unix(t0agent, 900000000), time.Unix(t0agent, 900000000))
	exec.Command("rsync", "-rlpt", "--delete", a+"/", b+"/").Run()
	got, _ := os.ReadFile(filepath.Join(b, "u1.user"))
	switch string(got) {
	case l1:
		return "reproduced: same-size rewrite within one second was not transferred"
	case l2:
		return "not reproduced: this rsync transferred the rewrite"
	}
	return "inconclusive"
}

func (r *syncRun) reload(h *syncHost, st *syncStep, who string) {
	bm, bs := syncReloadCount(r.m.base), syncReloadCount(r.s.base)
	r.writeCfg(h, st.Def, st.Sup)
	syscall.Kill(os.Getpid(), syscall.SIGHUP)
	for i := 0; i < 5000 && (syncReloadCount(r.m.base) == bm || syncReloadCount(r.s.base) == bs); i++ {
		time.Sleep(time.Millisecond)
	}
	syncMu.Lock()
	outs := syncReloads[h.base]
	syncMu.Unlock()
	r.reloads++
	if len(outs) == 0 || syncReloadCount(r.m.base) == bm || syncReloadCount(r.s.base) == bs {
		r.find("C10", "sync:"+who+":reload-not-performed", "no reload event within 5 s")
		return
	}
	if got := outs[len(outs)-1]; got != st.OK {
		r.find("C18", fmt.Sprintf("sync:%s:reload-outcome:%v-expected-%v", who, got, st.OK),
			fmt.Sprintf("default %d, sets %v", st.Def, st.Sup))
	}
	// the configuration in use is observed through behaviour: the following logins / writes of the history
}

func timed(f func()) bool {
	done := make(chan struct{})
	go func() { f(); close(done) }()
	select {
	case <-done:
		return true
	case <-time.After(10 * time.Second):
		return false
	}
}

func (r *syncRun) history(hi int, h []syncStep, scratch string) {
	r.hi = hi
	dir := filepath.Join(scratch, fmt.Sprintf("h%d", hi))
	os.RemoveAll(dir)
	r.m = syncHost{dir: filepath.Join(dir, "master")}
	r.s = syncHost{dir: filepath.Join(dir, "slave")}
	for _, x := range []*syncHost{&r.m, &r.s} {
		x.base = filepath.Join(x.dir, "base")
		x.cfg = filepath.Join(x.dir, "store.yaml")
		os.MkdirAll(filepath.Join(x.base, ".tmp"), 0700)
	}
	init0 := h[0]
	rng := rand.New(rand.NewSource(r.in.Seed + int64(hi)))
	auxv := []string{"", "totp: QUJD\n", "totp: QUJD\nu2f: REVG", "bin: \x00\x01\xff\n\nend", "long: " + strings.Repeat("A", 5000) + "\n"}
	r.aux = map[string]string{}
	r.lastM = map[string]string{}
	for i, f := range init0.MS {
		line, _ := concrete.MakeRecord(r.sets[f.K], []byte(r.in.Passwords[f.P]), t0agent, rng)
		r.aux[f.U] = auxv[(i+hi+1)%len(auxv)]
		os.WriteFile(filepath.Join(r.m.base, f.U+"."+f.X), []byte(line+r.aux[f.U]), 0600)
	}
	r.bump()
	sup := []uint{}
	for k := uint(1); k <= init0.Def; k++ {
		sup = append(sup, k)
	}
	r.writeCfg(&r.m, init0.Def, sup)
	r.writeCfg(&r.s, init0.Def, sup)
	if out, err := exec.Command("rsync", "-rlpt", "--delete", r.m.base+"/", r.s.base+"/").CombinedOutput(); err != nil {
		panic(fmt.Sprintf("initial rsync: %v %s", err, out))
	}
	var err error
	if r.m.st, err = NewStore(r.m.cfg, "local", "", "", ""); err != nil {
		panic(err)
	}
	r.m.api = r.m.st.GetInterface()
	mux, err := newWebHandler(r.m.api)
	if err != nil {
		panic(err)
	}
	var hits, wantHits int32 // forwarded upgrade requests completely handled by the master / expected by the model
	srv := httptest.NewServer(http.HandlerFunc(func(w http.ResponseWriter, q *http.Request) {
		mux.ServeHTTP(w, q)
		atomic.AddInt32(&hits, 1)
	}))
	defer func() {
		done := make(chan struct{})
		go func() { srv.CloseClientConnections(); srv.Close(); close(done) }()
		select {
		case <-done:
		case <-time.After(2 * time.Second):
		}
	}()
	mode := map[string]string{"remote": srv.URL + "/api/update", "off": "", "local": "local"}[r.in.SlaveMode]
	if r.s.st, err = NewStore(r.s.cfg, mode, "", "", ""); err != nil {
		panic(err)
	}
	r.s.api = r.s.st.GetInterface()

	for si := 1; si < len(h); si++ {
		st := &h[si]
		r.si = si
		r.steps++
		if os.Getenv("VERIF_SYNC_DEBUG") != "" {
			fmt.Fprintf(os.Stderr, "STEP %d %s %s %s\n", si, st.T, st.U, st.P)
		}
		pw := r.in.Passwords[st.P]
		answered := timed(func() {
			switch st.T {
			case "madd":
				if err := r.m.api.Add(st.U, pw, st.A); err != nil {
					r.find("C01", "sync:madd:refused", err.Error())
				}
				r.aux[st.U] = ""
			case "mupdate":
				if err := r.m.api.Update(st.U, pw); err != nil {
					r.find("C01", "sync:mupdate:refused", err.Error())
				}
			case "msetadmin":
				if err := r.m.api.SetAdmin(st.U, st.A); err != nil {
					r.find("C01", "sync:msetadmin:refused", err.Error())
				}
			case "mremove":
				if err := r.m.api.Remove(st.U); err != nil {
					r.find("C01", "sync:mremove:refused", err.Error())
				}
				delete(r.aux, st.U)
			case "mlogin":
				ok, _, _, _ := r.m.api.Authenticate(st.U, pw)
				if ok != st.OK {
					r.find("C01", fmt.Sprintf("sync:mlogin:verdict-%v-expected-%v", ok, st.OK), st.U+"/"+st.P)
				}
			case "slogin":
				ok, adm, _, _ := r.s.api.Authenticate(st.U, pw)
				if ok != st.OK {
					r.find("C01", fmt.Sprintf("sync:slogin:verdict-%v-expected-%v", ok, st.OK), st.U+"/"+st.P)
				} else if ok && adm != st.Adm {
					r.find("C01", fmt.Sprintf("sync:slogin:admin-%v-expected-%v", adm, st.Adm), st.U)
				}
				// forwarding is asynchronous (upgrader goroutine, HTTP): the model history delivers the request within
				// the login step, so the next step waits until the master has handled it
				if st.Up && r.in.SlaveMode == "remote" {
					wantHits++
					for i := 0; i < 3000 && atomic.LoadInt32(&hits) < wantHits; i++ {
						time.Sleep(time.Millisecond)
					}
					if atomic.LoadInt32(&hits) < wantHits {
						r.find("C12", "sync:slogin:upgrade-request-did-not-reach-master", st.U)
						wantHits = atomic.LoadInt32(&hits)
					}
				}
			case "syncfile":
				n := st.U + "." + st.X
				out, err := exec.Command("rsync", "-rlpt", "--delete", "--include="+n, "--exclude=*", r.m.base+"/", r.s.base+"/").CombinedOutput()
				if err != nil {
					panic(fmt.Sprintf("rsync: %v %s", err, out))
				}
				r.syncs++
			case "sreload":
				r.reload(&r.s, st, "slave")
			case "mreload":
				r.reload(&r.m, st, "master")
			default:
				panic("unknown step " + st.T)
			}
		})
		if !answered {
			r.find("C10", "sync:"+st.T+":not-answered", "no answer within 10 s")
			return
		}
		before := len(r.finds)
		r.settle(st)
		if n := atomic.LoadInt32(&hits); n > wantHits {
			r.find("C12", "sync:"+st.T+":unexpected-upgrade-request", fmt.Sprintf("%d requests at the master, %d expected", n, wantHits))
			wantHits = n
		}
		if len(r.finds) > before && strings.HasSuffix(r.finds[before].Key, "-directory") {
			return // the directories have left the model: the rest of the history says nothing
		}
	}
	// at rest: a late effect (a write that was not expected at all) shows up now
	time.Sleep(50 * time.Millisecond)
	r.si = len(h)
	last := h[len(h)-1]
	last.T = "rest"
	r.settle(&last)
}

func TestVerifSync(t *testing.T) {
	in, out := os.Getenv("VERIF_IN"), os.Getenv("VERIF_OUT")
	if in == "" {
		t.Skip("VERIF_IN not set")
	}
	scratch := os.Getenv("VERIF_SCRATCH")
	if scratch == "" {
		scratch = "/dev/shm/verif-sync"
	}
	b, err := os.ReadFile(in)
	if err != nil {
		t.Fatal(err)
	}
	var inp syncInput
	if err := json.Unmarshal(b, &inp); err != nil {
		t.Fatal(err)
	}
	verifSink = syncSink
	verifHold = nil
	wl.SetOutput(devNull{})
	r := &syncRun{in: &inp, sets: concrete.DefaultSets()}
	for hi, h := range inp.Histories {
		if len(h) < 2 || h[0].T != "init" {
			continue
		}
		r.history(hi, h, scratch)
	}
	sum := sha256.Sum256(b)
	res := map[string]interface{}{"findings": r.finds, "histories": len(inp.Histories), "steps": r.steps, "rsync_runs": r.syncs,
		"reloads": r.reloads, "quick_check_hazard": r.quickCheckHazard(scratch), "input_sha": fmt.Sprintf("%x", sum[:6])}
	rb, _ := json.MarshalIndent(res, "", " ")
	os.WriteFile(filepath.Join(out, "sync_results.json"), rb, 0644)
	os.RemoveAll(scratch)
	_ = http.StatusOK
}
