//go:build verif

// Replay of the Policy case analysis and of the policy on the init path (C17).
package main

import (
	"bufio"
	"encoding/json"
	"fmt"
	"os"
	"path/filepath"
	"strings"
	"sync/atomic"
	"syscall"
	"testing"
	"time"

	zxcvbn "github.com/nbutton23/zxcvbn-go"
	"github.com/whawty/auth/verifconcrete"

	lib "github.com/whawty/auth/store"
)

type pCase struct {
	Type, Kind, Op, Num, Extra, Space string
}

type pEdge struct {
	Case    pCase  `json:"case"`
	Outcome string `json:"outcome"`
}

func policyString(c pCase) (string, string) {
	typ := map[string]string{"zxcvbn": "zxcvbn", "none": "", "unknown-type": "pwquality", "ZXCVBN": "ZXCVBN"}[c.Type]
	kind := map[string]string{"score": "score", "entropy": "entropy", "time": "time", "length": "length", "Score": "Score", "empty": ""}[c.Kind]
	op := c.Op
	if op == "missing" {
		op = ""
	}
	num := map[string]string{"0": "0", "3": "3", "4": "4", "5": "5", "100": "100", "max-uint64": "18446744073709551615",
		"max-uint64+1": "18446744073709551616", "-1": "-1", "3.5": "3.5", "abc": "abc", "empty": "", "+3": "+3", "03": "03", "1e3": "1e3",
		"040": "040", "0x3c": "0x3c", "0b11": "0b11", "0o17": "0o17", "3_0": "3_0"}[c.Num]
	toks := []string{}
	for _, t := range []string{kind, op, num} {
		if t != "" {
			toks = append(toks, t)
		}
	}
	if c.Extra == "extra-token" {
		toks = append(toks, "please")
	}
	var s string
	switch c.Space {
	case "single":
		s = strings.Join(toks, " ")
	case "multi":
		s = strings.Join(toks, "   ")
	case "tabs":
		s = strings.Join(toks, "\t")
	case "leading-trailing":
		s = "  " + strings.Join(toks, " ") + " \n"
	case "no-spaces":
		s = strings.Join(toks, "")
	}
	return typ, s
}

func TestVerifPolicy(t *testing.T) {
	in, outp := os.Getenv("VERIF_IN"), os.Getenv("VERIF_OUT")
	if in == "" {
		t.Skip("VERIF_IN not set")
	}
	scratch := os.Getenv("VERIF_SCRATCH")
	wl.SetOutput(devNull{})
	type viol struct {
		Key    string `json:"key"`
		Detail string `json:"detail"`
	}
	viols := map[string]viol{}
	bad := func(k, d string) {
		if _, ok := viols[k]; !ok {
			viols[k] = viol{k, d}
		}
	}
	f, err := os.Open(in)
	if err != nil {
		t.Fatal(err)
	}
	sc := bufio.NewScanner(f)
	sc.Buffer(make([]byte, 1<<20), 1<<24)
	sets := concrete.DefaultSets()
	base := filepath.Join(scratch, "base")
	os.MkdirAll(base, 0700)
	cfg := filepath.Join(scratch, "store.yaml")
	os.WriteFile(cfg, []byte(concrete.ConfigYAML(base, 1, sets, []uint{1, 2})), 0600)
	probes := []string{"x", "password", "Tr0ub4dor&3", "correct horse battery staple", "zq9!Lm#48vRw^t2Ypk"}
	// long, empty and odd passwords: the verdict must not depend on the length class or the byte content
	probes = append(probes, "", strings.Repeat("a", 64), strings.Repeat("a", 101), strings.Repeat("a", 120), strings.Repeat("password", 16),
		strings.Repeat("ab", 100), "pass word", " password ", "PASSWORD", "p\x00assword", "pässwörd", "\xff\xfepassword")
	for n := 3; n <= 14; n++ { // graded entropies, so that thresholds like 32 and 40 are told apart
		probes = append(probes, "qzj7w#kx9v!mfp2"[:n])
	}
	n, evals := 0, 0
	for sc.Scan() {
		var e pEdge
		if err := json.Unmarshal(sc.Bytes(), &e); err != nil {
			t.Fatal(err)
		}
		n++
		typ, cond := policyString(e.Case)
		key := fmt.Sprintf("%+v", e.Case)
		p, perr := NewPasswordPolicy(typ, cond)
		switch e.Outcome {
		case "refuse":
			if perr == nil {
				bad("policy-accepted:"+key, fmt.Sprintf("NewPasswordPolicy(%q, %q) returned a checker", typ, cond))
			}
			// the agent must not come up (and must not run without policy)
			if st, serr := NewStore(cfg, "", typ, cond, ""); serr == nil {
				bad("agent-started-with-unparsable-policy:"+key, fmt.Sprintf("NewStore succeeded with policy %q %q (policy %T)", typ, cond, st.policy))
			}
		case "nopolicy":
			if perr != nil {
				bad("no-policy-refused", perr.Error())
			} else if ok, _ := p.Check("x", "u"); !ok {
				bad("no-policy-refuses-password", "")
			}
		case "policy":
			if perr != nil {
				bad("wellformed-policy-refused:"+key, perr.Error())
				continue
			}
			thr := map[string]float64{"0": 0, "3": 3, "4": 4, "5": 5, "100": 100, "max-uint64": 18446744073709551615, "03": 3, "040": 40}[e.Case.Num]
			for _, pw := range probes {
				for _, user := range []string{"alice", "correct", "x"} {
					s := zxcvbn.PasswordStrength(pw, []string{user, "whawty"})
					v := map[string]float64{"score": float64(s.Score), "entropy": s.Entropy, "time": s.CrackTime}[e.Case.Kind]
					ok, cerr := p.Check(pw, user)
					evals++
					if cerr != nil || ok != (v >= thr) {
						bad(fmt.Sprintf("policy-verdict:%s>=%s", e.Case.Kind, e.Case.Num), fmt.Sprintf("password %q user %q: %s=%v threshold %v, Check says %v (%v)", pw, user, e.Case.Kind, v, thr, ok, cerr))
					}
				}
			}
		}
	}
	// init path: a failing password is not stored, the directory stays empty; a passing one initialises the store
	for _, pc := range []struct{ typ, cond, weak, strong string }{{"zxcvbn", "score >= 3", "password", "zq9!Lm#48vRw^t2Ypk"},
		{"zxcvbn", "entropy >= 60", "Tr0ub4dor&3", "zq9!Lm#48vRw^t2Ypk correct horse"}, {"zxcvbn", "time >= 1000000", "abc123", "zq9!Lm#48vRw^t2Ypk"}} {
		os.RemoveAll(base)
		os.MkdirAll(base, 0700)
		st, err := NewStore(cfg, "", pc.typ, pc.cond, "")
		if err != nil {
			bad("init:store", err.Error())
			continue
		}
		api := st.GetInterface()
		if err := api.Init("root", pc.weak); err == nil {
			bad("init:weak-password-stored:"+pc.cond, pc.weak)
		}
		if ents, _ := os.ReadDir(base); len(ents) > 1 || (len(ents) == 1 && ents[0].Name() != ".tmp") {
			bad("init:refused-but-directory-changed:"+pc.cond, fmt.Sprint(len(ents)))
		}
		if err := api.Init("root", pc.strong); err != nil {
			bad("init:strong-password-refused:"+pc.cond, err.Error())
		}
		// the policy belongs to the agent, not to the configuration in use: after reloads (same file, then a new
		// default) weak passwords are still refused on every write path, strong ones still accepted
		for round, def := range []uint{1, 2} {
			var seen int32
			oldSink := verifSink
			verifSink = func(ev string, args ...interface{}) {
				if ev == "reload.ok" || ev == "reload.fail" {
					if d, ok := args[1].(*lib.Dir); ok && d != nil && d.BaseDir == base {
						atomic.AddInt32(&seen, 1)
					}
				}
			}
			os.WriteFile(cfg, []byte(concrete.ConfigYAML(base, def, sets, []uint{1, 2})), 0600)
			syscall.Kill(os.Getpid(), syscall.SIGHUP)
			for i := 0; i < 3000 && atomic.LoadInt32(&seen) == 0; i++ {
				time.Sleep(time.Millisecond)
			}
			verifSink = oldSink
			if atomic.LoadInt32(&seen) == 0 {
				bad("reload:not-performed:"+pc.cond, "no reload event within 3 s")
				break
			}
			tag := fmt.Sprintf("after-reload-%d:", round+1)
			if err := api.Add("weak"+fmt.Sprint(round), pc.weak, false); err == nil {
				bad(tag+"add:weak-password-stored:"+pc.cond, pc.weak)
			}
			if err := api.Update("root", pc.weak); err == nil {
				bad(tag+"update:weak-password-stored:"+pc.cond, pc.weak)
			}
			if ok, _, _, _ := api.Authenticate("root", pc.strong); !ok {
				bad(tag+"refused-update-changed-password:"+pc.cond, "root can no longer log in with the password of the last accepted write")
			}
			if err := api.Add("strong"+fmt.Sprint(round), pc.strong+"!", false); err != nil {
				bad(tag+"add:strong-password-refused:"+pc.cond, err.Error())
			}
		}
		os.WriteFile(cfg, []byte(concrete.ConfigYAML(base, 1, sets, []uint{1, 2})), 0600)
	}
	var vs []viol
	for _, v := range viols {
		vs = append(vs, v)
	}
	res := map[string]interface{}{"cases": n, "verdict_evaluations": evals, "violations": vs}
	b, _ := json.MarshalIndent(res, "", " ")
	os.WriteFile(outp, b, 0644)
}
