//go:build verif

// Replay of the Session module's edges against real webSessionFactory objects (C07).
package main

import (
	"math"
	"crypto/rand"
	"crypto/cipher"
	"crypto/aes"
	"bufio"
	"encoding/base64"
	"encoding/json"
	"fmt"
	"net/http"
	"os"
	"strings"
	"sync"
	"testing"
	"time"
)

type sTok struct {
	ID    int    `json:"id"`
	Inst  string `json:"inst"`
	Epoch int    `json:"epoch"`
	User  string `json:"user"`
	Admin bool   `json:"admin"`
	Ts    int64  `json:"ts"`
}

type sEdge struct {
	Inst   string         `json:"inst"`
	Kind   string         `json:"kind"`
	Tok    sTok           `json:"tok"`
	Tok2   sTok           `json:"tok2"`
	Now    int64          `json:"now"`
	Epoch  map[string]int `json:"epoch"`
	Accept bool           `json:"accept"`
	User   string         `json:"user"`
	Admin  bool           `json:"admin"`
}

type sViolation struct {
	Key    string `json:"key"`
	Detail string `json:"detail"`
	Edge   *sEdge `json:"edge,omitempty"`
}

const (
	sLifetime = 20 * time.Second
	sTick     = 9 // seconds per model tick: 2 ticks (model lifetime) < 20 s < 3 ticks
)

var (
	sMu     sync.Mutex
	sFacs   = map[string]*webSessionFactory{}
	sViol   = map[string]sViolation{}
	sChecks int
	sNonces = map[string]bool{}
	sDup    int
)

func sFactory(inst string, epoch int) *webSessionFactory {
	k := fmt.Sprintf("%s/%d", inst, epoch)
	sMu.Lock()
	defer sMu.Unlock()
	if f, ok := sFacs[k]; ok {
		return f
	}
	f, err := NewWebSessionFactory(sLifetime)
	if err != nil {
		panic(err)
	}
	sFacs[k] = f
	return f
}

func sViolate(key, detail string, e *sEdge) {
	sMu.Lock()
	if _, ok := sViol[key]; !ok {
		sViol[key] = sViolation{key, detail, e}
	}
	sMu.Unlock()
}

func sNote(nonce []byte) {
	sMu.Lock()
	if sNonces[string(nonce)] {
		sDup++
	}
	sNonces[string(nonce)] = true
	sMu.Unlock()
}

// issueAt builds the token this instance would have issued `age` ticks ago (white box: the
// factory's own sealToken with a back-dated time stamp).
func issueAt(f *webSessionFactory, user string, admin bool, ageTicks int64) (nonce, ct []byte, text string) {
	ts := time.Now().Unix() - ageTicks*sTick
	st, _, n, c := f.sealToken(fmt.Sprintf("%s:%t:%d", user, admin, ts))
	if st != http.StatusOK {
		panic("sealToken failed")
	}
	sNote(n)
	return n, c, base64.URLEncoding.EncodeToString(n) + ":" + base64.URLEncoding.EncodeToString(c)
}

func enc(n, c []byte) string {
	return base64.URLEncoding.EncodeToString(n) + ":" + base64.URLEncoding.EncodeToString(c)
}

// expect runs Check and compares with the model's verdict (and identity on acceptance).
func expect(f *webSessionFactory, cand string, accept bool, user string, admin bool, key string, e *sEdge) {
	var st int
	var u string
	var a bool
	func() {
		defer func() {
			if r := recover(); r != nil {
				sViolate(key+":panic", fmt.Sprint(r), e)
				st = -1
			}
		}()
		st, _, u, a = f.Check(cand)
	}()
	sMu.Lock()
	sChecks++
	sMu.Unlock()
	got := st == http.StatusOK
	if got != accept {
		sViolate(key+fmt.Sprintf(":accept=%v", got), fmt.Sprintf("candidate %.80q: model accept=%v, real status %d", cand, accept, st), e)
		return
	}
	if got && (u != user || a != admin) {
		sViolate(key+":identity", fmt.Sprintf("accepted as (%q,%v), issued for (%q,%v)", u, a, user, admin), e)
	}
}

func flipBit(b []byte, i int) []byte {
	c := append([]byte{}, b...)
	c[i/8] ^= 1 << uint(i%8)
	return c
}

func runSessionEdge(e *sEdge, dense bool) {
	cur := sFactory(e.Inst, e.Epoch[e.Inst])
	key := "check:" + e.Kind
	mk := func(t sTok) ([]byte, []byte, string) {
		return issueAt(sFactory(t.Inst, t.Epoch), t.User, t.Admin, e.Now-t.Ts)
	}
	step := func(n int) int {
		if dense || n < 16 {
			return 1
		}
		return n / 8
	}
	switch e.Kind {
	case "valid":
		_, _, s := mk(e.Tok)
		expect(cur, s, e.Accept, e.User, e.Admin, key, e)
	case "other-instance":
		_, _, s := mk(e.Tok)
		expect(cur, s, false, "", false, key, e)
	case "bitflip-nonce":
		n, c, _ := mk(e.Tok)
		for i := 0; i < len(n)*8; i += step(len(n) * 8) {
			expect(cur, enc(flipBit(n, i), c), false, "", false, key, e)
		}
	case "bitflip-body", "bitflip-tag":
		n, c, _ := mk(e.Tok)
		lo, hi := 0, (len(c)-16)*8
		if e.Kind == "bitflip-tag" {
			lo, hi = (len(c)-16)*8, len(c)*8
		}
		for i := lo; i < hi; i += step(hi - lo) {
			expect(cur, enc(n, flipBit(c, i)), false, "", false, key, e)
		}
	case "truncate":
		n, c, s := mk(e.Tok)
		for i := 0; i < len(n); i++ {
			expect(cur, enc(n[:i], c), false, "", false, key+":nonce", e)
			expect(cur, enc(n[i+1:], c), false, "", false, key+":nonce", e)
		}
		for i := 0; i < len(c); i += step(len(c)) {
			expect(cur, enc(n, c[:i]), false, "", false, key+":ct", e)
			expect(cur, enc(n, c[i+1:]), false, "", false, key+":ct", e)
		}
		for i := 0; i < len(s); i += step(len(s)) { // text-level prefixes
			if cand := s[:i]; !sameDecoded(cand, n, c) {
				expect(cur, cand, false, "", false, key+":text", e)
			}
		}
	case "extend":
		n, c, s := mk(e.Tok)
		for _, x := range [][]byte{{0}, {0xff}, []byte("A"), n, c} {
			expect(cur, enc(append(append([]byte{}, n...), x...), c), false, "", false, key+":nonce", e)
			expect(cur, enc(append(append([]byte{}, x...), n...), c), false, "", false, key+":nonce", e)
			expect(cur, enc(n, append(append([]byte{}, c...), x...)), false, "", false, key+":ct", e)
			expect(cur, enc(n, append(append([]byte{}, x...), c...)), false, "", false, key+":ct", e)
		}
		for _, x := range []string{"A", "=", ":", ":AAAA", " ", "\n"} {
			for _, cand := range []string{s + x, x + s} {
				if !sameDecoded(cand, n, c) {
					expect(cur, cand, false, "", false, key+":text", e)
				}
			}
		}
	case "textmut":
		n, c, s := mk(e.Tok)
		alphabet := "ABab01-_=+/:. "
		for i := 0; i < len(s); i += step(len(s)) {
			for _, ch := range alphabet {
				if byte(ch) == s[i] {
					continue
				}
				cand := s[:i] + string(ch) + s[i+1:]
				// the base64 text layer is outside the property: a mutation that still decodes to the
				// very same nonce and ciphertext is the same token
				if sameDecoded(cand, n, c) {
					expect(cur, cand, e.Tok.Inst == e.Inst && live(e), e.Tok.User, e.Tok.Admin, key+":same-content", e)
				} else {
					expect(cur, cand, false, "", false, key, e)
				}
			}
		}
	case "splice-nonce-of-other":
		_, c, _ := mk(e.Tok)
		n2, _, _ := mk(e.Tok2)
		expect(cur, enc(n2, c), false, "", false, key, e)
	case "garbage":
		for _, g := range []string{"x", "a:b", "::", ":", "AAAA:", ":AAAA", "AAAA:AAAA", "AAAAAAAAAAAAAAAA:AAAAAAAAAAAAAAAAAAAAAAAAAAAAAAAA",
			"not base64!:@@@@", strings.Repeat("A", 100000) + ":" + strings.Repeat("B", 100000), "\x00:\x00", "AAAA:AAAA:AAAA"} {
			expect(cur, g, false, "", false, key, e)
		}
	case "empty":
		expect(cur, "", false, "", false, key, e)
	case "own-key-malformed-plaintext":
		now := time.Now().Unix()
		for _, pt := range []string{
			fmt.Sprintf("alice:True:%d", now), fmt.Sprintf("alice:1:%d", now), fmt.Sprintf("alice:yes:%d", now),
			fmt.Sprintf("alice::%d", now), fmt.Sprintf("alice:TRUE:%d", now), fmt.Sprintf("alice:true :%d", now),
			fmt.Sprintf("alice:true"), fmt.Sprintf("alice"), "", "::", fmt.Sprintf("alice:true:%dx", now),
			fmt.Sprintf("alice:true:0x%x", now), "alice:true:", "alice:true:abc", fmt.Sprintf("alice:true: %d", now),
			fmt.Sprintf("alice:true:%d ", now), "alice:true:99999999999999999999999", fmt.Sprintf("alice:true:%d:extra", now),
			fmt.Sprintf("bo:b:false:%d", now), fmt.Sprintf("x:true:false:%d", now),
		} {
			_, _, n, c := cur.sealToken(pt)
			expect(cur, enc(n, c), false, "", false, key, e)
		}
	case "own-key-future":
		for _, d := range []int64{5, 60, 3600, 1 << 40} {
			_, _, n, c := cur.sealToken(fmt.Sprintf("alice:true:%d", time.Now().Unix()+d))
			expect(cur, enc(n, c), false, "", false, key, e)
		}
		_, _, n, c := cur.sealToken(fmt.Sprintf("alice:true:%d", time.Now().Unix()-int64(sLifetime/time.Second)-5))
		expect(cur, enc(n, c), false, "", false, key+":expired", e)
		_, _, n, c = cur.sealToken("alice:true:-5")
		expect(cur, enc(n, c), false, "", false, key+":negative", e)
	case "own-key-extreme-time":
		// 2^64 ns = 18446744073.709551616 s: a time stamp that far away (times k) plus an offset inside the lifetime looks
		// "just issued" to an age computed in wrapping 64-bit nanoseconds; likewise for micro- and milliseconds, 2^32 and 2^31 s
		now := time.Now().Unix()
		var cands []int64
		for _, period := range []int64{18446744073, 18446744074, 18446744073709, 18446744073710, 18446744073709551, 1 << 32, 1 << 31, 1 << 53, 1 << 55, 1 << 62} {
			for _, k := range []int64{1, -1, 2, -2, 3, 100} {
				if k*period/k != period {
					continue
				}
				for _, off := range []int64{0, -1, 1, -int64(sLifetime/time.Second) / 2, -int64(sLifetime/time.Second) + 1} {
					cands = append(cands, now+k*period+off)
				}
			}
		}
		cands = append(cands, math.MaxInt64, math.MinInt64, math.MinInt64+now, math.MaxInt64-now, 0, -1, 1)
		for _, ts := range cands {
			if d := ts - now; d <= 0 && d >= -int64(sLifetime/time.Second) {
				continue // (a wrapped sum that landed inside the lifetime is an ordinary live token)
			}
			_, _, n, c := cur.sealToken(fmt.Sprintf("mallory:true:%d", ts))
			expect(cur, enc(n, c), false, "", false, key, e)
		}
	case "own-key-wellformed":
		for _, u := range []string{"alice", "a", "Zed-9_.@x", ""} {
			for _, a := range []bool{true, false} {
				_, _, n, c := cur.sealToken(fmt.Sprintf("%s:%t:%d", u, a, time.Now().Unix()))
				expect(cur, enc(n, c), true, u, a, key, e)
			}
		}
	default:
		panic("unknown candidate kind " + e.Kind)
	}
}

func live(e *sEdge) bool {
	age := e.Now - e.Tok.Ts
	return e.Tok.Epoch == e.Epoch[e.Tok.Inst] && age >= 0 && age <= 2 && !strings.Contains(e.Tok.User, ":")
}

func sameDecoded(cand string, n, c []byte) bool {
	p := strings.SplitN(cand, ":", 2)
	if len(p) != 2 {
		return false
	}
	dn, err1 := base64.URLEncoding.DecodeString(p[0])
	dc, err2 := base64.URLEncoding.DecodeString(p[1])
	return err1 == nil && err2 == nil && string(dn) == string(n) && string(dc) == string(c)
}

func TestVerifSession(t *testing.T) {
	in, out := os.Getenv("VERIF_IN"), os.Getenv("VERIF_OUT")
	if in == "" {
		t.Skip("VERIF_IN not set")
	}
	f, err := os.Open(in)
	if err != nil {
		t.Fatal(err)
	}
	defer f.Close()
	sc := bufio.NewScanner(f)
	sc.Buffer(make([]byte, 1<<20), 1<<24)
	ch := make(chan *sEdge, 256)
	var wg sync.WaitGroup
	start := time.Now()
	for w := 0; w < 16; w++ {
		wg.Add(1)
		go func() {
			defer wg.Done()
			for e := range ch {
				dense := e.Tok.ID == 1 && e.Now-e.Tok.Ts <= 1
				runSessionEdge(e, dense)
			}
		}()
	}
	edges := 0
	perKind := map[string]int{}
	for sc.Scan() {
		var e sEdge
		if err := json.Unmarshal(sc.Bytes(), &e); err != nil {
			t.Fatal(err)
		}
		edges++
		perKind[e.Kind]++
		ee := e
		ch <- &ee
	}
	close(ch)
	wg.Wait()

	// nonces: real Generate, many tokens, several instances, issued concurrently; every issued token must be accepted
	gen := 0
	var gwg sync.WaitGroup
	for g := 0; g < 16; g++ {
		gwg.Add(1)
		go func(g int) {
			defer gwg.Done()
			fac := sFactory([]string{"i1", "i2"}[g%2], 1)
			user := fmt.Sprintf("user%d", g)
			for i := 0; i < 12500; i++ {
				st, _, s := fac.Generate(user, i%2 == 0)
				if st != http.StatusOK {
					sViolate("generate:status", fmt.Sprint(st), nil)
					return
				}
				p := strings.SplitN(s, ":", 2)
				n, err := base64.URLEncoding.DecodeString(p[0])
				if err != nil || len(p) != 2 {
					sViolate("generate:format", s, nil)
					return
				}
				sNote(n)
				sMu.Lock()
				gen++
				sMu.Unlock()
				if i%50 == 0 {
					st, _, u, a := fac.Check(s)
					if st != http.StatusOK || u != user || a != (i%2 == 0) {
						sViolate("generate:issued-token-not-accepted-as-issued", fmt.Sprintf("status %d identity (%q,%v), issued for (%q,%v)", st, u, a, user, i%2 == 0), nil)
					}
					if st2, _, _, _ := sFactory("i2", 2).Check(s); st2 == http.StatusOK {
						sViolate("generate:other-instance-accepts", s, nil)
					}
				}
			}
		}(g)
	}
	gwg.Wait()
	if sDup > 0 {
		sViolate("nonce-reused", fmt.Sprintf("%d repeated nonces among %d tokens", sDup, len(sNonces)), nil)
	}
	// real expiry by waiting: a token that was presented (and accepted) before must still expire on time.
	// Token times have a resolution of one second, so "fresh" is probed well inside and "expired" well outside.
	short, _ := NewWebSessionFactory(4 * time.Second)
	_, _, tok := short.Generate("alice", true)
	_, _, tok2 := short.Generate("bob", false) // never presented before its expiry
	_, _, tok3 := short.Generate("carol", false) // first presented late in its life
	issuedAt := time.Now()
	for _, at := range []time.Duration{0, 1000 * time.Millisecond, 2900 * time.Millisecond, 5100 * time.Millisecond, 5600 * time.Millisecond} {
		time.Sleep(time.Until(issuedAt.Add(at)))
		st, _, _, _ := short.Check(tok)
		if at < 3*time.Second && st != http.StatusOK {
			sViolate("expiry:fresh-rejected", fmt.Sprintf("age %v: status %d", at, st), nil)
		}
		if at >= 2900*time.Millisecond {
			st3, _, _, _ := short.Check(tok3)
			if at < 3*time.Second && st3 != http.StatusOK {
				sViolate("expiry:fresh-rejected", fmt.Sprintf("first presentation at age %v: status %d", at, st3), nil)
			}
			if at > 5*time.Second && st3 == http.StatusOK {
				sViolate("expiry:expired-accepted", fmt.Sprintf("token first presented at age 2.9 s is accepted %v after issue with a 4 s lifetime", at), nil)
			}
		}
		if at > 5*time.Second && st == http.StatusOK {
			sViolate("expiry:expired-accepted", fmt.Sprintf("token accepted %v after issue with a 4 s lifetime (it had been presented before)", at), nil)
		}
	}
	if st, _, _, _ := short.Check(tok2); st == http.StatusOK {
		sViolate("expiry:expired-accepted-first-presentation", "token accepted 5.6 s after issue with a 4 s lifetime", nil)
	}
	// the sub-second band around the limits: time stamps have a resolution of one second, the clock has not.  In the middle of a
	// wall-clock second a token stamped (now - lifetime) is older than the lifetime, one stamped (now + 1) is from the future.
	for rep := 0; rep < 3; rep++ {
		for {
			if f := time.Now().Nanosecond(); f > 350e6 && f < 600e6 {
				break
			}
			time.Sleep(5 * time.Millisecond)
		}
		now := time.Now().Unix()
		mk := func(ts int64) string {
			_, _, n, c := short.sealToken(fmt.Sprintf("dora:false:%d", ts))
			return enc(n, c)
		}
		for _, pr := range []struct {
			name string
			ts   int64
			want bool
		}{{"older-than-lifetime-by-half-a-second", now - 4, false}, {"younger-than-lifetime-by-half-a-second", now - 3, true},
			{"from-the-future-by-half-a-second", now + 1, false}, {"stamped-this-second", now, true}} {
			st, _, _, _ := short.Check(mk(pr.ts))
			sChecks++
			if (st == http.StatusOK) != pr.want && time.Now().Unix() == now { // (the verdict belongs to this second only)
				sViolate("expiry:boundary:"+pr.name, fmt.Sprintf("lifetime 4 s, token stamped %+d s relative to the current second, checked %.2f s into it: status %d", pr.ts-now, float64(time.Now().Nanosecond())/1e9, st), nil)
			}
		}
	}
	// several instances created at the same moment (one per web listener at start-up): no instance accepts another one's
	// tokens, and none accepts a token sealed under the all-zero key (which everybody knows)
	zeroKey := func(user string) string {
		block, _ := aes.NewCipher(make([]byte, 16))
		gcm, _ := cipher.NewGCM(block)
		n := make([]byte, gcm.NonceSize())
		rand.Read(n)
		return enc(n, gcm.Seal(nil, n, []byte(fmt.Sprintf("%s:true:%d", user, time.Now().Unix())), nil))
	}
	forged := zeroKey("root")
	for round := 0; round < 3000 && len(sViol) < 50; round++ {
		fs := make([]*webSessionFactory, 4)
		var cwg sync.WaitGroup
		startGate := make(chan struct{})
		for i := range fs {
			cwg.Add(1)
			go func(i int) {
				defer cwg.Done()
				<-startGate
				fs[i], _ = NewWebSessionFactory(sLifetime)
			}(i)
		}
		close(startGate)
		cwg.Wait()
		toks := make([]string, len(fs))
		for i, f := range fs {
			if f != nil {
				_, _, toks[i] = f.Generate("alice", true)
			}
		}
		for i, f := range fs {
			if f == nil {
				continue
			}
			sChecks++
			if st, _, _, _ := f.Check(forged); st == http.StatusOK {
				sViolate("concurrent-start:zero-key-token-accepted", "an instance created concurrently with others accepts a token sealed under the all-zero key", nil)
			}
			for j := range fs {
				if j != i && toks[j] != "" {
					if st, _, _, _ := f.Check(toks[j]); st == http.StatusOK {
						sViolate("concurrent-start:other-instance-accepts", "two instances created at the same time accept each other's tokens", nil)
					}
				}
			}
		}
	}
	var vs []sViolation
	for _, v := range sViol {
		vs = append(vs, v)
	}
	res := map[string]interface{}{"edges": edges, "checks": sChecks, "per_kind": perKind, "violations": vs,
		"generated": gen, "distinct_nonces": len(sNonces), "elapsed_s": time.Since(start).Seconds()}
	b, _ := json.MarshalIndent(res, "", " ")
	os.WriteFile(out, b, 0644)
}
