//go:build verif

// Driver for the hooks caller (C19): timing scenarios recorded through the verif hooks for TraceHooks,
// eligibility of hooks-directory entries, and a hanging hook.
package main

import (
	"encoding/json"
	"math/rand"
	"fmt"
	"os"
	"path/filepath"
	"sort"
	"strings"
	"sync"
	"syscall"
	"testing"
	"time"

	concrete "github.com/whawty/auth/verifconcrete"
	lib "github.com/whawty/auth/store"
)

type hStep struct {
	T  string `json:"t"` // change | reload | sleep | hold | release | burst
	S  string `json:"s"`
	Ms int    `json:"ms"`
	N  int    `json:"n"`
}

type hScenario struct {
	Name  string  `json:"name"`
	Steps []hStep `json:"steps"`
	Hang  bool    `json:"hang"`
	Agent bool    `json:"agent"` // drive a real agent (dispatcher + hooks caller): changes through the API, reloads by SIGHUP
}

type hEntry struct {
	Case struct {
		Dirmode, Kind, Mode string
		Hidden              bool
	} `json:"case"`
	Started string `json:"started"`
}

const hRate = 180 * time.Millisecond

var reloadSeen = make(chan string, 8)

func writeScript(path, log string, mode os.FileMode, body string) {
	os.WriteFile(path, []byte("#!/bin/sh\necho \"$(basename $0)|$*|$WHAWTY_AUTH_STORE\" >> "+log+"\n"+body), 0700)
	os.Chmod(path, mode)
}

func TestVerifHooks(t *testing.T) {
	in, outp := os.Getenv("VERIF_IN"), os.Getenv("VERIF_OUT")
	if in == "" {
		t.Skip("VERIF_IN not set")
	}
	scratch := os.Getenv("VERIF_SCRATCH")
	wl.SetOutput(devNull{})
	var input struct {
		Scenarios []hScenario `json:"scenarios"`
		Entries   []hEntry    `json:"entries"`
		KillTest  bool        `json:"killtest"`
	}
	b, _ := os.ReadFile(in)
	if err := json.Unmarshal(b, &input); err != nil {
		t.Fatal(err)
	}
	var mu sync.Mutex
	var events []map[string]interface{}
	emit := func(ev, s string, p int) {
		mu.Lock()
		events = append(events, map[string]interface{}{"ev": ev, "s": s, "p": p, "ts": time.Now().UnixMicro()})
		mu.Unlock()
	}
	verifHold = gt.hold
	mine := func(path string) bool { // hooks callers of earlier scenarios wake up once more when SIGHUP reaches their dispatcher
		cb, _ := curBase.Load().(string)
		return cb == "" || strings.HasPrefix(path, cb)
	}
	verifSink = func(ev string, args ...interface{}) {
		switch ev {
		case "hooks.newstore", "hooks.run":
			if !mine(args[0].(string)) {
				return
			}
		case "hooks.exec":
			if !mine(args[1].(string)) {
				return
			}
		}
		switch ev {
		case "hooks.notify", "hooks.timer":
			emit(strings.Replace(ev, "hooks.", "h", 1), "", int(args[0].(uint)))
		case "hooks.newstore":
			emit("hnewstore", filepath.Base(args[0].(string)), 0)
		case "hooks.run":
			emit("hrun", filepath.Base(args[0].(string)), int(args[1].(uint)))
		case "hooks.exec":
			emit("hexec", filepath.Base(args[1].(string))+"|"+filepath.Base(args[0].(string)), 0)
		case "reload.ok", "reload.fail":
			if d, ok := args[1].(*lib.Dir); ok && d != nil {
				if cb, _ := curBase.Load().(string); cb != "" && strings.HasPrefix(d.BaseDir, cb) {
					if ev == "reload.ok" { // the dispatcher has switched (linearization point); its send to the loop follows
						emit("reload", filepath.Base(d.BaseDir), 0)
					}
					select {
					case reloadSeen <- ev:
					default:
					}
				}
			}
		}
	}
	results := map[string]interface{}{}
	var scenRes []map[string]interface{}
	sets := concrete.DefaultSets()
	for si, sc := range input.Scenarios {
		gt.newGeneration()
		dir := filepath.Join(scratch, fmt.Sprintf("h%d", si))
		os.RemoveAll(dir)
		hooks := filepath.Join(dir, "hooks.d")
		os.MkdirAll(hooks, 0755)
		log := filepath.Join(dir, "log")
		writeScript(filepath.Join(hooks, "10-first"), log, 0755, "")
		body := ""
		if sc.Hang {
			body = "sleep 300\n"
		}
		writeScript(filepath.Join(hooks, "20-second"), log, 0755, body)
		curBase.Store(dir)
		var h *HooksCaller
		var api *Store
		cfgfile := filepath.Join(dir, "store.yaml")
		writeCfg := func(name string) {
			os.WriteFile(cfgfile, []byte(concrete.ConfigYAML(filepath.Join(dir, name), 1, sets, []uint{1, 2})), 0600)
		}
		nuser := 0
		if sc.Agent {
			rng := rand.New(rand.NewSource(int64(si)))
			for _, name := range []string{"A", "B", "C"} {
				os.MkdirAll(filepath.Join(dir, name), 0700)
				line, _ := concrete.MakeRecord(sets[1], []byte("pw"), 1500000000, rng)
				os.WriteFile(filepath.Join(dir, name, "boss.admin"), []byte(line), 0600)
			}
			writeCfg("A")
			curBase.Store(dir)
			st, err := NewStore(cfgfile, "", "", "", hooks)
			if err != nil {
				t.Fatal(err)
			}
			st.hooks.rateLimit = hRate
			h = st.hooks
			api = st.GetInterface()
		} else {
			h = &HooksCaller{Notify: make(chan bool, 32), NewStore: make(chan string, 1), dir: hooks, store: filepath.Join(dir, "A"), rateLimit: hRate}
			go h.run()
		}
		// one change / reload of the real agent
		agentChange := func(cur string) bool {
			nuser++
			done := make(chan error, 1)
			go func(n int) { done <- api.Add(fmt.Sprintf("user%d", n), "some password", false) }(nuser)
			select {
			case err := <-done:
				if err != nil {
					t.Fatalf("add through the agent failed: %v", err)
				}
				return false
			case <-time.After(5 * time.Second):
				return true
			}
		}
		agentReload := func(name string) bool {
			for len(reloadSeen) > 0 {
				<-reloadSeen
			}
			writeCfg(name)
			syscall.Kill(os.Getpid(), syscall.SIGHUP)
			select {
			case <-reloadSeen: // the dispatcher has switched; its send to the hooks caller may still be blocked
				return false
			case <-time.After(5 * time.Second):
				return true
			}
		}
		mu.Lock()
		first := len(events)
		mu.Unlock()
		emit("reset", "A", 0)
		cur := "A"
		blocked := false
		for _, s := range sc.Steps {
			switch s.T {
			case "change":
				emit("change", cur, 0)
				if sc.Agent {
					blocked = agentChange(cur) || blocked
					continue
				}
				select {
				case h.Notify <- true:
				case <-time.After(2 * time.Second):
					blocked = true
				}
			case "burst":
				for i := 0; i < s.N; i++ {
					emit("change", cur, 0)
					if sc.Agent {
						blocked = agentChange(cur) || blocked
						continue
					}
					select {
					case h.Notify <- true:
					case <-time.After(2 * time.Second):
						blocked = true
					}
				}
			case "reload":
				cur = s.S
				if sc.Agent {
					blocked = agentReload(cur) || blocked
					continue
				}
				emit("reload", cur, 0)
				select {
				case h.NewStore <- filepath.Join(dir, cur):
				case <-time.After(2 * time.Second):
					blocked = true
				}
			case "sleep":
				time.Sleep(time.Duration(s.Ms) * time.Millisecond)
			case "dirmode": // the hooks directory becomes unusable (world-writable) / usable again
				if s.S == "bad" {
					os.Chmod(hooks, 0777)
				} else {
					os.Chmod(hooks, 0755)
				}
				emit("dirmode", s.S, 0)
			case "hold":
				gt.arm("hooks.loop")
				gt.waitParked(time.Second, "hooks.loop")
			case "release":
				gt.disarm("hooks.loop")
			}
		}
		gt.disarm("hooks.loop")
		time.Sleep(3*hRate + 100*time.Millisecond)
		emit("end", "", 0)
		mu.Lock()
		last := len(events)
		mu.Unlock()
		lb, _ := os.ReadFile(log)
		scenRes = append(scenRes, map[string]interface{}{"name": sc.Name, "first": first, "last": last, "blocked": blocked,
			"scriptlog": strings.Split(strings.TrimSpace(string(lb)), "\n")})
	}
	results["scenarios"] = scenRes

	// eligibility: one hooks directory per directory mode, one entry per class
	gt.newGeneration()
	byDir := map[string][]hEntry{}
	for _, e := range input.Entries {
		byDir[e.Case.Dirmode] = append(byDir[e.Case.Dirmode], e)
	}
	var elig []map[string]interface{}
	for dm, ents := range byDir {
		dir := filepath.Join(scratch, "elig-"+dm)
		os.RemoveAll(dir)
		hooks := filepath.Join(dir, "hooks.d")
		os.MkdirAll(hooks, 0755)
		log := filepath.Join(dir, "log")
		targets := filepath.Join(dir, "targets")
		os.MkdirAll(targets, 0755)
		writeScript(filepath.Join(targets, "exec-target"), log, 0755, "")
		writeScript(filepath.Join(targets, "nonexec-target"), log, 0644, "")
		names := map[string]hEntry{}
		for i, e := range ents {
			name := fmt.Sprintf("e%03d-%s-%s", i, e.Case.Kind, e.Case.Mode)
			if e.Case.Hidden {
				name = "." + name
			}
			p := filepath.Join(hooks, name)
			var mode uint32
			fmt.Sscanf(e.Case.Mode, "%o", &mode)
			switch e.Case.Kind {
			case "regular":
				writeScript(p, log, os.FileMode(mode&0777), "")
				if mode&04000 != 0 {
					os.Chmod(p, os.FileMode(mode&0777)|os.ModeSetuid)
				}
			case "symlink-to-exec":
				os.Symlink(filepath.Join(targets, "exec-target"), p)
			case "symlink-to-nonexec":
				os.Symlink(filepath.Join(targets, "nonexec-target"), p)
			case "symlink-dangling":
				os.Symlink(filepath.Join(targets, "nothing-here"), p)
			case "symlink-to-dir":
				os.Symlink(targets, p)
			case "dir":
				os.Mkdir(p, os.FileMode(mode&0777))
			case "fifo":
				syscall.Mkfifo(p, mode&0777)
			}
			names[name] = e
		}
		var dmode uint32
		fmt.Sscanf(dm, "%o", &dmode)
		os.Chmod(hooks, os.FileMode(dmode&0777))
		if dmode&01000 != 0 {
			os.Chmod(hooks, os.FileMode(dmode&0777)|os.ModeSticky)
		}
		h := &HooksCaller{Notify: make(chan bool, 32), NewStore: make(chan string, 1), dir: hooks, store: filepath.Join(dir, "store"), rateLimit: hRate}
		go h.run()
		h.Notify <- true
		time.Sleep(600 * time.Millisecond)
		lb, _ := os.ReadFile(log)
		started := map[string]string{}
		for _, line := range strings.Split(strings.TrimSpace(string(lb)), "\n") {
			f := strings.Split(line, "|")
			if len(f) == 3 {
				started[f[0]] = f[1] + "|" + filepath.Base(f[2])
			}
		}
		// symlinks run under the target's name: map "exec-target" runs back by counting
		nExecTarget := 0
		for _, line := range strings.Split(string(lb), "\n") {
			if strings.HasPrefix(line, "exec-target|") {
				nExecTarget++
			}
		}
		keys := []string{}
		for n := range names {
			keys = append(keys, n)
		}
		sort.Strings(keys)
		for _, n := range keys {
			e := names[n]
			got, ran := started[n]
			if strings.HasPrefix(e.Case.Kind, "symlink") {
				// $0 is the symlink's own path, so basename($0) is the entry name as well
				got, ran = started[n]
			}
			elig = append(elig, map[string]interface{}{"name": n, "case": e.Case, "model": e.Started, "ran": ran, "args": got})
		}
		_ = nExecTarget
		os.Chmod(hooks, 0755)
	}
	results["eligibility"] = elig

	// a hanging hook is killed after its time limit (hard-coded one minute)
	if input.KillTest {
		dir := filepath.Join(scratch, "kill")
		hooks := filepath.Join(dir, "hooks.d")
		os.MkdirAll(hooks, 0755)
		pidf := filepath.Join(dir, "pid")
		os.WriteFile(filepath.Join(hooks, "hang"), []byte("#!/bin/sh\necho $$ > "+pidf+"\nexec sleep 600\n"), 0755)
		h := &HooksCaller{Notify: make(chan bool, 32), NewStore: make(chan string, 1), dir: hooks, store: dir, rateLimit: hRate}
		go h.run()
		h.Notify <- true
		time.Sleep(2 * time.Second)
		pb, _ := os.ReadFile(pidf)
		var pid int
		fmt.Sscan(string(pb), &pid)
		aliveEarly := pid > 0 && syscall.Kill(pid, 0) == nil
		time.Sleep(62 * time.Second)
		aliveLate := pid > 0 && syscall.Kill(pid, 0) == nil
		if aliveLate {
			syscall.Kill(pid, syscall.SIGKILL)
		}
		results["killtest"] = map[string]interface{}{"pid": pid, "alive_after_2s": aliveEarly, "alive_after_64s": aliveLate}
	}
	mu.Lock()
	results["events"] = events
	mu.Unlock()
	ob, _ := json.Marshal(results)
	os.WriteFile(outp, ob, 0644)
	exec := 0
	_ = exec
	os.RemoveAll(scratch)
}
