#include <sys/socket.h>
#include <unistd.h>
/* Driver for the unmodified pam/pam_whawty.c: provides the few libpam functions the module calls and
 * runs pam_sm_authenticate once.  usage: pamdrv <userfile> <pwfile> <mode> <errno-on-entry> [module options...]
 *   mode: stack  = password on the PAM stack (use_first_pass)   conv = password from the conversation
 * prints: "RC <pam code> MS <elapsed ms>" */
#include <stdio.h>
#include <stdlib.h>
#include <string.h>
#include <errno.h>
#include <time.h>
#include <stdarg.h>
#include <signal.h>
#include <sys/time.h>
#include <security/pam_modules.h>
#include <security/pam_ext.h>

static char *g_user, *g_pw, *g_item;
static int g_mode_conv;

static char *slurp(const char *p) {
  FILE *f = fopen(p, "rb"); if (!f) { perror(p); exit(2); }
  fseek(f, 0, SEEK_END); long n = ftell(f); fseek(f, 0, SEEK_SET);
  char *b = malloc(n + 1); if (n && fread(b, 1, n, f) != (size_t)n) exit(2); b[n] = 0; fclose(f); return b;
}
int pam_get_user(pam_handle_t *pamh, const char **user, const char *prompt) { (void)pamh; (void)prompt; *user = g_user; return PAM_SUCCESS; }
int pam_get_item(const pam_handle_t *pamh, int item_type, const void **item) {
  (void)pamh; if (item_type != PAM_AUTHTOK) return PAM_BUF_ERR; *item = g_mode_conv ? g_item : g_pw; return PAM_SUCCESS; }
int pam_set_item(pam_handle_t *pamh, int item_type, const void *item) {
  (void)pamh; (void)item_type; free(g_item); g_item = item ? strdup(item) : NULL; return PAM_SUCCESS; }
const char *pam_strerror(pam_handle_t *pamh, int errnum) { (void)pamh; (void)errnum; return "pam error"; }
void pam_vsyslog(const pam_handle_t *pamh, int priority, const char *fmt, va_list args) {
  (void)pamh; (void)priority; char buf[2048]; vsnprintf(buf, sizeof buf, fmt, args); /* formatted (exercises the format strings), dropped */ }
int pam_prompt(pam_handle_t *pamh, int style, char **response, const char *fmt, ...) {
  (void)pamh; (void)style; (void)fmt;
  /* a user who takes longer to type the password than the module's socket timeout (PAMDRV_PROMPT_DELAY_MS) */
  const char *d = getenv("PAMDRV_PROMPT_DELAY_MS"); if (d && atoi(d) > 0) usleep((useconds_t)atoi(d) * 1000);
  *response = strdup(g_pw); return PAM_SUCCESS; }

/* Short writes on the agent's socket: with PAMDRV_WRITECAP=n every write() of the module accepts at most n bytes
 * (linked with -Wl,--wrap=write), as a stream socket may do at any time. */
ssize_t __real_write(int fd, const void *buf, size_t n);
ssize_t __wrap_write(int fd, const void *buf, size_t n)
{
  const char *c = getenv("PAMDRV_WRITECAP");
  if (c && fd > 2) {
    size_t cap = (size_t)atoi(c);
    if (cap > 0 && n > cap) n = cap;
  }
  return __real_write(fd, buf, n);
}

ssize_t __real_send(int fd, const void *buf, size_t n, int flags);
ssize_t __wrap_send(int fd, const void *buf, size_t n, int flags)
{
  const char *c = getenv("PAMDRV_WRITECAP");
  if (c && fd > 2) {
    size_t cap = (size_t)atoi(c);
    if (cap > 0 && n > cap) n = cap;
  }
  return __real_send(fd, buf, n, flags);
}

/* Signals in the host process while the module waits: PAMDRV_SIGNALS=one:<ms> (one SIGALRM after <ms>) or
 * stream:<ms> (one every <ms>), handled by a no-op handler installed without SA_RESTART, as an application's own
 * timers or SIGCHLD would be. */
static void on_alarm(int sig) { (void)sig; }
static void arm_signals(void) {
  const char *g = getenv("PAMDRV_SIGNALS"); if (!g) return;
  const char *c = strchr(g, ':'); if (!c) return;
  long ms = atol(c + 1); if (ms <= 0) return;
  struct sigaction sa; memset(&sa, 0, sizeof sa); sa.sa_handler = on_alarm; sigemptyset(&sa.sa_mask); sigaction(SIGALRM, &sa, NULL);
  struct itimerval it; memset(&it, 0, sizeof it);
  it.it_value.tv_sec = ms / 1000; it.it_value.tv_usec = (ms % 1000) * 1000;
  if (!strncmp(g, "stream", 6)) it.it_interval = it.it_value;
  setitimer(ITIMER_REAL, &it, NULL);
}

int main(int argc, char **argv) {
  if (argc < 5) return 2;
  /* SIGPIPE keeps its default disposition: a PAM module must not rely on the host application ignoring it */
  g_user = slurp(argv[1]); g_pw = slurp(argv[2]);
  g_mode_conv = !strcmp(argv[3], "conv");
  int e = atoi(argv[4]);
  /* PAMDRV_SOCKS=path1,path2,...: several authentications in this one process, one per socket path
   * (the module must not carry anything over from one call to the next) */
  const char *socks = getenv("PAMDRV_SOCKS");
  int nopt = argc - 5;
  const char **opts = calloc(nopt + 2, sizeof(char *));
  for (int i = 0; i < nopt; i++) opts[i] = argv[5 + i];
  char *list = socks ? strdup(socks) : NULL;
  char *tok = list ? strtok(list, ",") : NULL;
  do {
    char sockopt[600];
    int n = nopt;
    if (tok) { snprintf(sockopt, sizeof sockopt, "sock=%s", tok); opts[n++] = sockopt; }
    struct timespec a, b; clock_gettime(CLOCK_MONOTONIC, &a);
    arm_signals();
    errno = e;
    int rc = pam_sm_authenticate((pam_handle_t *)0x1, 0, n, opts);
    clock_gettime(CLOCK_MONOTONIC, &b);
    long ms = (b.tv_sec - a.tv_sec) * 1000 + (b.tv_nsec - a.tv_nsec) / 1000000;
    printf("RC %d MS %ld\n", rc, ms);
    fflush(stdout);
    tok = list ? strtok(NULL, ",") : NULL;
  } while (tok);
  free(list); free(opts);
  free(g_user); free(g_pw); free(g_item);
  return 0;
}
