// Package saslmap maps streams of the SaslCodec model to real saslauthd byte streams.
package saslmap

import "math/rand"

// B is the base of a model length byte, MaxLen the model's field limit (set by the caller).
var (
	B      = 3
	MaxLen = 2
)

type Edge struct {
	Stream     []int   `json:"stream"`
	Ok         bool    `json:"ok"`
	Parts      [][]int `json:"parts"`
	Consumed   int     `json:"consumed"`
	NParts     int     `json:"nparts"`
	ReqOk      bool    `json:"reqok"`
	RespOk     bool    `json:"respok"`
	RespResult bool    `json:"respresult"`
	RespMsg    []int   `json:"respmsg"`
}

// homs[k][v] = real length for model length v
func Homs(MaxLen int) [][]int {
	h1 := []int{}
	h2 := []int{}
	for v := 0; v < B*B; v++ {
		switch {
		case v < MaxLen:
			h1 = append(h1, v)
			h2 = append(h2, []int{0, 255, 100, 17}[v%4])
			if v == 0 {
				h2[v] = 0
			}
		case v == MaxLen:
			h1 = append(h1, 256)
			h2 = append(h2, 256)
		default:
			over := []int{257, 258, 1000, 32768, 65534, 65535, 300, 4096}
			h1 = append(h1, over[(v-MaxLen-1)%len(over)])
			h2 = append(h2, over[(v-MaxLen)%len(over)])
		}
	}
	h2[1] = 255
	if MaxLen > 2 { // response model: lengths below the limit stay themselves so that "OK" stays two bytes
		for v := 0; v < MaxLen; v++ {
			h1[v], h2[v] = v, v
		}
	}
	return [][]int{h1, h2}
}

type Real struct {
	Data     []byte
	Fields   [][]byte
	Consumed int
	Extra    [][]byte // further real streams with the same (failing) meaning: cuts inside a block
}

// concretise walks the model stream the way the specification parses it.
func Concretise(e *Edge, h []int, rng *rand.Rand, resp bool) Real {
	var r Real
	s := e.Stream
	pos := 0
	put16 := func(n int) { r.Data = append(r.Data, byte(n>>8), byte(n)) }
	for f := 0; f < e.NParts; f++ {
		rem := len(s) - pos
		if rem == 0 {
			return r
		}
		if rem == 1 {
			r.Data = append(r.Data, byte(h[s[pos]*B]>>8))
			return r
		}
		n := s[pos]*B + s[pos+1]
		L := h[n]
		put16(L)
		pos += 2
		if n > MaxLen {
			if rem-2 >= n { // an over-limit field that is complete: a lenient decoder would swallow it
				junk := make([]byte, L)
				rng.Read(junk)
				r.Data = append(r.Data, junk...)
				r.Fields = append(r.Fields, junk)
				pos += n
				continue
			}
			for ; pos < len(s); pos++ {
				r.Data = append(r.Data, byte(rng.Intn(256)))
			}
			return r
		}
		field := make([]byte, L)
		rng.Read(field)
		if resp && L >= 2 && n >= 2 && rem-2 >= 2 { // model bytes 1,2,0 are 'O','K','N'
			for i := 0; i < 2; i++ {
				field[i] = map[int]byte{1: 'O', 2: 'K', 0: 'N'}[s[pos+i]]
			}
			if L > 2 {
				field[2] = []byte{' ', 'x', 0}[rng.Intn(3)]
			}
		}
		have := rem - 2
		if have >= n {
			r.Data = append(r.Data, field...)
			r.Fields = append(r.Fields, field)
			pos += n
			r.Consumed = len(r.Data)
			continue
		}
		// field cut short after `have` model bytes: block j is one real byte, the last block the rest
		cut := have
		if cut > L {
			cut = L
		}
		base := append([]byte{}, r.Data...)
		r.Data = append(r.Data, field[:cut]...)
		for _, c := range []int{cut + 1, L / 2, L - 1} {
			if c > cut && c < L && n > 0 && have == n-1 {
				r.Extra = append(r.Extra, append(append([]byte{}, base...), field[:c]...))
			}
		}
		return r
	}
	for ; pos < len(s); pos++ { // trailing bytes after a complete message
		r.Data = append(r.Data, byte(rng.Intn(256)))
	}
	return r
}

