// cfgreplay renders every case of the Config case analysis as a YAML store configuration, feeds it to
// store.NewDirFromConfig and - for accepted configurations - uses every parameter set in a child
// process (add + authenticate), where a crash is an outcome and not a harness failure (C18).
package main

import (
	"bufio"
	"encoding/base64"
	"encoding/json"
	"flag"
	"fmt"
	"os"
	"os/exec"
	"path/filepath"
	"sort"
	"strings"
	"sync"
	"time"

	"github.com/whawty/auth/store"
)

type Case struct {
	Shape, Basedir, Default, Params, Scrypt, Argon, Unknown string
}

type Edge struct {
	Case   Case   `json:"case"`
	Accept string `json:"accept"`
}

type Violation struct {
	Key    string `json:"key"`
	Detail string `json:"detail"`
	Case   *Edge  `json:"case,omitempty"`
}

var (
	mu   sync.Mutex
	viol = map[string]Violation{}
	uses int
)

func violate(key, detail string, e *Edge) {
	mu.Lock()
	if _, ok := viol[key]; !ok {
		viol[key] = Violation{key, detail, e}
	}
	mu.Unlock()
}

func render(c Case, base string) string {
	key := base64.StdEncoding.EncodeToString([]byte("0123456789abcdef0123456789abcdef"))
	var b strings.Builder
	switch c.Shape {
	case "empty-doc":
		return ""
	case "not-mapping":
		return "just a string\n"
	case "list-instead-of-map":
		return "- basedir: " + base + "\n- default: 1\n"
	case "garbage":
		return "\x00\x01{{{ : ]]\n\t- x"
	}
	switch c.Basedir {
	case "ok":
		fmt.Fprintf(&b, "basedir: %q\n", base)
	case "empty":
		b.WriteString("basedir: \"\"\n")
	}
	switch c.Default {
	case "set1":
		b.WriteString("default: 1\n")
	case "set2":
		b.WriteString("default: 2\n")
	case "zero":
		b.WriteString("default: 0\n")
	case "undefined-set":
		b.WriteString("default: 7\n")
	case "string":
		b.WriteString("default: one\n")
	case "negative":
		b.WriteString("default: -1\n")
	}
	if c.Unknown == "top-level" {
		b.WriteString("colour: blue\n")
	}
	scrypt := func(id string) {
		if id != "" {
			fmt.Fprintf(&b, "  - id: %s\n", id)
		} else {
			b.WriteString("  - scryptauth:\n")
		}
		if id != "" {
			b.WriteString("    scryptauth:\n")
		}
		k, cost, r, p := "      hmackey: "+key+"\n", "      cost: 2\n", "      r: 8\n", "      p: 1\n"
		switch c.Scrypt {
		case "r-p-omitted":
			r, p = "", ""
		case "cost-0":
			cost = "      cost: 0\n"
		case "cost-32":
			cost = "      cost: 32\n"
		case "cost-missing":
			cost = ""
		case "key-missing":
			k = ""
		case "key-short":
			k = "      hmackey: " + base64.StdEncoding.EncodeToString([]byte("short")) + "\n"
		case "key-not-b64":
			k = "      hmackey: \"!!!not base64!!!\"\n"
		case "r-negative":
			r = "      r: -3\n"
		case "cost-string":
			cost = "      cost: many\n"
		}
		b.WriteString(k + cost + r + p)
		if c.Unknown == "in-scrypt" {
			b.WriteString("      salt: fixed\n")
		}
	}
	argon := func(id string, nested bool) {
		if !nested {
			fmt.Fprintf(&b, "  - id: %s\n", id)
		}
		b.WriteString("    argon2id:\n")
		t, m, th, l := "      time: 1\n", "      memory: 8\n", "      threads: 1\n", "      length: 32\n"
		switch c.Argon {
		case "time-0":
			t = "      time: 0\n"
		case "time-missing":
			t = ""
		case "threads-0":
			th = "      threads: 0\n"
		case "threads-missing":
			th = ""
		case "length-0":
			l = "      length: 0\n"
		case "length-missing":
			l = ""
		case "memory-0":
			m = "      memory: 0\n"
		case "memory-1":
			m = "      memory: 1\n"
		case "all-missing":
			t, m, th, l = "", "", "", "      {}\n"
		case "threads-256":
			th = "      threads: 256\n"
		}
		b.WriteString(t + m + th + l)
		if c.Unknown == "in-argon" {
			b.WriteString("      variant: d\n")
		}
	}
	switch c.Params {
	case "none":
	case "params-not-a-list":
		b.WriteString("params: 5\n")
	default:
		b.WriteString("params:\n")
		switch c.Params {
		case "scrypt":
			scrypt("1")
		case "argon":
			argon("2", false)
		case "scrypt+argon":
			scrypt("1")
			argon("2", false)
		case "dup-id":
			scrypt("1")
			argon("1", false)
		case "id-zero":
			scrypt("0")
			argon("2", false)
		case "id-missing":
			scrypt("")
			argon("2", false)
		case "id-negative":
			scrypt("-1")
			argon("2", false)
		case "two-algos-in-one":
			scrypt("1")
			argon("1", true)
		case "no-algo":
			b.WriteString("  - id: 1\n")
			argon("2", false)
		}
		if c.Unknown == "in-set" {
			b.WriteString("    comment: hello\n")
		}
	}
	out := b.String()
	if c.Shape == "two-docs" {
		out += "---\nbasedir: /nonexistent\ndefault: 9\n"
	}
	return out
}

func use(cfg string) {
	d, err := store.NewDirFromConfig(cfg)
	if err != nil {
		fmt.Println("LOADERR", err)
		os.Exit(0)
	}
	ids := []int{}
	for id := range d.Params {
		ids = append(ids, int(id))
	}
	sort.Ints(ids)
	for _, id := range ids {
		d.Default = uint(id)
		user := fmt.Sprintf("user%d", id)
		if err := d.AddUser(user, "some password", false); err != nil {
			fmt.Printf("SET %d ADDERR %v\n", id, err)
			continue
		}
		ok, _, _, _, err := d.Authenticate(user, "some password")
		bad, _, _, _, _ := d.Authenticate(user, "another password")
		fmt.Printf("SET %d ADDOK right=%v wrong=%v err=%v\n", id, ok, bad, err)
	}
	fmt.Println("DONE")
}

func main() {
	useCfg := flag.String("use", "", "child mode: use every set of this configuration")
	in := flag.String("cases", "", "ndjson cases")
	outp := flag.String("out", "", "result json")
	scratch := flag.String("scratch", "/dev/shm/verif-cfgreplay", "scratch")
	flag.Parse()
	if *useCfg != "" {
		use(*useCfg)
		return
	}
	start := time.Now()
	self, _ := os.Executable()
	f, err := os.Open(*in)
	if err != nil {
		fmt.Fprintln(os.Stderr, "HARNESS ERROR:", err)
		os.Exit(2)
	}
	sc := bufio.NewScanner(f)
	sc.Buffer(make([]byte, 1<<20), 1<<24)
	ch := make(chan *Edge, 32)
	var wg sync.WaitGroup
	for w := 0; w < 16; w++ {
		wg.Add(1)
		go func(w int) {
			defer wg.Done()
			dir := filepath.Join(*scratch, fmt.Sprintf("w%d", w))
			for e := range ch {
				os.RemoveAll(dir)
				base := filepath.Join(dir, "base")
				os.MkdirAll(base, 0700)
				cfg := filepath.Join(dir, "store.yaml")
				os.WriteFile(cfg, []byte(render(e.Case, base)), 0600)
				key := fmt.Sprintf("%+v", e.Case)
				var lerr error
				func() {
					defer func() {
						if r := recover(); r != nil {
							lerr = fmt.Errorf("panic: %v", r)
							violate("loader-panic:"+key, fmt.Sprint(r), e)
						}
					}()
					_, lerr = store.NewDirFromConfig(cfg)
				}()
				switch {
				case lerr == nil && e.Accept == "mustnot":
					violate("accepted-malformed:"+key, "the loader accepted:\n"+render(e.Case, base), e)
				case lerr != nil && e.Accept == "must":
					violate("refused-wellformed:"+key, lerr.Error(), e)
				}
				if lerr != nil {
					continue
				}
				// every accepted parameter set hashes and verifies, or fails with an error - in a child process
				cmd := exec.Command(self, "-use", cfg)
				done := make(chan struct{})
				var out []byte
				var cerr error
				go func() { out, cerr = cmd.CombinedOutput(); close(done) }()
				select {
				case <-done:
				case <-time.After(30 * time.Second):
					cmd.Process.Kill()
					violate("accepted-set-hangs:"+e.Case.Scrypt+"/"+e.Case.Argon, "no result within 30 s", e)
					continue
				}
				mu.Lock()
				uses++
				mu.Unlock()
				s := string(out)
				if cerr != nil || !strings.Contains(s, "DONE") {
					what := "scrypt=" + e.Case.Scrypt + "/argon=" + e.Case.Argon
					violate("accepted-set-crashes:"+what, fmt.Sprintf("child: %v\n%s", cerr, tail(s, 600)), e)
					continue
				}
				for _, line := range strings.Split(s, "\n") {
					if strings.Contains(line, "ADDOK") && (!strings.Contains(line, "right=true") || !strings.Contains(line, "wrong=false")) {
						violate("accepted-set-does-not-verify:scrypt="+e.Case.Scrypt+"/argon="+e.Case.Argon, line, e)
					}
				}
			}
			os.RemoveAll(dir)
		}(w)
	}
	n := 0
	for sc.Scan() {
		var e Edge
		if err := json.Unmarshal(sc.Bytes(), &e); err != nil {
			fmt.Fprintln(os.Stderr, "HARNESS ERROR:", err)
			os.Exit(2)
		}
		n++
		ee := e
		ch <- &ee
	}
	close(ch)
	wg.Wait()
	var vs []Violation
	for _, v := range viol {
		vs = append(vs, v)
	}
	sort.Slice(vs, func(i, j int) bool { return vs[i].Key < vs[j].Key })
	res := map[string]interface{}{"cases": n, "accepted_and_used": uses, "violations": vs, "elapsed_s": time.Since(start).Seconds()}
	b, _ := json.MarshalIndent(res, "", " ")
	os.WriteFile(*outp, b, 0644)
	os.RemoveAll(*scratch)
}

func tail(s string, n int) string {
	if len(s) > n {
		return s[len(s)-n:]
	}
	return s
}
