// pwscore prints the zxcvbn strength figures for user/password pairs, computed independently of
// cmd/whawty-auth/policy.go (input: JSON list of [user, password] on stdin; output: JSON list).
package main

import (
	"encoding/json"
	"fmt"
	"os"

	zxcvbn "github.com/nbutton23/zxcvbn-go"
)

func main() {
	var pairs [][2]string
	if err := json.NewDecoder(os.Stdin).Decode(&pairs); err != nil {
		fmt.Fprintln(os.Stderr, "HARNESS ERROR:", err)
		os.Exit(2)
	}
	out := make([]map[string]float64, 0, len(pairs))
	for _, p := range pairs {
		s := zxcvbn.PasswordStrength(p[1], []string{p[0], "whawty"})
		out = append(out, map[string]float64{"score": float64(s.Score), "entropy": s.Entropy, "time": s.CrackTime})
	}
	json.NewEncoder(os.Stdout).Encode(out)
}
