// saslconn drives a real sasl.Server over a unix socket with raw connections derived from the
// SaslCodec streams (fragmented writes, half-close / close / silence) and a recording callback whose
// outcome is chosen per connection, and compares what happens with the SaslConn model's edges.
package main

import (
	"bufio"
	"bytes"
	"encoding/json"
	"errors"
	"flag"
	"fmt"
	"math/rand"
	"net"
	"os"
	"path/filepath"
	"sort"
	"strings"
	"sync"
	"time"

	"verifharness/saslmap"

	"github.com/whawty/auth/sasl"
)

type ConnEdge struct {
	Stream string `json:"stream"`
	Fin    string `json:"fin"`
	Cb     struct {
		Ok  bool   `json:"ok"`
		Msg string `json:"msg"`
		Err bool   `json:"err"`
	} `json:"cb"`
	Calls   int    `json:"calls"`
	Replies int    `json:"replies"`
	Word    string `json:"word"`
	PartLen int    `json:"partlen"`
}

type Violation struct {
	Key    string      `json:"key"`
	Detail string      `json:"detail"`
	Edge   interface{} `json:"edge,omitempty"`
}

type plan struct {
	ok   bool
	msg  string
	err  bool
	slow time.Duration
	seen [][4]string
}

var (
	mu    sync.Mutex
	viol  = map[string]Violation{}
	plans = map[string]*plan{} // by login
	stray [][4]string          // callback invocations with an unknown login
	conns int
)

func violate(key, detail string, e interface{}) {
	mu.Lock()
	if _, ok := viol[key]; !ok {
		viol[key] = Violation{key, detail, e}
	}
	mu.Unlock()
}

func callback(login, password, service, realm string) (bool, string, error) {
	mu.Lock()
	p := plans[login]
	if p == nil {
		stray = append(stray, [4]string{login, password, service, realm})
		mu.Unlock()
		return false, "unknown", nil
	}
	p.seen = append(p.seen, [4]string{login, password, service, realm})
	ok, msg, e := p.ok, p.msg, p.err
	mu.Unlock()
	if p.slow > 0 {
		time.Sleep(p.slow)
	}
	if e {
		if msg == "" {
			msg = "internal error in the provider"
		}
		return ok, "", errors.New(msg) // the error text has the message's length class
	}
	return ok, msg, nil
}

func msgOf(class string, token string, rng *rand.Rand) string {
	n := map[string]int{"empty": 0, "short": 20, "253": 253, "254": 254, "65532": 65532, "65533": 65533, "65600": 65600}[class]
	if n == 0 {
		return ""
	}
	b := make([]byte, n)
	for i := range b {
		b[i] = byte(32 + rng.Intn(95))
	}
	copy(b, token)
	return string(b)
}

// one connection: returns reply bytes, whether EOF was seen, error text
func talk(sock string, data []byte, chunks []int, fin string, wait time.Duration) ([]byte, bool, string) {
	c, err := net.Dial("unix", sock)
	if err != nil {
		return nil, false, "dial: " + err.Error()
	}
	defer c.Close()
	uc := c.(*net.UnixConn)
	left := data
	for _, n := range chunks {
		if n > len(left) {
			n = len(left)
		}
		if n == 0 {
			continue
		}
		if n < 0 { // a pause of -n milliseconds
			time.Sleep(time.Duration(-n) * time.Millisecond)
			continue
		}
		if _, err := uc.Write(left[:n]); err != nil {
			break // the server may have answered and closed already (over-limit field)
		}
		left = left[n:]
		time.Sleep(200 * time.Microsecond)
	}
	if len(left) > 0 {
		uc.Write(left) //nolint:errcheck
	}
	switch fin {
	case "halfclose":
		uc.CloseWrite() //nolint:errcheck
	case "close":
		uc.Close()
		return nil, true, ""
	}
	uc.SetReadDeadline(time.Now().Add(wait)) //nolint:errcheck
	var reply []byte
	buf := make([]byte, 70000)
	for {
		n, err := uc.Read(buf)
		reply = append(reply, buf[:n]...)
		if err != nil {
			if ne, ok := err.(net.Error); ok && ne.Timeout() {
				return reply, false, ""
			}
			return reply, true, ""
		}
	}
}

func pamVerdict(reply []byte) (bool, bool) { // (success, understood): what pam_whawty does with these bytes
	if len(reply) < 2 {
		return false, false
	}
	l := int(reply[0])<<8 | int(reply[1])
	if l > 256 {
		l = 256
	}
	if len(reply)-2 < l {
		return false, false
	}
	return bytes.HasPrefix(reply[2:2+l], []byte("OK")), true
}

type job struct {
	slow   bool // pause several seconds in the middle of the request, slow callback
	e      *ConnEdge
	data   []byte
	fields [][]byte
	chunks []int
	id     int
}

func runJob(sock string, j job, rng *rand.Rand) {
	e := j.e
	login := ""
	if e.Stream == "good" {
		login = string(j.fields[0])
	}
	token := fmt.Sprintf("conn-%d;", j.id)
	p := &plan{ok: e.Cb.Ok, msg: msgOf(e.Cb.Msg, token, rng), err: e.Cb.Err}
	if j.slow {
		p.slow = 1500 * time.Millisecond
	}
	if login != "" {
		mu.Lock()
		plans[login] = p
		mu.Unlock()
	}
	wait := 3 * time.Second
	if e.Fin == "silent" && e.Stream == "bad" {
		wait = 150 * time.Millisecond
	}
	if j.slow {
		wait = 12 * time.Second
	}
	reply, eof, errs := talk(sock, j.data, j.chunks, e.Fin, wait)
	mu.Lock()
	conns++
	seen := append([][4]string{}, p.seen...)
	mu.Unlock()
	key := fmt.Sprintf("%s/%s/cb(ok=%v,msg=%s,err=%v)", e.Stream, e.Fin, e.Cb.Ok, e.Cb.Msg, e.Cb.Err)
	if errs != "" {
		violate("harness:"+errs, errs, e)
		return
	}
	// callback
	if e.Fin == "close" {
		time.Sleep(5 * time.Millisecond) // the server may still be working on it
		mu.Lock()
		seen = append([][4]string{}, p.seen...)
		mu.Unlock()
	}
	if len(seen) > 1 {
		violate("callback-more-than-once:"+key, fmt.Sprintf("%d invocations", len(seen)), e)
	}
	if e.Stream == "bad" && len(seen) > 0 {
		violate("callback-on-undecodable-request:"+e.Fin, fmt.Sprintf("callback got %q", seen[0]), e)
	}
	if e.Stream == "good" && e.Fin != "close" {
		if len(seen) != 1 {
			violate("callback-missing:"+key, "a complete request did not reach the callback", e)
		} else {
			for i := 0; i < 4; i++ {
				if seen[0][i] != string(j.fields[i]) {
					violate("callback-args-differ", fmt.Sprintf("field %d: sent %d bytes, callback got %d bytes", i, len(j.fields[i]), len(seen[0][i])), e)
				}
			}
		}
	}
	if e.Fin == "close" {
		return
	}
	if e.Fin == "silent" && e.Stream == "bad" {
		if len(reply) > 0 {
			// over-limit prefixes are refused before the stream ends; that is a correct early "NO"
			var r sasl.Response
			if r.Unmarshal(reply) != nil || r.Result {
				violate("reply-to-unfinished-request", fmt.Sprintf("%q", trunc(reply)), e)
			}
		}
		return
	}
	// exactly one well-formed reply, then close
	if !eof {
		violate("connection-not-closed:"+key, "no EOF after the reply", e)
	}
	if len(reply) < 2 {
		violate("no-reply:"+key, fmt.Sprintf("got %d bytes", len(reply)), e)
		return
	}
	l := int(reply[0])<<8 | int(reply[1])
	if len(reply) != 2+l {
		violate("reply-framing:"+key, fmt.Sprintf("length prefix %d, %d bytes follow", l, len(reply)-2), e)
		return
	}
	part := reply[2:]
	verdict := e.Stream == "good" && e.Cb.Ok && !e.Cb.Err
	if !bytes.HasPrefix(part, []byte("OK")) && !bytes.HasPrefix(part, []byte("NO")) {
		violate("reply-text:"+key, fmt.Sprintf("%q", trunc(part)), e)
	}
	if bytes.HasPrefix(part, []byte("OK")) != verdict {
		violate(fmt.Sprintf("reply-positive=%v:%s", !verdict, key), fmt.Sprintf("%q", trunc(part)), e)
	}
	if len(part) > 2 && part[2] != ' ' {
		violate("reply-text:separator", fmt.Sprintf("%q", trunc(part)), e)
	}
	// decodable by the bundled Go client and by the PAM module, yielding the callback's verdict
	var r sasl.Response
	if err := r.Unmarshal(reply); err != nil {
		violate("reply-not-decodable-by-go-client:"+key, fmt.Sprintf("part of %d bytes: %v", len(part), err), e)
	} else if r.Result != verdict {
		violate("go-client-verdict:"+key, fmt.Sprintf("client says %v", r.Result), e)
	}
	if pv, understood := pamVerdict(reply); !understood || pv != verdict {
		violate("reply-not-decodable-by-pam:"+key, fmt.Sprintf("understood=%v verdict=%v", understood, pv), e)
	}
	// no cross talk: the message carries this connection's token
	if e.Stream == "good" && e.Cb.Msg != "empty" && !bytes.Contains(part, []byte(token)) {
		violate("cross-talk", fmt.Sprintf("reply %q does not carry %q", trunc(part), token), e)
	}
}

func trunc(b []byte) []byte {
	if len(b) > 40 {
		return b[:40]
	}
	return b
}

func main() {
	streams := flag.String("streams", "", "ndjson SaslCodec edges")
	edgesF := flag.String("edges", "", "ndjson SaslConn edges")
	outp := flag.String("out", "", "result json")
	seed := flag.Int64("seed", 1, "seed")
	scratch := flag.String("scratch", "/dev/shm/verif-saslconn", "scratch")
	perEdge := flag.Int("per-edge", 6, "streams tried per connection edge")
	flag.Parse()
	start := time.Now()
	os.MkdirAll(*scratch, 0700)
	sock := filepath.Join(*scratch, "sasl.sock")
	os.Remove(sock)
	srv, err := sasl.NewServer(sock, callback)
	if err != nil {
		fmt.Fprintln(os.Stderr, "HARNESS ERROR:", err)
		os.Exit(2)
	}
	go srv.Run() //nolint:errcheck

	var good, bad []saslmap.Edge
	f, _ := os.Open(*streams)
	sc := bufio.NewScanner(f)
	sc.Buffer(make([]byte, 1<<20), 1<<24)
	for sc.Scan() {
		var e saslmap.Edge
		json.Unmarshal(sc.Bytes(), &e)
		if e.ReqOk {
			good = append(good, e)
		} else {
			bad = append(bad, e)
		}
	}
	var edges []ConnEdge
	f2, _ := os.Open(*edgesF)
	sc = bufio.NewScanner(f2)
	sc.Buffer(make([]byte, 1<<20), 1<<24)
	seenEdge := map[string]bool{}
	for sc.Scan() {
		if seenEdge[sc.Text()] {
			continue
		}
		seenEdge[sc.Text()] = true
		var e ConnEdge
		json.Unmarshal(sc.Bytes(), &e)
		edges = append(edges, e)
	}
	rng := rand.New(rand.NewSource(*seed))
	ch := make(chan job, 64)
	var wg sync.WaitGroup
	for w := 0; w < 32; w++ {
		wg.Add(1)
		go func(w int) {
			defer wg.Done()
			r := rand.New(rand.NewSource(*seed*7919 + int64(w)))
			for j := range ch {
				runJob(sock, j, r)
			}
		}(w)
	}
	id := 0
	var okJobs, badJobs []job
	homs := saslmap.Homs(2)
	slowLeft := 2
	for i := range edges {
		e := &edges[i]
		pool := bad
		if e.Stream == "good" {
			pool = good
		}
		n := *perEdge
		if e.Stream == "bad" && e.Fin == "halfclose" {
			n = len(bad) // every undecodable stream once, ended properly: the callback must never see it
		}
		for k := 0; k < n; k++ {
			id++
			se := pool[rng.Intn(len(pool))]
			if n == len(bad) {
				se = bad[k]
			}
			r := saslmap.Concretise(&se, homs[rng.Intn(2)], rng, false)
			data := r.Data
			if len(r.Extra) > 0 && rng.Intn(3) == 0 {
				data = r.Extra[rng.Intn(len(r.Extra))]
			}
			if e.Stream == "good" { // make the login unique: it identifies the connection in the callback
				tag := []byte(fmt.Sprintf("%08d", id))
				if len(r.Fields[0]) >= 8 {
					copy(r.Fields[0], tag)
					copy(data[2:], tag)
				} else { // one-byte login: give it a unique byte sequence by re-encoding with an 8 byte login
					r.Fields[0] = tag
					var nb []byte
					for _, fl := range r.Fields[:4] {
						nb = append(nb, byte(len(fl)>>8), byte(len(fl)))
						nb = append(nb, fl...)
					}
					data = append(nb, r.Data[r.Consumed:]...)
				}
			}
			var chunks []int
			switch rng.Intn(4) {
			case 0:
				chunks = []int{len(data)}
			case 1:
				for c := 0; c < len(data) && c < 64; c++ {
					chunks = append(chunks, 1)
				}
			default:
				left := len(data)
				for left > 0 {
					c := 1 + rng.Intn(left)
					chunks = append(chunks, c)
					left -= c
				}
			}
			slow := false
			if slowLeft > 0 && e.Stream == "good" && e.Fin == "halfclose" && e.Cb.Ok && !e.Cb.Err && len(data) > 4 {
				// write timing: a request trickling in over several seconds and a slow callback still get their one reply
				slowLeft--
				slow = true
				chunks = []int{2, -3000, len(data) / 2, -3000, len(data)}
			}
			jb := job{e: e, data: data, fields: r.Fields, chunks: chunks, id: id, slow: slow}
			if !slow && e.Fin == "halfclose" {
				if e.Stream == "bad" {
					badJobs = append(badJobs, jb)
				} else if e.Cb.Ok && !e.Cb.Err {
					okJobs = append(okJobs, jb)
				}
			}
			ch <- jb
		}
	}
	close(ch)
	wg.Wait()
	// one connection after the other on the same server: an approved login, then an undecodable stream (and an approved one
	// again): nothing of a connection's outcome may be left behind for the next one
	if len(okJobs) > 0 {
		r := rand.New(rand.NewSource(*seed + 99))
		for i := 0; i < len(badJobs) && i < 600; i++ {
			runJob(sock, okJobs[i%len(okJobs)], r)
			runJob(sock, badJobs[i], r)
		}
	}
	mu.Lock()
	if len(stray) > 0 {
		viol["callback-with-unsent-fields"] = Violation{"callback-with-unsent-fields", fmt.Sprintf("%d invocations with a login no connection sent, e.g. %q", len(stray), stray[0]), nil}
	}
	mu.Unlock()
	var vs []Violation
	for _, v := range viol {
		vs = append(vs, v)
	}
	sort.Slice(vs, func(i, j int) bool { return vs[i].Key < vs[j].Key })
	_ = strings.TrimSpace
	res := map[string]interface{}{"conn_edges": len(edges), "connections": conns, "violations": vs,
		"good_streams": len(good), "bad_streams": len(bad), "elapsed_s": time.Since(start).Seconds()}
	b, _ := json.MarshalIndent(res, "", " ")
	os.WriteFile(*outp, b, 0644)
	os.RemoveAll(*scratch)
}
