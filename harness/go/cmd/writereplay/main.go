// writereplay builds stores from YAML configurations covering the parameter space (scrypt cost/r/p/hmackey
// with and without r and p; argon2id time/memory/threads/length), writes records through add and update,
// projects every written line (digest recomputed independently from the YAML numbers) to an event for
// Written.tla and scans the directory for secrets (C14).
package main

import (
	"bytes"
	"crypto/sha256"
	"encoding/base64"
	"encoding/hex"
	"encoding/json"
	"flag"
	"fmt"
	"math/rand"
	"os"
	"path/filepath"
	"strings"
	"time"

	"verifharness/concrete"

	"github.com/whawty/auth/store"
)

func must(err error) {
	if err != nil {
		fmt.Fprintln(os.Stderr, "HARNESS ERROR:", err)
		os.Exit(2)
	}
}

func main() {
	outp := flag.String("out", "", "ndjson trace")
	seed := flag.Int64("seed", 1, "seed")
	scratch := flag.String("scratch", "/dev/shm/verif-writereplay", "scratch")
	nsets := flag.Int("sets", 24, "parameter sets to generate")
	flag.Parse()
	rng := rand.New(rand.NewSource(*seed))
	var sets []concrete.ParamSet
	costs, rs, ps := []uint{1, 2, 3, 6}, []int{0, 1, 2, 8}, []int{0, 1, 2, 3}
	times, mems, ths, lens := []uint32{1, 2, 3}, []uint32{8, 16, 64, 512}, []uint8{1, 2, 4}, []uint32{4, 16, 32, 64}
	// the first sets walk through the combinations of defaulted (0 = key omitted in the YAML) and explicit r / p, and through
	// argon2id memory sizes that are not a multiple of 4*threads; the rest is drawn at random
	rp := [][2]int{{0, 0}, {0, 2}, {8, 0}, {1, 2}, {0, 3}, {2, 1}, {0, 1}, {8, 3}}
	ar := [][4]uint32{{1, 8, 1, 32}, {1, 1000, 3, 32}, {2, 65, 2, 16}, {1, 24, 3, 64}, {3, 16, 1, 4}, {1, 8, 1, 4096}, {1, 8, 1, 3100}, {1, 512, 32, 32}, {1, 64, 4, 32}}
	for i := 0; i < *nsets; i++ {
		if i%2 == 0 {
			k := make([]byte, 32)
			rng.Read(k)
			r, pp := rs[rng.Intn(len(rs))], ps[rng.Intn(len(ps))]
			if i/2 < len(rp) {
				r, pp = rp[i/2][0], rp[i/2][1]
			}
			sets = append(sets, concrete.ParamSet{ID: uint(i + 1), Algo: "scrypt", Cost: costs[rng.Intn(len(costs))], R: r, P: pp, HmacKey: k})
		} else {
			a := [4]uint32{times[rng.Intn(len(times))], mems[rng.Intn(len(mems))], uint32(ths[rng.Intn(len(ths))]), lens[rng.Intn(len(lens))]}
			if i/2 < len(ar) {
				a = ar[i/2]
			}
			sets = append(sets, concrete.ParamSet{ID: uint(i + 1), Algo: "argon", Time: a[0], Memory: a[1], Threads: uint8(a[2]), Length: a[3]})
		}
	}
	passwords := []string{"secret", "", "pass:word\n", strings.Repeat("long", 40), "\xff\xfe bin \x00 x", "ünï", "hunter2hunter2",
		"a", strings.Repeat("Z", 300)}
	f, err := os.Create(*outp)
	must(err)
	enc := json.NewEncoder(f)
	emit := func(m map[string]interface{}) {
		for _, k := range []string{"algo", "shape", "time", "salt", "digest", "b64", "op", "detail"} {
			if _, ok := m[k]; !ok {
				m[k] = ""
			}
		}
		for _, k := range []string{"default", "param", "saltlen", "leaks"} {
			if _, ok := m[k]; !ok {
				m[k] = 0
			}
		}
		enc.Encode(m)
	}
	for si, def := range sets {
		dir := filepath.Join(*scratch, fmt.Sprintf("s%d", si))
		os.RemoveAll(dir)
		base := filepath.Join(dir, "base")
		must(os.MkdirAll(base, 0700))
		all := map[uint]concrete.ParamSet{}
		ids := []uint{}
		for _, s := range sets[max(0, si-1):min(len(sets), si+2)] {
			all[s.ID] = s
			ids = append(ids, s.ID)
		}
		cfg := filepath.Join(dir, "store.yaml")
		must(os.WriteFile(cfg, []byte(concrete.ConfigYAML(base, def.ID, all, ids)), 0600))
		d, err := store.NewDirFromConfig(cfg)
		must(err)
		emit(map[string]interface{}{"ev": "config", "default": int(def.ID), "algo": def.FormatID()})
		secrets := [][]byte{}
		if def.Algo == "scrypt" {
			secrets = append(secrets, def.HmacKey)
		}
		for pi, pw := range passwords {
			user := fmt.Sprintf("user%d", pi)
			for round := 0; round < 2; round++ {
				t0 := time.Now().Unix()
				op := "add"
				if round == 0 {
					err = d.AddUser(user, pw, pi%2 == 0)
				} else {
					op = "update"
					err = d.UpdateUser(user, pw+"'")
					pw = pw + "'"
				}
				t1 := time.Now().Unix()
				if err != nil {
					emit(map[string]interface{}{"ev": "write", "op": op, "shape": "operation-failed", "detail": err.Error()})
					continue
				}
				if len(pw) >= 6 {
					secrets = append(secrets, []byte(pw))
				}
				ext := ".user"
				if pi%2 == 0 {
					ext = ".admin"
				}
				b, err := os.ReadFile(filepath.Join(base, user+ext))
				must(err)
				ev := map[string]interface{}{"ev": "write", "op": op}
				line, rest := concrete.SplitFile(b)
				rec, perr := concrete.ParseLine(line)
				switch {
				case perr != nil:
					ev["shape"], ev["detail"] = "unparsable", perr.Error()
				case len(rest) != 0:
					ev["shape"] = "extra-lines"
				default:
					ev["shape"] = "single-line-5-fields"
				}
				if perr == nil {
					ev["algo"], ev["param"], ev["saltlen"] = rec.Format, int(rec.Param), len(rec.Salt)
					ev["time"] = "outside-operation"
					if rec.Time >= t0 && rec.Time <= t1 {
						ev["time"] = "within-operation"
					}
					h := sha256.Sum256(rec.Salt)
					ev["salt"] = hex.EncodeToString(h[:10])
					ev["digest"] = "differs-from-independent-recomputation"
					if ps, ok := all[rec.Param]; ok && bytes.Equal(ps.Digest([]byte(pw), rec.Salt), rec.Digest) {
						ev["digest"] = "ok"
					}
					fields := strings.Split(strings.TrimSuffix(line, "\n"), ":")
					ev["b64"] = "other"
					if fields[3] == base64.URLEncoding.EncodeToString(rec.Salt) && fields[4] == base64.URLEncoding.EncodeToString(rec.Digest) {
						ev["b64"] = "url-padded"
					}
				}
				emit(ev)
			}
		}
		// secrets must not appear anywhere below the base directory, in any usual encoding
		leaks := 0
		detail := ""
		filepath.Walk(base, func(p string, info os.FileInfo, err error) error {
			if err != nil || info.IsDir() {
				return nil
			}
			b, _ := os.ReadFile(p)
			for _, s := range secrets {
				for _, e := range [][]byte{s, []byte(base64.StdEncoding.EncodeToString(s)), []byte(base64.URLEncoding.EncodeToString(s)),
					[]byte(hex.EncodeToString(s)), []byte(base64.RawURLEncoding.EncodeToString(s))} {
					if len(e) >= 6 && bytes.Contains(b, e) {
						leaks++
						detail = filepath.Base(p)
					}
				}
			}
			return nil
		})
		emit(map[string]interface{}{"ev": "scan", "leaks": leaks, "detail": detail})
		os.RemoveAll(dir)
	}
	f.Close()
}
