// storedrv performs exactly one store.Dir operation between two marker system calls, on the
// process's main OS thread, so that strace can observe, fail or kill individual system calls of
// that operation (binding B and C of the StoreFS / PosixFS modules).
package main

import (
	"encoding/json"
	"flag"
	"fmt"
	"os"
	"path/filepath"
	"runtime"
	"sort"

	"github.com/whawty/auth/store"
)

func init() { runtime.LockOSThread() }

type result struct {
	Ok      bool     `json:"ok"`
	Err     string   `json:"err"`
	Exists  bool     `json:"exists"`
	Admin   bool     `json:"admin"`
	Upg     bool     `json:"upgradeable"`
	List    []string `json:"list"`
	Changed int64    `json:"changed"`
}

func main() {
	cfg := flag.String("cfg", "", "store configuration file")
	op := flag.String("op", "", "operation")
	user := flag.String("user", "", "user name")
	pwfile := flag.String("pwfile", "", "file holding the password bytes")
	admin := flag.Bool("admin", false, "admin flag")
	swap := flag.Bool("swapdir", false, "the process has used the store before, then the directory was replaced under the same path (restore from a backup)")
	warm := flag.String("warm", "", "configuration of another store the process has used before (add, update, set-admin, remove there first)")
	flag.Parse()
	var pw string
	if *pwfile != "" {
		b, err := os.ReadFile(*pwfile)
		if err != nil {
			fmt.Fprintln(os.Stderr, "HARNESS ERROR:", err)
			os.Exit(2)
		}
		pw = string(b)
	}
	d, err := store.NewDirFromConfig(*cfg)
	if err != nil {
		fmt.Fprintln(os.Stderr, "HARNESS ERROR:", err)
		os.Exit(2)
	}
	if *warm != "" { // a long-running process that has worked on another directory before (configuration reload, several stores)
		w, err := store.NewDirFromConfig(*warm)
		if err != nil {
			fmt.Fprintln(os.Stderr, "HARNESS ERROR:", err)
			os.Exit(2)
		}
		w.AddUser("warmup", "warm password", false)
		w.UpdateUser("warmup", "warm password 2")
		w.SetAdmin("warmup", true)
		w.Authenticate("warmup", "warm password 2")
		w.RemoveUser("warmup")
	}
	if *swap {
		d.AddUser("warmup", "warm password", false)
		d.SetAdmin("warmup", true)
		d.RemoveUser("warmup")
		old := d.BaseDir + ".old"
		if err := os.Rename(d.BaseDir, old); err != nil {
			fmt.Fprintln(os.Stderr, "HARNESS ERROR:", err)
			os.Exit(2)
		}
		os.Mkdir(d.BaseDir, 0700)
		ents, _ := os.ReadDir(old)
		for _, e := range ents {
			if e.IsDir() {
				continue
			}
			b, _ := os.ReadFile(filepath.Join(old, e.Name()))
			os.WriteFile(filepath.Join(d.BaseDir, e.Name()), b, 0600)
		}
	}
	var r result
	os.Stat("/VERIF-MARK-BEGIN")
	switch *op {
	case "add":
		err = d.AddUser(*user, pw, *admin)
	case "update":
		err = d.UpdateUser(*user, pw)
	case "setadmin":
		err = d.SetAdmin(*user, *admin)
	case "remove":
		d.RemoveUser(*user)
	case "init":
		err = d.Init(*user, pw)
	case "exists":
		r.Exists, r.Admin, err = d.Exists(*user)
	case "auth":
		var ok bool
		ok, r.Admin, r.Upg, _, err = d.Authenticate(*user, pw)
		if !ok && err == nil {
			err = fmt.Errorf("not authenticated")
		}
	case "list":
		var l store.UserList
		l, err = d.List()
		for k := range l {
			r.List = append(r.List, k)
		}
	case "listfull":
		var l store.UserListFull
		l, err = d.ListFull()
		for k := range l {
			r.List = append(r.List, k)
		}
	case "check":
		err = d.Check()
	default:
		fmt.Fprintln(os.Stderr, "HARNESS ERROR: unknown op")
		os.Exit(2)
	}
	os.Stat("/VERIF-MARK-END")
	sort.Strings(r.List)
	r.Ok = err == nil
	if err != nil {
		r.Err = err.Error()
	}
	b, _ := json.Marshal(r)
	fmt.Println(string(b))
}
