// casereplay turns the pure case analyses of the specification into implementation tests:
//   -kind record : Record.tla cases  -> bytes of a hash file -> store.Dir behaviour (C02)
//   -kind dir    : DirCheck.tla cases -> a store directory    -> Check / List / ListFull / Init (C16, C03)
package main

import (
	"strconv"
	"bufio"
	"bytes"
	"encoding/base64"
	"encoding/json"
	"flag"
	"fmt"
	"math/rand"
	"os"
	"os/exec"
	"path/filepath"
	"sort"
	"strings"
	"sync"
	"time"

	"verifharness/concrete"

	"github.com/whawty/auth/store"
)

type Violation struct {
	Prop   string      `json:"prop"`
	Key    string      `json:"key"`
	Detail string      `json:"detail"`
	Case   interface{} `json:"case,omitempty"`
}

var (
	mu    sync.Mutex
	viol  = map[string]Violation{}
	execs int
	sets  = concrete.DefaultSets()
)

func violate(prop, key, detail string, c interface{}) {
	mu.Lock()
	if _, ok := viol[prop+key]; !ok {
		viol[prop+key] = Violation{prop, key, detail, c}
	}
	mu.Unlock()
}

func must(err error) {
	if err != nil {
		fmt.Fprintln(os.Stderr, "HARNESS ERROR:", err)
		os.Exit(2)
	}
}

const rightPw, wrongPw = "the right password", "another password"

// guarded runs f with a watchdog and panic capture: crash and hang are outcomes, not harness failures.
func guarded(prop, key string, c interface{}, f func()) bool {
	done := make(chan bool, 1)
	go func() {
		defer func() {
			if r := recover(); r != nil {
				violate(prop, key+":panic", fmt.Sprint(r), c)
				done <- false
				return
			}
			done <- true
		}()
		f()
	}()
	select {
	case ok := <-done:
		return ok
	case <-time.After(20 * time.Second):
		violate(prop, key+":hang", "no result within 20 s", c)
		return false
	}
}

// ------------------------------------------------------------------ records

type RecCase struct {
	Algo, Time, Param, Salt, Digest, Shape string
}

type RecEdge struct {
	Case      RecCase `json:"case"`
	Auth      string  `json:"auth"`
	Supported string  `json:"supported"`
}

func b64(b []byte) string { return base64.URLEncoding.EncodeToString(b) }

// forceStd picks bytes whose standard-alphabet encoding differs from the URL one
func stdAlphabet(b []byte) string { return base64.StdEncoding.EncodeToString(b) }

func buildRecord(c RecCase, setID uint, rng *rand.Rand) []byte {
	ps := sets[setID]
	otherID := uint(2)
	if setID == 2 {
		otherID = 1
	}
	salt := make([]byte, ps.SaltLen())
	for { // make sure '+' or '/' shows up in the standard alphabet (so that std != url encoding) and padding exists
		rng.Read(salt)
		if strings.ContainsAny(stdAlphabet(salt), "+/") {
			break
		}
	}
	digest := ps.Digest([]byte(rightPw), salt)
	for !strings.ContainsAny(stdAlphabet(digest), "+/") {
		rng.Read(salt)
		if !strings.ContainsAny(stdAlphabet(salt), "+/") {
			continue
		}
		digest = ps.Digest([]byte(rightPw), salt)
	}
	algo := map[string]string{"match": ps.FormatID(), "other-known": sets[otherID].FormatID(), "unknown": "bcrypt", "empty": "",
		"uppercase": strings.ToUpper(ps.FormatID()), "leading-space": " " + ps.FormatID()}[c.Algo]
	tm := map[string]string{"dec": "1500000000", "zero": "0", "neg": "-5", "plus": "+1500000000", "empty": "", "nondec": "15000x",
		"overflow": "99999999999999999999", "leading-space": " 1500000000", "float": "1.5e9"}[c.Time]
	param := map[string]string{"known": fmt.Sprint(setID), "known-other-algo": fmt.Sprint(otherID), "unknown": "9", "zero": "0",
		"empty": "", "nondec": "1x", "neg": "-1", "leadzero": "0" + fmt.Sprint(setID), "plus": "+" + fmt.Sprint(setID),
		"overflow": "99999999999999999999999"}[c.Param]
	var saltF string
	switch c.Salt {
	case "orig":
		saltF = b64(salt)
	case "other":
		o := append([]byte{}, salt...)
		o[0] ^= 0xff
		saltF = b64(o)
	case "truncated":
		saltF = b64(salt[:8])
	case "empty":
		saltF = ""
	case "invalid-b64":
		saltF = "!!!!" + b64(salt)[4:]
	case "std-alphabet":
		saltF = stdAlphabet(salt)
	case "nopad":
		saltF = strings.TrimRight(b64(salt), "=")
		if saltF == b64(salt) { // no padding to strip for this length: use the raw (unpadded) encoding of other bytes
			saltF = b64(salt)
		}
	case "with-space":
		e := b64(salt)
		saltF = e[:5] + " " + e[5:]
	}
	var digF string
	switch c.Digest {
	case "match":
		digF = b64(digest)
	case "other-pw":
		digF = b64(ps.Digest([]byte(wrongPw), salt))
	case "truncated":
		digF = b64(digest[:16])
	case "extended":
		digF = b64(append(append([]byte{}, digest...), 0))
	case "empty":
		digF = ""
	case "invalid-b64":
		digF = "$$$$" + b64(digest)[4:]
	case "zeros":
		digF = b64(make([]byte, len(digest)))
	case "swapped-with-salt":
		digF, saltF = saltF, b64(digest)
	case "std-alphabet":
		digF = stdAlphabet(digest)
	case "nopad":
		digF = strings.TrimRight(b64(digest), "=")
	case "same-params-other-length":
		o := ps
		if ps.Algo == "argon" {
			o.Length = 16
			digF = b64(o.Digest([]byte(rightPw), salt))
		} else {
			digF = b64(digest[:16]) // the scrypt construction has a fixed length: a shortened tag
		}
	}
	line := strings.Join([]string{algo, tm, param, saltF, digF}, ":")
	aux := "totp: QUJD\n"
	switch c.Shape {
	case "exact":
		return []byte(line + "\n" + aux)
	case "missing-digest":
		return []byte(strings.Join([]string{algo, tm, param, saltF}, ":") + "\n" + aux)
	case "missing-two":
		return []byte(strings.Join([]string{algo, tm, param}, ":") + "\n" + aux)
	case "extra-field":
		return []byte(line + ":" + digF + "\n" + aux)
	case "no-newline":
		return []byte(line)
	case "crlf":
		return []byte(line + "\r\n" + aux)
	case "nul-before-newline":
		return []byte(line + "\x00\n" + aux)
	case "leading-blank-line":
		return []byte("\n" + line + "\n")
	case "second-line-valid":
		return []byte("# comment\n" + line + "\n")
	case "huge-aux":
		return []byte(line + "\n" + "big: " + strings.Repeat("A", 3<<20) + "\n")
	case "huge-time":
		return []byte(strings.Join([]string{algo, strings.Repeat("1", 1<<20), param, saltF, digF}, ":") + "\n")
	case "pad4096-extra-field", "pad4096-junk-tail", "pad65536-extra-field", "pad65536-junk-tail":
		// the five fields fill exactly one read buffer of a common size (time stamp padded with leading zeros);
		// the line goes on behind them: a reader that looks at the first N bytes only sees a complete record
		n := 4096
		if strings.HasPrefix(c.Shape, "pad65536") {
			n = 65536
		}
		pad := n - len(line)
		if pad < 0 {
			pad = 0
		}
		padded := strings.Join([]string{algo, strings.Repeat("0", pad) + tm, param, saltF, digF}, ":")
		if strings.HasSuffix(c.Shape, "extra-field") {
			return []byte(padded + ":AAAA\n" + aux)
		}
		return []byte(padded + "!!!!\n" + aux)
	case "only-newline":
		return []byte("\n")
	case "empty-file":
		return []byte{}
	case "binary-junk":
		j := make([]byte, 200)
		rng.Read(j)
		return j
	}
	panic("unknown shape " + c.Shape)
}

var agentExe string

// cli runs the built binary on the store configuration cfg and returns its exit status and output.
func cli(cfg string, args ...string) (int, string) {
	cmd := exec.Command(agentExe, append([]string{"--store", cfg}, args...)...)
	out, err := cmd.CombinedOutput()
	if ee, ok := err.(*exec.ExitError); ok {
		return ee.ExitCode(), string(out)
	}
	if err != nil {
		return -1, err.Error()
	}
	return 0, string(out)
}

func runRecord(dir string, e *RecEdge, seed int64) {
	rng := rand.New(rand.NewSource(seed))
	for _, setID := range []uint{1, 2, 3} { // 3: scrypt with explicit r and p (p != r)
		for _, ext := range []string{".user", ".admin"} {
			if ext == ".admin" && rng.Intn(3) != 0 {
				continue
			}
			os.RemoveAll(dir)
			base := filepath.Join(dir, "base")
			must(os.MkdirAll(base, 0700))
			// the canonical record and the case's content share salt and digest wherever the case says "orig" / "match"
			sseed := rng.Int63()
			content := buildRecord(e.Case, setID, rand.New(rand.NewSource(sseed)))
			file := filepath.Join(base, "target"+ext)
			canonical := buildRecord(RecCase{"match", "dec", "known", "orig", "match", "exact"}, setID, rand.New(rand.NewSource(sseed)))
			must(os.WriteFile(file, canonical, 0600))
			boss, _ := concrete.MakeRecord(sets[1], []byte("boss"), 1500000000, rng)
			must(os.WriteFile(filepath.Join(base, "boss.admin"), []byte(boss), 0600))
			cfg := filepath.Join(dir, "store.yaml")
			must(os.WriteFile(cfg, []byte(concrete.ConfigYAML(base, setID, sets, []uint{1, 2, 3})), 0600))
			d, err := store.NewDirFromConfig(cfg)
			must(err)
			key := fmt.Sprintf("%+v", e.Case)
			key = key[1 : len(key)-1]
			algo := sets[setID].Algo
			// history: the file first holds a canonical record and the user logs in successfully with this very
			// store object; only then the file is replaced by the case's content (tampering / foreign writer)
			guarded("C02", "prime:"+key, e, func() {
				if ok, _, _, _, _ := d.Authenticate("target", rightPw); !ok {
					violate("C02", "canonical-record-rejected:prime:"+algo, "a canonical record does not authenticate", e)
				}
			})
			must(os.WriteFile(file, content, 0600))
			snap := concrete.Snapshot(base)
			mu.Lock()
			execs += 8
			mu.Unlock()
			guarded("C02", "auth:"+key, e, func() {
				ok, _, _, _, err := d.Authenticate("target", rightPw)
				switch {
				case ok && e.Auth == "mustnot":
					violate("C02", "authenticated:"+key, fmt.Sprintf("%s set: right password accepted although the file is not a record with a matching digest (err=%v); first bytes %.60q", algo, err, content), e)
				case !ok && e.Auth == "must":
					violate("C02", "canonical-record-rejected:"+key, fmt.Sprintf("%s set: %v", algo, err), e)
				}
				for _, pw := range []string{wrongPw, "", rightPw + "\x00x", rightPw[:len(rightPw)-1]} {
					if pw == wrongPw && e.Case.Digest == "other-pw" {
						continue // that file is a proper record of the other password
					}
					if ok, _, _, _, _ := d.Authenticate("target", pw); ok {
						violate("C02", "wrong-password-authenticated:"+key, fmt.Sprintf("%s set, password %q", algo, pw), e)
					}
				}
			})
			if len(concrete.DiffSnap(snap, concrete.Snapshot(base))) > 0 {
				violate("C15", "auth-changed-store:"+key, "authenticate modified the directory", e)
			}
			// the schema's rules for files with unsupported / invalid hashes
			var inList, inFull, fullSup bool
			guarded("C02", "list:"+key, e, func() {
				l, _ := d.List()
				_, inList = l["target"]
				lf, _ := d.ListFull()
				f, ok := lf["target"]
				inFull, fullSup = ok, f.IsSupported
			})
			if !inFull {
				violate("C02", "missing-from-list-full:"+key, "list-full does not show the file", e)
			}
			switch e.Supported {
			case "mustnot":
				if inList {
					violate("C02", "unsupported-listed:"+key, "list shows a user whose file holds no supported hash", e)
				}
				if fullSup {
					violate("C02", "unsupported-shown-supported:"+key, "list-full reports supported", e)
				}
			case "must":
				if !inList || !fullSup {
					violate("C02", "supported-hidden:"+key, fmt.Sprintf("list=%v listfull.supported=%v", inList, fullSup), e)
				}
			}
			guarded("C02", "add:"+key, e, func() {
				if err := d.AddUser("target", "x", false); err == nil {
					violate("C02", "add-over-existing:"+key, "add succeeded although a file for the user exists", e)
				}
				if ex, _, _ := d.Exists("target"); !ex {
					violate("C02", "exists-false:"+key, "exists() says no", e)
				}
			})
			if len(concrete.DiffSnap(snap, concrete.Snapshot(base))) > 0 {
				violate("C02", "refused-add-changed-store:"+key, "directory changed", e)
			}
			guarded("C02", "update:"+key, e, func() {
				err := d.UpdateUser("target", "a new password")
				after := concrete.Snapshot(base)
				delete(after, ".tmp")
				changed := len(concrete.DiffSnap(snap, after)) > 0
				switch {
				case e.Supported == "mustnot" && err == nil:
					violate("C02", "update-overwrote-unsupported:"+key, "update succeeded on a file without supported hash", e)
				case err != nil && changed:
					violate("C02", "refused-update-changed-file:"+key, fmt.Sprint(concrete.DiffSnap(snap, after)), e)
				case e.Supported == "must" && err != nil:
					violate("C02", "update-refused-supported:"+key, err.Error(), e)
				}
			})
			must(os.WriteFile(file, content, 0600))
			guarded("C02", "remove:"+key, e, func() {
				d.RemoveUser("target")
				if _, err := os.Stat(file); err == nil {
					violate("C02", "remove-left-file:"+key, "the file is still there", e)
				}
			})
			// the same rules through the agent layer (the built binary), for the files without supported hash
			if agentExe != "" && e.Supported == "mustnot" && ext == ".user" && setID != 3 {
				must(os.WriteFile(file, content, 0600))
				mu.Lock()
				execs += 4
				mu.Unlock()
				if rc, out := cli(cfg, "list"); rc != 0 || strings.Contains(out, "target") {
					violate("C02", "cli:unsupported-listed:"+key, fmt.Sprintf("exit %d: %.200s", rc, out), e)
				}
				if rc, out := cli(cfg, "add", "target", "some new password 77"); rc == 0 {
					violate("C02", "cli:add-over-existing:"+key, out, e)
				}
				if rc, out := cli(cfg, "update", "target", "some new password 77"); rc == 0 {
					violate("C02", "cli:update-overwrote-unsupported:"+key, out, e)
				}
				if now, _ := os.ReadFile(file); !bytes.Equal(now, content) {
					violate("C02", "cli:refused-write-changed-file:"+key, "the file differs after refused add/update", e)
				}
				if rc, out := cli(cfg, "remove", "target"); rc != 0 {
					violate("C02", "cli:remove-refused:"+key, fmt.Sprintf("exit %d: %.200s", rc, out), e)
				}
				if _, err := os.Stat(file); err == nil {
					violate("C02", "cli:remove-left-file:"+key, "the file is still there after `remove target`", e)
				}
			}
		}
	}
}

// ------------------------------------------------------------------ directories

type DirCase struct {
	A, B, Other, Sub, Tmp, Inv, Names string
}

type DirEdge struct {
	Dir     DirCase `json:"dir"`
	Check   bool    `json:"check"`
	Init    string  `json:"init"`
	ListA   bool    `json:"lista"`
	ListB   bool    `json:"listb"`
	NamesOK bool    `json:"namesok"`
}

func bnameOf(e *DirEdge) string {
	if e.Dir.Names == "dotted-neighbour" {
		return "a.b"
	}
	return "b"
}

func runDir(dir string, e *DirEdge, seed int64, rec map[string]string) {
	for order := 0; order < 2; order++ {
		os.RemoveAll(dir)
		base := filepath.Join(dir, "base")
		must(os.MkdirAll(base, 0700))
		type ent struct {
			name    string
			content []byte
			isDir   bool
		}
		var ents []ent
		sup, unsup := []byte(rec["sup"]), []byte(rec["unsup"])
		switch seed % 4 { // the flavours of "holds no supported hash": unknown set id, a set id of the other algorithm, garbage, empty
		case 1:
			unsup = []byte(rec["unsup-mismatch"])
		case 2:
			unsup = []byte("not a record at all\n")
		case 3:
			if seed%8 == 3 {
				unsup = []byte(rec["unsup-mismatch2"])
			}
		}
		slot := func(n, s string) {
			switch s {
			case "user-sup":
				ents = append(ents, ent{n + ".user", sup, false})
			case "user-unsup":
				ents = append(ents, ent{n + ".user", unsup, false})
			case "user-empty":
				ents = append(ents, ent{n + ".user", nil, false})
			case "admin-sup":
				ents = append(ents, ent{n + ".admin", sup, false})
			case "admin-unsup":
				ents = append(ents, ent{n + ".admin", unsup, false})
			case "admin-empty":
				ents = append(ents, ent{n + ".admin", nil, false})
			case "both-sup":
				ents = append(ents, ent{n + ".user", sup, false}, ent{n + ".admin", sup, false})
			case "admin-sup+user-unsup":
				ents = append(ents, ent{n + ".admin", sup, false}, ent{n + ".user", unsup, false})
			}
		}
		slot("a", e.Dir.A)
		bname := "b"
		if e.Dir.Names == "dotted-neighbour" {
			bname = "a.b"
		}
		slot(bname, e.Dir.B)
		switch e.Dir.Other {
		case "x.txt", "a.user.bak", "noext", "a.USER":
			ents = append(ents, ent{e.Dir.Other, sup, false})
		}
		switch e.Dir.Sub {
		case "sub":
			ents = append(ents, ent{"sub", nil, true})
		case "d.user-dir":
			ents = append(ents, ent{"d.user", nil, true})
		}
		if e.Dir.Inv != "none" {
			ents = append(ents, ent{strings.Replace(strings.TrimSuffix(e.Dir.Inv, "-sup"), "KELVIN", "\u212a", 1), sup, false})
		}
		if order == 1 {
			for i, j := 0, len(ents)-1; i < j; i, j = i+1, j-1 {
				ents[i], ents[j] = ents[j], ents[i]
			}
		}
		for _, en := range ents {
			p := filepath.Join(base, en.name)
			if en.isDir {
				must(os.Mkdir(p, 0700))
			} else {
				must(os.WriteFile(p, en.content, 0600))
			}
		}
		switch e.Dir.Tmp {
		case "dir-empty":
			must(os.Mkdir(filepath.Join(base, ".tmp"), 0700))
		case "dir-with-file":
			must(os.Mkdir(filepath.Join(base, ".tmp"), 0700))
			must(os.WriteFile(filepath.Join(base, ".tmp", "123"), sup, 0600))
		case "file":
			must(os.WriteFile(filepath.Join(base, ".tmp"), sup, 0600))
		}
		cfg := filepath.Join(dir, "store.yaml")
		must(os.WriteFile(cfg, []byte(concrete.ConfigYAML(base, 1, sets, []uint{1, 2})), 0600))
		d, err := store.NewDirFromConfig(cfg)
		must(err)
		key := fmt.Sprintf("%+v", e.Dir)
		key = key[1 : len(key)-1]
		mu.Lock()
		execs += 4
		mu.Unlock()
		snap := concrete.Snapshot(base)
		guarded("C16", "check:"+key, e, func() {
			err := d.Check()
			if (err == nil) != e.Check {
				prop := "C16"
				if e.Dir.Inv != "none" && err == nil && !e.Check && e.NamesOK {
					prop = "C03" // only an invalid-named file can have satisfied the administrator requirement
				}
				k := key
				if prop == "C03" {
					k = "invalid-named-file-counts-as-admin:" + e.Dir.Inv
				}
				violate(prop, fmt.Sprintf("check=%v:%s", err == nil, k), fmt.Sprintf("order %d: model accept=%v, real err=%v", order, e.Check, err), e)
			}
		})
		guarded("C16", "list:"+key, e, func() {
			l, lerr := d.List()
			lf, _ := d.ListFull()
			if e.NamesOK || lerr == nil {
				_, ga := l["a"]
				_, gb := l[bnameOf(e)]
				if e.NamesOK && (ga != e.ListA || gb != e.ListB) {
					violate("C16", "list:"+key, fmt.Sprintf("model a=%v b=%v, real a=%v b=%v (err %v)", e.ListA, e.ListB, ga, gb, lerr), e)
				}
				for n := range l {
					if n != "a" && n != bnameOf(e) && n != "d" {
						violate("C03", "invalid-name-listed:"+e.Dir.Inv+e.Dir.Other+e.Dir.Sub, fmt.Sprintf("list shows %q", n), e)
					}
				}
			}
			for n, f := range lf {
				if n != "a" && n != bnameOf(e) && n != "d" && f.IsValid {
					violate("C03", "invalid-name-valid-in-list-full:"+n, "", e)
				}
			}
		})
		if len(concrete.DiffSnap(snap, concrete.Snapshot(base))) > 0 {
			violate("C15", "readonly-changed-store:check/list:"+key, "", e)
		}
		guarded("C16", "init:"+key, e, func() {
			err := d.Init("root", "pw")
			if (err == nil && e.Init == "mustnot") || (err != nil && e.Init == "must") {
				violate("C16", fmt.Sprintf("init=%v:%s", err == nil, key), fmt.Sprintf("model %v, real err=%v", e.Init, err), e)
			}
			if err == nil {
				if cerr := d.Check(); cerr != nil {
					violate("C16", "init-gives-invalid-store", cerr.Error(), e)
				}
			} else if diff := concrete.DiffSnap(snap, concrete.Snapshot(base)); len(diff) > 0 && !(len(diff) == 1 && diff[0] == "+.tmp") {
				violate("C16", "refused-init-changed-directory:"+e.Dir.Tmp, fmt.Sprint(diff), e)
			}
		})
	}
}

func main() {
	kind := flag.String("kind", "record", "record | dir")
	in := flag.String("cases", "", "ndjson cases")
	outp := flag.String("out", "", "result json")
	seed := flag.Int64("seed", 1, "seed")
	scratch := flag.String("scratch", "/dev/shm/verif-casereplay", "scratch")
	flag.StringVar(&agentExe, "agent", "", "built whawty-auth binary: the schema's rules for unsupported files also through the command line")
	flag.Parse()
	// VERIF_ARGON_THREADS=n: the argon2id sets use n lanes (run together with GOMAXPROCS < n: the digest is a function of
	// the configured parameters, not of the processors the process happens to have)
	if t, _ := strconv.Atoi(os.Getenv("VERIF_ARGON_THREADS")); t > 0 {
		for id, ps := range sets {
			if ps.Algo == "argon" {
				ps.Threads = uint8(t)
				ps.Memory = uint32(8 * t)
				sets[id] = ps
			}
		}
	}
	start := time.Now()
	f, err := os.Open(*in)
	must(err)
	sc := bufio.NewScanner(f)
	sc.Buffer(make([]byte, 1<<20), 1<<24)
	rng := rand.New(rand.NewSource(*seed))
	supLine, _ := concrete.MakeRecord(sets[1], []byte("pw"), 1500000000, rng)
	ps := sets[1]
	ps.ID = 9
	unsupLine, _ := concrete.MakeRecord(ps, []byte("pw"), 1500000000, rng)
	// a well-formed payload whose algorithm label does not belong to the (configured) parameter set it names
	mm := strings.SplitN(supLine, ":", 2)
	argonLine, _ := concrete.MakeRecord(sets[2], []byte("pw"), 1500000000, rng)
	am := strings.SplitN(argonLine, ":", 3)
	rec := map[string]string{"sup": supLine, "unsup": unsupLine, "unsup-mismatch": "argon2id:" + mm[1],
		"unsup-mismatch2": am[0] + ":" + am[1] + ":1:" + strings.SplitN(am[2], ":", 2)[1]}
	type item struct {
		r *RecEdge
		d *DirEdge
		i int
	}
	ch := make(chan item, 64)
	var wg sync.WaitGroup
	for w := 0; w < 16; w++ {
		wg.Add(1)
		go func(w int) {
			defer wg.Done()
			dir := filepath.Join(*scratch, fmt.Sprintf("w%d", w))
			for it := range ch {
				if it.r != nil {
					runRecord(dir, it.r, *seed*100003+int64(it.i))
				} else {
					runDir(dir, it.d, *seed*100003+int64(it.i), rec)
				}
			}
			os.RemoveAll(dir)
		}(w)
	}
	n := 0
	var samples []json.RawMessage
	for sc.Scan() {
		n++
		if n%1999 == 1 && len(samples) < 4 {
			samples = append(samples, append(json.RawMessage{}, sc.Bytes()...))
		}
		it := item{i: n}
		if *kind == "record" {
			it.r = &RecEdge{}
			must(json.Unmarshal(sc.Bytes(), it.r))
		} else {
			it.d = &DirEdge{}
			must(json.Unmarshal(sc.Bytes(), it.d))
		}
		ch <- it
	}
	close(ch)
	wg.Wait()
	var vs []Violation
	for _, v := range viol {
		vs = append(vs, v)
	}
	sort.Slice(vs, func(i, j int) bool { return vs[i].Key < vs[j].Key })
	_ = bytes.Equal
	res := map[string]interface{}{"cases": n, "executions": execs, "violations": vs, "samples": samples,
		"elapsed_s": time.Since(start).Seconds()}
	b, _ := json.MarshalIndent(res, "", " ")
	must(os.WriteFile(*outp, b, 0644))
	os.RemoveAll(*scratch)
}
