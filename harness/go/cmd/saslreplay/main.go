// saslreplay maps every stream of the SaslCodec model to real byte streams (length homomorphisms
// 0,1,MaxLen,MaxLen+1,... -> 0,1,256,257,...,65535) and compares the real decoder, under dense read
// schedules, and the real encoders with the model's declarative meaning Expected(stream).
package main

import (
	"strings"
	"sync/atomic"
	"runtime"
	"encoding/hex"
	"bufio"
	"bytes"
	"encoding/json"
	"flag"
	"fmt"
	"io"
	"math/rand"
	"os"
	"sort"
	"sync"
	"time"

	"verifharness/saslmap"

	"github.com/whawty/auth/sasl"
)

type Edge = saslmap.Edge

type Violation struct {
	Key    string `json:"key"`
	Detail string `json:"detail"`
	Edge   *Edge  `json:"edge,omitempty"`
}

var (
	mu     sync.Mutex
	viol   = map[string]Violation{}
	decodes int
	maxLen = 2
)

func violate(key, detail string, e *Edge) {
	mu.Lock()
	if _, ok := viol[key]; !ok {
		viol[key] = Violation{key, detail, e}
	}
	mu.Unlock()
}

// schedReader delivers data in the given chunk sizes; 0 = a zero-length read; eofWithData returns
// io.EOF together with the last chunk.
type schedReader struct {
	data        []byte
	chunks      []int
	i           int
	eofWithData bool
}

func (s *schedReader) Read(p []byte) (int, error) {
	if len(s.data) == 0 {
		return 0, io.EOF
	}
	n := len(s.data)
	if s.i < len(s.chunks) {
		n = s.chunks[s.i]
		s.i++
	}
	if n > len(s.data) {
		n = len(s.data)
	}
	if n > len(p) {
		n = len(p)
	}
	copy(p, s.data[:n])
	s.data = s.data[n:]
	if len(s.data) == 0 && s.eofWithData && n > 0 {
		return n, io.EOF
	}
	return n, nil
}

func schedules(n int, rng *rand.Rand, marks []int) [][]int {
	out := [][]int{{n}, nil}
	ones := make([]int, n)
	for i := range ones {
		ones[i] = 1
	}
	if n <= 1200 {
		out = append(out, ones)
	}
	cuts := map[int]bool{}
	for _, m := range marks {
		for d := -2; d <= 2; d++ {
			if m+d > 0 && m+d < n {
				cuts[m+d] = true
			}
		}
	}
	if n <= 40 {
		for c := 1; c < n; c++ {
			cuts[c] = true
		}
	}
	for c := range cuts {
		out = append(out, []int{c, n - c})
		out = append(out, []int{c, 0, 0, n - c})
	}
	for k := 0; k < 4; k++ {
		var ch []int
		left := n
		for left > 0 {
			c := 1 + rng.Intn(1+left)
			if rng.Intn(4) == 0 {
				ch = append(ch, 0)
			}
			if c > left {
				c = left
			}
			ch = append(ch, c)
			left -= c
		}
		out = append(out, ch)
	}
	return out
}

func runRequest(e *Edge, seed int64) {
	rng := rand.New(rand.NewSource(seed))
	for hi, h := range saslmap.Homs(maxLen) {
		r := saslmap.Concretise(e, h, rng, false)
		marks := []int{}
		p := 0
		for _, f := range r.Fields {
			marks = append(marks, p, p+2)
			p += 2 + len(f)
		}
		marks = append(marks, p, p+1, p+2, len(r.Data))
		streams := append([][]byte{r.Data}, r.Extra...)
		for si, data := range streams {
			wantOk := e.ReqOk && si == 0
			for sc, ch := range schedules(len(data), rng, marks) {
				for _, ewd := range []bool{false, true} {
					var req sasl.Request
					var err error
					func() {
						defer func() {
							if x := recover(); x != nil {
								err = fmt.Errorf("panic: %v", x)
								violate("request-decode:panic", fmt.Sprint(x), e)
							}
						}()
						err = req.Decode(&schedReader{data: append([]byte{}, data...), chunks: ch, eofWithData: ewd})
					}()
					mu.Lock()
					decodes++
					mu.Unlock()
					if (err == nil) != wantOk {
						violate(fmt.Sprintf("request-decode:accept=%v:hom%d", err == nil, hi),
							fmt.Sprintf("schedule #%d %v eofWithData=%v: model ok=%v real err=%v (real stream of %d bytes)", sc, short(ch), ewd, wantOk, err, len(data)), e)
						continue
					}
					if err != nil {
						continue
					}
					got := [][]byte{[]byte(req.Login), []byte(req.Password), []byte(req.Service), []byte(req.Realm)}
					for i := range got {
						if !bytes.Equal(got[i], r.Fields[i]) {
							violate("request-decode:field-content", fmt.Sprintf("field %d differs under schedule %v", i, short(ch)), e)
						}
					}
					re, merr := req.Marshal()
					if merr != nil || !bytes.Equal(re, data[:r.Consumed]) {
						violate("request-reencode", fmt.Sprintf("re-encoded request differs from the %d consumed bytes (err %v)", r.Consumed, merr), e)
					}
				}
			}
			var req sasl.Request
			if err := req.Unmarshal(data); (err == nil) != wantOk {
				violate("request-unmarshal", fmt.Sprintf("model ok=%v real err=%v", wantOk, err), e)
			}
		}
		if e.ReqOk { // encoder produces exactly the wire format
			req := sasl.Request{Login: string(r.Fields[0]), Password: string(r.Fields[1]), Service: string(r.Fields[2]), Realm: string(r.Fields[3])}
			var buf bytes.Buffer
			if err := req.Encode(&buf); err != nil || !bytes.Equal(buf.Bytes(), r.Data[:r.Consumed]) {
				violate("request-encode", fmt.Sprintf("encoder output differs from the wire format (err %v)", err), e)
			}
		}
	}
}

func short(ch []int) []int {
	if len(ch) > 12 {
		return append(append([]int{}, ch[:12]...), -1)
	}
	return ch
}

func runResponse(e *Edge, seed int64) {
	rng := rand.New(rand.NewSource(seed))
	for hi, h := range saslmap.Homs(maxLen) {
		r := saslmap.Concretise(e, h, rng, true)
		streams := append([][]byte{r.Data}, r.Extra...)
		for si, data := range streams {
			wantOk := e.RespOk && si == 0
			for _, ch := range schedules(len(data), rng, []int{2, 4, 5, len(data)}) {
				var resp sasl.Response
				err := resp.Decode(&schedReader{data: append([]byte{}, data...), chunks: ch, eofWithData: rng.Intn(2) == 0})
				mu.Lock()
				decodes++
				mu.Unlock()
				if (err == nil) != wantOk {
					violate(fmt.Sprintf("response-decode:accept=%v:hom%d", err == nil, hi), fmt.Sprintf("model ok=%v real err=%v stream %q", wantOk, err, trunc(data)), e)
					continue
				}
				if err == nil {
					if resp.Result != e.RespResult {
						violate("response-decode:result", fmt.Sprintf("model %v real %v for %q", e.RespResult, resp.Result, trunc(data)), e)
					}
					wantMsg := ""
					if len(r.Fields[0]) > 3 {
						wantMsg = string(r.Fields[0][3:])
					}
					if resp.Message != wantMsg {
						violate("response-decode:message", fmt.Sprintf("message differs for %q", trunc(data)), e)
					}
				}
			}
		}
	}
}

func trunc(b []byte) []byte {
	if len(b) > 24 {
		return b[:24]
	}
	return b
}

// slowWriter hands the bytes on only after other goroutines had a chance to run (a slow peer / a busy scheduler).
type slowWriter struct{ buf []byte }

func (w *slowWriter) Write(p []byte) (int, error) {
	runtime.Gosched()
	time.Sleep(time.Duration(len(p)%3) * 50 * time.Microsecond)
	w.buf = append(w.buf, p...)
	return len(p), nil
}

func lp(parts ...string) []byte {
	var out []byte
	for _, p := range parts {
		out = append(out, byte(len(p)>>8), byte(len(p)))
		out = append(out, p...)
	}
	return out
}

// concurrentEncoders: many goroutines encode different messages at the same time into slow writers; each writer must
// receive exactly the wire format of its own message.
func concurrentEncoders() int {
	var wg sync.WaitGroup
	var cnt int64
	for g := 0; g < 32; g++ {
		wg.Add(1)
		go func(g int) {
			defer wg.Done()
			for i := 0; i < 150; i++ {
				login, pw := fmt.Sprintf("user-%02d-%03d-%s", g, i, strings.Repeat("x", (g*7+i)%200)), fmt.Sprintf("pw/%d/%d", g, i)
				req := sasl.Request{Login: login, Password: pw, Service: "imap", Realm: fmt.Sprint(g)}
				w := &slowWriter{}
				if err := req.Encode(w); err != nil || !bytes.Equal(w.buf, lp(login, pw, "imap", fmt.Sprint(g))) {
					violate("request-encode:concurrent", fmt.Sprintf("goroutine %d message %d: the writer received %d bytes that are not the wire format of its own request (err=%v)", g, i, len(w.buf), err), nil)
				}
				msg := fmt.Sprintf("answer for %d/%d %s", g, i, strings.Repeat("y", (g+i)%120))
				resp := sasl.Response{Result: i%2 == 0, Message: msg}
				w2 := &slowWriter{}
				want := "NO " + msg
				if i%2 == 0 {
					want = "OK " + msg
				}
				if err := resp.Encode(w2); err != nil || !bytes.Equal(w2.buf, lp(want)) {
					violate("response-encode:concurrent", fmt.Sprintf("goroutine %d message %d: the writer received bytes that are not the wire format of its own response (err=%v)", g, i, err), nil)
				}
				atomic.AddInt64(&cnt, 2)
			}
		}(g)
	}
	wg.Wait()
	return int(cnt)
}

// failingWriter accepts at most `room` bytes in total (possibly in the middle of a Write) and then fails.
type failingWriter struct {
	room int
	got  []byte
}

func (w *failingWriter) Write(p []byte) (int, error) {
	if len(p) <= w.room {
		w.room -= len(p)
		w.got = append(w.got, p...)
		return len(p), nil
	}
	n := w.room
	w.got = append(w.got, p[:n]...)
	w.room = 0
	return n, io.ErrClosedPipe
}

// encodeAfterFailure: an encode whose writer fails (peer gone: after 0, 1, 2, 3, ... bytes) is followed by encodes into
// healthy writers, from the same and from other goroutines: each of those must receive exactly the wire format of its
// own message - nothing of the message that could not be delivered before.
func encodeAfterFailure() int {
	n := 0
	for _, room := range []int{0, 1, 2, 3, 5, 17, 40} {
		for round := 0; round < 6; round++ {
			fw := &failingWriter{room: room}
			stale := sasl.Response{Result: true, Message: fmt.Sprintf("successfully authenticated %d/%d", room, round)}
			err := (&stale).Encode(fw)
			if err == nil && len(lp("OK "+stale.Message)) > room {
				violate("response-encode:write-error-not-reported", fmt.Sprintf("writer failed after %d bytes, Encode returned nil", room), nil)
			}
			fr := &failingWriter{room: room}
			(&sasl.Request{Login: "victim", Password: "secret-" + fmt.Sprint(round), Service: "smtp", Realm: "r"}).Encode(fr)
			var wg sync.WaitGroup
			for g := 0; g < 4; g++ {
				wg.Add(1)
				go func(g int) {
					defer wg.Done()
					for i := 0; i < 4; i++ {
						var w bytes.Buffer
						msg := fmt.Sprintf("authentication failed %d.%d", g, i)
						if err := (&sasl.Response{Result: false, Message: msg}).Encode(&w); err != nil || !bytes.Equal(w.Bytes(), lp("NO "+msg)) {
							violate("response-encode:after-failed-write", fmt.Sprintf("after a write that failed at byte %d the next response went out as %q (err=%v)", room, trunc(w.Bytes()), err), nil)
						}
						var w2 bytes.Buffer
						login := fmt.Sprintf("u%d.%d", g, i)
						if err := (&sasl.Request{Login: login, Password: "pw", Service: "imap", Realm: ""}).Encode(&w2); err != nil || !bytes.Equal(w2.Bytes(), lp(login, "pw", "imap", "")) {
							violate("request-encode:after-failed-write", fmt.Sprintf("after a write that failed at byte %d the next request went out as %q (err=%v)", room, trunc(w2.Bytes()), err), nil)
						}
					}
				}(g)
			}
			wg.Wait()
			n += 34
		}
	}
	return n
}

// encoderLaws: round trips and limits at the real boundary lengths, arbitrary bytes.
func encoderLaws(seed int64) int {
	rng := rand.New(rand.NewSource(seed))
	n := 0
	lens := []int{0, 1, 2, 255, 256, 257, 1000, 65535, 65536}
	mk := func(l int) string {
		b := make([]byte, l)
		rng.Read(b)
		return string(b)
	}
	for _, a := range lens {
		for _, b := range lens {
			for _, c := range []int{0, 1, 256, 257} {
				for _, d := range []int{0, 256, 257} {
					req := sasl.Request{Login: mk(a), Password: mk(b), Service: mk(c), Realm: mk(d)}
					over := a > 256 || b > 256 || c > 256 || d > 256
					data, err := req.Marshal()
					n++
					if (err != nil) != over {
						violate("request-encode:limit", fmt.Sprintf("field lengths %d/%d/%d/%d: over=%v err=%v", a, b, c, d, over, err), nil)
						continue
					}
					if over {
						continue
					}
					want := []byte{}
					for _, f := range []string{req.Login, req.Password, req.Service, req.Realm} {
						want = append(want, byte(len(f)>>8), byte(len(f)))
						want = append(want, f...)
					}
					if !bytes.Equal(data, want) {
						violate("request-encode:format", fmt.Sprintf("lengths %d/%d/%d/%d", a, b, c, d), nil)
					}
					var back sasl.Request
					err = back.Unmarshal(data)
					if a == 0 || b == 0 {
						if err == nil {
							violate("request-decode:empty-login-or-password-accepted", fmt.Sprintf("lengths %d/%d", a, b), nil)
						}
					} else if err != nil || back != req {
						violate("request-roundtrip", fmt.Sprintf("lengths %d/%d/%d/%d err=%v", a, b, c, d, err), nil)
					}
				}
			}
		}
	}
	// responses of any message length: the encoder either refuses or emits exactly the wire format
	for _, res := range []bool{true, false} {
		for _, l := range []int{254, 255, 256, 1000, 65531, 65532, 65533, 65534, 65535, 65536, 70000} {
			resp := sasl.Response{Result: res, Message: mk(l)}
			data, err := resp.Marshal()
			n++
			if err != nil {
				continue
			}
			var buf bytes.Buffer
			if e2 := resp.Encode(&buf); e2 == nil {
				data = buf.Bytes()
			}
			word := "NO"
			if res {
				word = "OK"
			}
			want := word + " " + resp.Message
			if len(data) < 2 || int(data[0])<<8|int(data[1]) != len(data)-2 || len(want) > 65535 || string(data[2:]) != want {
				violate("response-encode:format-long-message", fmt.Sprintf("message of %d bytes: %d bytes emitted with length prefix %d", l, len(data), int(data[0])<<8|int(data[1])), nil)
			}
		}
	}
	for _, res := range []bool{true, false} {
		for _, l := range []int{0, 1, 2, 100, 252, 253} {
			resp := sasl.Response{Result: res, Message: mk(l)}
			data, err := resp.Marshal()
			n++
			word := "NO"
			if res {
				word = "OK"
			}
			want := word
			if l > 0 {
				want += " " + resp.Message
			}
			wire := append([]byte{byte(len(want) >> 8), byte(len(want))}, want...)
			if err != nil || !bytes.Equal(data, wire) {
				violate("response-encode:format", fmt.Sprintf("result %v message of %d bytes: err %v", res, l, err), nil)
				continue
			}
			var back sasl.Response
			if err := back.Unmarshal(data); err != nil || back != resp {
				violate("response-roundtrip", fmt.Sprintf("result %v message of %d bytes: err=%v", res, l, err), nil)
			}
		}
	}
	return n
}

func main() {
	in := flag.String("edges", "", "ndjson edges")
	outp := flag.String("out", "", "result json")
	seed := flag.Int64("seed", 1, "seed")
	flag.IntVar(&maxLen, "maxlen", 2, "model field limit")
	resp := flag.Bool("resp", false, "response streams")
	corpus := flag.String("corpus", "", "go-fuzz corpus directory (request or response files)")
	encgrid := flag.String("encgrid", "", "JSON list of [login-hex, password-hex]: print the Go encoder's bytes for each (service and realm empty)")
	flag.Parse()
	if *encgrid != "" { // golden bytes for the PAM-module comparison
		raw, err := os.ReadFile(*encgrid)
		if err != nil {
			fmt.Fprintln(os.Stderr, "HARNESS ERROR:", err)
			os.Exit(2)
		}
		var pairs [][2]string
		if err := json.Unmarshal(raw, &pairs); err != nil {
			fmt.Fprintln(os.Stderr, "HARNESS ERROR:", err)
			os.Exit(2)
		}
		res := make([]map[string]string, 0, len(pairs))
		for _, pr := range pairs {
			l, _ := hex.DecodeString(pr[0])
			pw, _ := hex.DecodeString(pr[1])
			req := sasl.Request{Login: string(l), Password: string(pw)}
			data, err := req.Marshal()
			m := map[string]string{"bytes": hex.EncodeToString(data)}
			if err != nil {
				m["err"] = err.Error()
			}
			res = append(res, m)
		}
		b, _ := json.Marshal(res)
		if err := os.WriteFile(*outp, b, 0644); err != nil {
			fmt.Fprintln(os.Stderr, "HARNESS ERROR:", err)
			os.Exit(2)
		}
		return
	}
	saslmap.MaxLen = maxLen
	start := time.Now()
	f, err := os.Open(*in)
	if err != nil {
		fmt.Fprintln(os.Stderr, "HARNESS ERROR:", err)
		os.Exit(2)
	}
	sc := bufio.NewScanner(f)
	sc.Buffer(make([]byte, 1<<20), 1<<24)
	ch := make(chan *Edge, 64)
	var wg sync.WaitGroup
	for w := 0; w < 16; w++ {
		wg.Add(1)
		go func(w int) {
			defer wg.Done()
			i := 0
			for e := range ch {
				i++
				if *resp {
					runResponse(e, *seed*1000003+int64(w*7919+i))
				} else {
					runRequest(e, *seed*1000003+int64(w*7919+i))
				}
			}
		}(w)
	}
	edges := 0
	var samples []Edge
	for sc.Scan() {
		var e Edge
		if err := json.Unmarshal(sc.Bytes(), &e); err != nil {
			fmt.Fprintln(os.Stderr, "HARNESS ERROR:", err)
			os.Exit(2)
		}
		edges++
		if edges%997 == 1 && len(samples) < 4 {
			samples = append(samples, e)
		}
		ee := e
		ch <- &ee
	}
	close(ch)
	wg.Wait()
	laws := 0
	if !*resp {
		laws = encoderLaws(*seed) + concurrentEncoders() + encodeAfterFailure()
	}
	ncorpus := 0
	if *corpus != "" { // the go-fuzz corpus through the same oracle: decode must never panic, and a decoded message re-encodes
		ents, _ := os.ReadDir(*corpus)
		for _, en := range ents {
			data, err := os.ReadFile(*corpus + "/" + en.Name())
			if err != nil {
				continue
			}
			ncorpus++
			func() {
				defer func() {
					if x := recover(); x != nil {
						violate("corpus:panic", fmt.Sprintf("%s: %v", en.Name(), x), nil)
					}
				}()
				if *resp {
					var r sasl.Response
					r.Unmarshal(data) //nolint:errcheck
				} else {
					var r sasl.Request
					if r.Unmarshal(data) == nil {
						re, _ := r.Marshal()
						if !bytes.HasPrefix(data, re) {
							violate("corpus:reencode", en.Name(), nil)
						}
					}
				}
			}()
		}
	}
	var vs []Violation
	for _, v := range viol {
		vs = append(vs, v)
	}
	sort.Slice(vs, func(i, j int) bool { return vs[i].Key < vs[j].Key })
	res := map[string]interface{}{"edges": edges, "decodes": decodes, "encoder_laws": laws, "corpus_files": ncorpus,
		"violations": vs, "samples": samples, "elapsed_s": time.Since(start).Seconds()}
	b, _ := json.MarshalIndent(res, "", " ")
	os.WriteFile(*outp, b, 0644)
}
