// storereplay executes edges (or whole behaviours) of the TLA+ module Store against the real
// store.Dir.  For every edge (pre, op, post, result, effect) printed by TLC it materialises
// `pre` in a fresh sandbox tree, runs the operation through the public API and compares the
// result class and the projection of the directory with the model's prediction.
package main

import (
	"bufio"
	"bytes"
	"encoding/json"
	"flag"
	"fmt"
	"math/rand"
	"os"
	"path/filepath"
	"sort"
	"strings"
	"sync"
	"time"

	"verifharness/concrete"

	"github.com/whawty/auth/store"
)

type FileState struct {
	Ext  string `json:"ext"`
	Kind string `json:"kind"`
	Set  uint   `json:"set"`
	Pw   string `json:"pw"`
	Aux  string `json:"aux"`
}

type ListEntry struct {
	Admin     bool `json:"admin"`
	Supported bool `json:"supported"`
	Set       uint `json:"set"`
}

type Result struct {
	Ok          bool                 `json:"ok"`
	Exists      bool                 `json:"exists"`
	Admin       bool                 `json:"admin"`
	Upgradeable bool                 `json:"upgradeable"`
	List        ListMap `json:"list"`
}

// ListMap tolerates TLC's rendering of a function with empty domain as [].
type ListMap map[string]ListEntry

func (l *ListMap) UnmarshalJSON(b []byte) error {
	*l = ListMap{}
	if len(b) > 0 && b[0] == '[' {
		return nil
	}
	m := map[string]ListEntry{}
	if err := json.Unmarshal(b, &m); err != nil {
		return err
	}
	*l = m
	return nil
}

type Edge struct {
	Op   string               `json:"op"`
	Name string               `json:"name"`
	Pw   string               `json:"pw"`
	Adm  bool                 `json:"adm"`
	Def  uint                 `json:"def"`
	Pre  map[string]FileState `json:"pre"`
	Post map[string]FileState `json:"post"`
	Res  Result               `json:"res"`
	Eff  map[string]string    `json:"eff"`
}

type Violation struct {
	Prop   string `json:"prop"`
	Key    string `json:"key"`
	Detail string `json:"detail"`
	Edge   *Edge  `json:"edge,omitempty"`
	Input  string `json:"input,omitempty"`
}

type Output struct {
	Edges       int            `json:"edges"`
	Executions  int            `json:"executions"`
	Distinct    int            `json:"distinct"`
	PerOp       map[string]int `json:"per_op"`
	Violations  []Violation    `json:"violations"`
	Samples     []interface{}  `json:"samples"`
	Behaviours  int            `json:"behaviours"`
	NearMisses  int            `json:"near_misses"`
	ElapsedSecs float64        `json:"elapsed_s"`
}

const T0 = int64(1500000000)

var (
	sets    = concrete.DefaultSets()
	setIDs  = []uint{1, 2, 3}
	seed    int64
	pws     map[string]string
	mu      sync.Mutex
	out     Output
	seenKey = map[string]bool{}
	lineMu  sync.Mutex
	lines   = map[string]string{}
)

func violate(prop, key, detail string, e *Edge, input string) {
	mu.Lock()
	defer mu.Unlock()
	k := prop + "|" + key
	if seenKey[k] {
		return
	}
	seenKey[k] = true
	out.Violations = append(out.Violations, Violation{prop, key, detail, e, input})
}

// recordLine returns the (cached) valid record line for (set, model password).
func recordLine(set uint, pw string) string {
	k := fmt.Sprintf("%d|%s", set, pw)
	lineMu.Lock()
	defer lineMu.Unlock()
	if l, ok := lines[k]; ok {
		return l
	}
	rng := rand.New(rand.NewSource(seed + int64(len(lines))*104729))
	l, _ := concrete.MakeRecord(sets[set], []byte(pws[pw]), T0, rng)
	lines[k] = l
	return l
}

func unsupLine(kind string, variant int) string {
	switch kind {
	case "unkparam":
		rng := rand.New(rand.NewSource(seed + 5))
		ps := sets[1]
		ps.ID = 9
		l, _ := concrete.MakeRecord(ps, []byte(pws["p1"]), T0, rng)
		return l
	case "fmtmismatch":
		l := recordLine(1, "p1")
		return "argon2id" + strings.TrimPrefix(l, "hmac_sha256_scrypt")
	case "malformed":
		v := []string{
			"", "\n", "hmac_sha256_scrypt:1500000000:1\n", "hmac_sha256_scrypt:xx:1:AAAA:BBBB\n",
			"hmac_sha256_scrypt:1500000000:1:!!!!:BBBB\n", "garbage\n", "hmac_sha256_scrypt:1500000000:1::\n",
			"hmac_sha256_scrypt:1500000000:-1:AAAA:BBBB\n", ":::\n", "\x00\x01\x02",
		}
		return v[variant%len(v)]
	}
	panic("unknown unsupported kind " + kind)
}

func fileBytes(f FileState, variant int) []byte {
	var b []byte
	if f.Kind == "ok" {
		b = []byte(recordLine(f.Set, f.Pw))
	} else {
		b = []byte(unsupLine(f.Kind, variant))
	}
	return append(b, concrete.AuxBytes(f.Aux, seed)...)
}

type sandbox struct {
	root, base, cfg string
	d               *store.Dir // histories: one library object for as long as the configuration stays the same
	dDef            uint
}

func newSandbox(dir string, e *Edge, variant int) *sandbox {
	os.RemoveAll(dir)
	sb := &sandbox{root: filepath.Join(dir, "root")}
	sb.base = filepath.Join(sb.root, "base")
	sib := filepath.Join(sb.root, "sib")
	must(os.MkdirAll(sb.base, 0700))
	must(os.MkdirAll(sib, 0700))
	victim := []byte(recordLine(1, "p1"))
	must(os.WriteFile(filepath.Join(sib, "victim.user"), victim, 0600))
	must(os.WriteFile(filepath.Join(sib, "boss.admin"), victim, 0600))
	must(os.WriteFile(filepath.Join(sb.root, "base.user"), victim, 0600))
	must(os.WriteFile(filepath.Join(sb.root, "base.admin.decoy"), victim, 0600))
	must(os.WriteFile(filepath.Join(sb.root, "u1.user"), victim, 0600))
	must(os.WriteFile(filepath.Join(sb.root, "victim.user"), victim, 0600))
	for u, f := range e.Pre {
		if f.Ext == "none" {
			continue
		}
		must(os.WriteFile(filepath.Join(sb.base, u+"."+f.Ext), fileBytes(f, variant), 0600))
	}
	sb.cfg = filepath.Join(dir, "store.yaml")
	must(os.WriteFile(sb.cfg, []byte(concrete.ConfigYAML(sb.base, e.Def, sets, setIDs)), 0600))
	return sb
}

func must(err error) {
	if err != nil {
		fmt.Fprintln(os.Stderr, "HARNESS ERROR:", err)
		os.Exit(2)
	}
}

func algoOf(set uint) string { return sets[set].Algo }

// classOf returns the invalid-name class or "" for a valid model user.
func isUser(e *Edge, n string) bool { _, ok := e.Pre[n]; return ok }

// runEdge executes one edge for one concrete name instance; returns number of executions.
func runEdge(dir string, e *Edge, name string, badClass string, variant int) {
	runEdgeIn(newSandbox(dir, e, variant), e, name, badClass, variant, false)
}

// recordTime returns the time stamp of the record currently stored for user u (0 if none / unparsable).
func recordTime(sb *sandbox, u string) int64 {
	for _, ext := range []string{".user", ".admin"} {
		if b, err := os.ReadFile(filepath.Join(sb.base, u+ext)); err == nil {
			line, _ := concrete.SplitFile(b)
			if r, err := concrete.ParseLine(line); err == nil {
				return r.Time
			}
		}
	}
	return 0
}

// runEdgeIn executes the edge in an existing sandbox.  carry = the directory is the result of the previous
// steps of a history (nothing is materialised; time stamps and contents are whatever the real code wrote).
func runEdgeIn(sb *sandbox, e *Edge, name string, badClass string, variant int, carry bool) {
	want0 := map[string]int64{}
	oldBytes := map[string][]byte{}
	for u, f := range e.Pre {
		want0[u] = T0
		if carry {
			want0[u] = recordTime(sb, u)
			if f.Ext != "none" {
				oldBytes[u], _ = os.ReadFile(filepath.Join(sb.base, u+"."+f.Ext))
			}
		} else if f.Ext != "none" {
			oldBytes[u] = fileBytes(f, variant)
		}
	}
	if carry { // the configured default may change between the steps of a history
		must(os.WriteFile(sb.cfg, []byte(concrete.ConfigYAML(sb.base, e.Def, sets, setIDs)), 0600))
	}
	// a long-lived user of the library (the agent) keeps ONE Dir object: within a history it is only re-created
	// when the configuration changes, so whatever an implementation remembers inside it is carried along
	var d *store.Dir
	var err error
	if carry && sb.d != nil && sb.dDef == e.Def {
		d = sb.d
	} else {
		d, err = store.NewDirFromConfig(sb.cfg)
		must(err)
		if carry {
			sb.d, sb.dDef = d, e.Def
		}
	}
	if !carry { // single edges: the object has been used with every valid spelling before (read-only calls)
		users := []string{}
		for u := range e.Pre {
			users = append(users, u)
		}
		sort.Strings(users)
		for _, u := range users {
			func() {
				defer func() { recover() }()
				d.Exists(u)
				if badClass != "" {
					if f := e.Pre[u]; f.Kind == "ok" {
						d.Authenticate(u, pws[f.Pw])
					}
				}
			}()
		}
	}
	before := concrete.Snapshot(sb.root)
	pw := pws[e.Pw]
	tag := e.Op
	if badClass != "" {
		tag += ":" + badClass
	}
	t0 := time.Now().Unix()
	var opErr error
	var gotOk, gotAdmin, gotUpg, gotExists bool
	var gotChanged time.Time
	var gotList store.UserList
	var gotFull store.UserListFull
	func() {
		defer func() {
			if r := recover(); r != nil {
				violate(propFor(e, badClass, "crash"), tag+":panic", fmt.Sprint(r), e, name)
			}
		}()
		switch e.Op {
		case "add":
			opErr = d.AddUser(name, pw, e.Adm)
		case "update":
			opErr = d.UpdateUser(name, pw)
		case "setadmin":
			opErr = d.SetAdmin(name, e.Adm)
		case "remove":
			d.RemoveUser(name)
		case "init":
			opErr = d.Init(name, pw)
		case "exists":
			gotExists, gotAdmin, opErr = d.Exists(name)
		case "auth":
			gotOk, gotAdmin, gotUpg, gotChanged, opErr = d.Authenticate(name, pw)
		case "list":
			gotList, opErr = d.List()
		case "listfull":
			gotFull, opErr = d.ListFull()
		case "check":
			opErr = d.Check()
		default:
			must(fmt.Errorf("unknown op %s", e.Op))
		}
	}()
	t1 := time.Now().Unix()
	after := concrete.Snapshot(sb.root)

	// ---- result class
	switch e.Op {
	case "add", "update", "setadmin", "init":
		if (opErr == nil) != e.Res.Ok {
			violate(propFor(e, badClass, "result"), tag+":result", fmt.Sprintf("model ok=%v, real err=%v", e.Res.Ok, opErr), e, name)
		}
	case "exists":
		if badClass != "" {
			if gotExists {
				violate("C03", tag+":exists", "invalid name reported as existing", e, name)
			}
		} else if opErr != nil || gotExists != e.Res.Exists || (gotExists && gotAdmin != e.Res.Admin) {
			violate("C01", tag+":result", fmt.Sprintf("model exists=%v admin=%v, real exists=%v admin=%v err=%v", e.Res.Exists, e.Res.Admin, gotExists, gotAdmin, opErr), e, name)
		}
	case "auth":
		if gotOk != e.Res.Ok {
			violate(propFor(e, badClass, "verdict"), tag+":verdict", fmt.Sprintf("model ok=%v, real ok=%v err=%v", e.Res.Ok, gotOk, opErr), e, name)
		} else if gotOk {
			if opErr != nil {
				violate("C01", tag+":ok-with-error", fmt.Sprint(opErr), e, name)
			}
			if gotAdmin != e.Res.Admin {
				violate("C01", tag+":adminflag", fmt.Sprintf("model %v real %v", e.Res.Admin, gotAdmin), e, name)
			}
			if gotUpg != e.Res.Upgradeable {
				violate("C12", tag+":upgradeable", fmt.Sprintf("model %v real %v (set %d default %d)", e.Res.Upgradeable, gotUpg, e.Pre[e.Name].Set, e.Def), e, name)
			}
			if gotChanged.Unix() != want0[e.Name] {
				violate("C01", tag+":lastchange", fmt.Sprintf("real %d want %d", gotChanged.Unix(), want0[e.Name]), e, name)
			}
		}
	case "list":
		if opErr != nil {
			violate("C01", tag+":error", fmt.Sprint(opErr), e, name)
		}
		got := map[string]ListEntry{}
		for u, v := range gotList {
			got[u] = ListEntry{Admin: v.IsAdmin}
			if v.LastChanged.Unix() != want0[u] {
				violate("C01", tag+":lastchange", fmt.Sprintf("%s: real %d want %d", u, v.LastChanged.Unix(), want0[u]), e, name)
			}
		}
		want := map[string]ListEntry{}
		for u, v := range e.Res.List {
			want[u] = ListEntry{Admin: v.Admin}
		}
		if fmt.Sprint(got) != fmt.Sprint(want) {
			p := "C01"
			for u := range got {
				if e.Pre[u].Kind != "ok" {
					p = "C02"
				}
			}
			violate(p, tag+":content", fmt.Sprintf("model %v real %v", want, got), e, name)
		}
	case "listfull":
		if opErr != nil {
			violate("C02", tag+":error", fmt.Sprint(opErr), e, name)
		}
		got := map[string]ListEntry{}
		for u, v := range gotFull {
			le := ListEntry{Admin: v.IsAdmin, Supported: v.IsSupported}
			if v.IsSupported {
				le.Set = v.ParamID
			}
			if !v.IsValid {
				violate("C02", tag+":valid", u+" reported invalid", e, name)
			}
			got[u] = le
		}
		if fmt.Sprint(got) != fmt.Sprint(map[string]ListEntry(e.Res.List)) {
			violate("C02", tag+":content", fmt.Sprintf("model %v real %v", e.Res.List, got), e, name)
		}
	case "check":
		if (opErr == nil) != e.Res.Ok {
			violate("C16", tag+":result", fmt.Sprintf("model ok=%v real err=%v", e.Res.Ok, opErr), e, name)
		}
	}

	// ---- effects on the tree
	diff := concrete.DiffSnap(before, after)
	expectChanged := map[string]bool{}
	for u, eff := range e.Eff {
		pre, post := e.Pre[u], e.Post[u]
		switch eff {
		case "same":
		case "moved":
			expectChanged["-base/"+u+"."+pre.Ext] = true
			expectChanged["+base/"+u+"."+post.Ext] = true
			if after["base/"+u+"."+post.Ext] != before["base/"+u+"."+pre.Ext] {
				violate("C15", tag+":moved-content", "set-admin changed the record bytes", e, name)
			}
		case "removed":
			expectChanged["-base/"+u+"."+pre.Ext] = true
		case "created":
			expectChanged["+base/"+u+"."+post.Ext] = true
			checkWritten(sb, e, tag, u, nil, t0, t1, name)
		case "rewritten":
			expectChanged["~base/"+u+"."+post.Ext] = true
			checkWritten(sb, e, tag, u, oldBytes[u], t0, t1, name)
		}
	}
	for _, dpath := range diff {
		if expectChanged[dpath] {
			delete(expectChanged, dpath)
			continue
		}
		if dpath == "+base/.tmp" { // the work area may be created, but must be empty
			continue
		}
		prop, key := "C15", tag+":unexpected-change"
		switch {
		case strings.HasPrefix(dpath[1:], "base/.tmp/"):
			prop, key = "C16", tag+":tmp-residue"
		case !strings.HasPrefix(dpath[1:], "base/"):
			prop, key = "C03", tag+":outside-base"
		case badClass != "":
			prop, key = "C03", tag+":effect"
		case !e.Res.Ok && (e.Op == "add" || e.Op == "update" || e.Op == "setadmin" || e.Op == "init"):
			key = tag + ":failure-changed-store"
			if isUser(e, e.Name) && e.Pre[e.Name].Ext != "none" && e.Pre[e.Name].Kind != "ok" {
				prop = "C02"
			}
		case e.Op == "auth" || e.Op == "exists" || e.Op == "list" || e.Op == "listfull" || e.Op == "check":
			key = tag + ":readonly-changed-store"
		}
		violate(prop, key, "unexpected change "+dpath, e, name)
	}
	for dpath := range expectChanged {
		prop := "C01"
		if e.Op == "remove" && e.Pre[e.Name].Kind != "ok" {
			prop = "C02"
		}
		violate(prop, tag+":missing-effect", "expected change did not happen: "+dpath, e, name)
	}
	if fi, err := os.Stat(filepath.Join(sb.base, ".tmp")); err == nil {
		if !fi.IsDir() {
			violate("C16", tag+":tmp-not-dir", ".tmp is not a directory", e, name)
		}
	}
	mu.Lock()
	out.Executions++
	mu.Unlock()
}

// checkWritten verifies a record written by add/update against the schema: C14 / C12 / C15.
func checkWritten(sb *sandbox, e *Edge, tag, u string, old []byte, t0, t1 int64, name string) {
	post := e.Post[u]
	b, err := os.ReadFile(filepath.Join(sb.base, u+"."+post.Ext))
	if err != nil {
		return // reported as missing effect
	}
	line, rest := concrete.SplitFile(b)
	rec, err := concrete.ParseLine(line)
	if err != nil {
		violate("C14", tag+":shape", fmt.Sprintf("written line %q: %v", line, err), e, name)
		return
	}
	if rec.Param != e.Def {
		violate("C12", tag+":written-set", fmt.Sprintf("written set %d, default %d", rec.Param, e.Def), e, name)
		violate("C14", tag+":written-set", fmt.Sprintf("written set %d, default %d", rec.Param, e.Def), e, name)
		return
	}
	ps := sets[rec.Param]
	if rec.Format != ps.FormatID() {
		violate("C14", tag+":format", rec.Format, e, name)
	}
	if rec.Time < t0 || rec.Time > t1 {
		violate("C14", tag+":time", fmt.Sprintf("%d not in [%d,%d]", rec.Time, t0, t1), e, name)
	}
	if len(rec.Salt) != ps.SaltLen() {
		violate("C14", tag+":saltlen", fmt.Sprint(len(rec.Salt)), e, name)
	}
	if old != nil {
		oline, _ := concrete.SplitFile(old)
		if orec, err := concrete.ParseLine(oline); err == nil && bytes.Equal(orec.Salt, rec.Salt) {
			violate("C14", tag+":salt-reused", "salt equals the previous record's salt", e, name)
		}
	}
	if !bytes.Equal(rec.Digest, ps.Digest([]byte(pws[e.Pw]), rec.Salt)) {
		violate("C14", tag+":digest", "digest differs from the independent recomputation", e, name)
	}
	var oldRest []byte
	if old != nil {
		_, oldRest = concrete.SplitFile(old)
	}
	if !bytes.Equal(rest, oldRest) {
		violate("C15", tag+":aux", fmt.Sprintf("aux data not preserved (%d -> %d bytes)", len(oldRest), len(rest)), e, name)
	}
	if fi, err := os.Stat(filepath.Join(sb.base, u+"."+post.Ext)); err == nil && fi.Mode().Perm()&0077 != 0 {
		violate("C14", tag+":mode", fmt.Sprintf("hash file mode %o", fi.Mode().Perm()), e, name)
	}
}

func propFor(e *Edge, badClass, what string) string {
	if badClass != "" {
		return "C03"
	}
	if isUser(e, e.Name) && e.Pre[e.Name].Ext != "none" && e.Pre[e.Name].Kind != "ok" {
		return "C02"
	}
	return "C01"
}

// nearMiss runs every near-miss password of the stored one against a one-user store.
func nearMiss(dir string, e *Edge) {
	f := e.Pre[e.Name]
	sb := newSandbox(dir, e, 0)
	d, err := store.NewDirFromConfig(sb.cfg)
	must(err)
	others := []string{}
	for _, v := range pws {
		others = append(others, v)
	}
	before := concrete.Snapshot(sb.root)
	n := 0
	for _, pw := range concrete.NearMisses(pws[f.Pw], algoOf(f.Set), others) {
		if pw == pws[f.Pw] {
			continue
		}
		// never feed a password that the model declares key-equal
		ok, _, _, _, _ := d.Authenticate(e.Name, pw)
		n++
		if ok {
			violate("C01", "auth:near-miss-accepted", fmt.Sprintf("stored %q accepted %q under %s", pws[f.Pw], pw, algoOf(f.Set)), e, pw)
		}
	}
	if diff := concrete.DiffSnap(before, concrete.Snapshot(sb.root)); len(diff) > 0 {
		violate("C15", "auth:readonly-changed-store", strings.Join(diff, ","), e, "")
	}
	mu.Lock()
	out.NearMisses += n
	out.Executions += n
	mu.Unlock()
}

func worker(id int, scratch string, ch <-chan *Edge, wg *sync.WaitGroup) {
	defer wg.Done()
	dir := filepath.Join(scratch, fmt.Sprintf("w%d", id))
	n := 0
	for e := range ch {
		n++
		if isUser(e, e.Name) || e.Name == "" {
			variants := 1
			for _, f := range e.Pre {
				if f.Kind == "malformed" {
					variants = 3
				}
			}
			for v := 0; v < variants; v++ {
				runEdge(dir, e, e.Name, "", v+n)
			}
			// dense near-miss sweep on single-user auth edges with a wrong model password
			if e.Op == "auth" && !e.Res.Ok && e.Pre[e.Name].Kind == "ok" {
				alone := true
				for u, f := range e.Pre {
					if u != e.Name && f.Ext != "none" {
						alone = false
					}
				}
				if alone && e.Pre[e.Name].Aux == "none" && e.Pre[e.Name].Ext == "user" {
					nearMiss(dir, e)
				}
			}
		} else {
			for _, inst := range concrete.BadNames(e.Name, filepath.Join(dir, "root")) {
				runEdge(dir, e, inst, e.Name, n)
			}
		}
	}
	os.RemoveAll(dir)
}

// lengthSweep: passwords of boundary lengths (arbitrary bytes) are stored through the real API and
// must authenticate, while every truncation / extension / single-byte change of them must not.
func lengthSweep(scratch string) {
	lengths := []int{0, 1, 2, 31, 32, 33, 55, 56, 63, 64, 65, 71, 72, 73, 127, 128, 129, 255, 256, 257, 511, 512, 513,
		1023, 1024, 1025, 2047, 2048, 2049, 4095, 4096, 4097, 8192, 16385, 65535, 65536, 65537, 200000}
	rng := rand.New(rand.NewSource(seed*13 + 5))
	for _, def := range []uint{1, 2} {
		e := &Edge{Op: "auth", Def: def, Pre: map[string]FileState{}, Post: map[string]FileState{}}
		sb := newSandbox(filepath.Join(scratch, fmt.Sprintf("len%d", def)), e, 0)
		d, err := store.NewDirFromConfig(sb.cfg)
		must(err)
		algo := algoOf(def)
		stored := make([]*string, len(lengths))
		for i, L := range lengths {
			pw := make([]byte, L)
			rng.Read(pw)
			if L > 0 && pw[L-1] == 0 {
				pw[L-1] = 1 // trailing NULs are the documented scrypt equivalence, keep them out
			}
			p := string(pw)
			user := fmt.Sprintf("len%d", i)
			if err := d.AddUser(user, p, false); err != nil {
				violate("C01", fmt.Sprintf("length-sweep:%s:add:L=%d", algo, L), err.Error(), nil, "")
				continue
			}
			stored[i] = &p
			ok, _, _, _, _ := d.Authenticate(user, p)
			if !ok {
				violate("C01", fmt.Sprintf("length-sweep:%s:own-password-rejected", algo), fmt.Sprintf("L=%d", L), nil, "")
			}
			probes := map[string]string{"ext1": p + "x", "extNUL+": p + "\x00x"}
			if L > 0 {
				probes["trunc1"] = p[:L-1]
				fl := []byte(p)
				fl[L-1] ^= 0x40
				probes["fliplast"] = string(fl)
				ff := []byte(p)
				ff[0] ^= 0x01
				probes["flipfirst"] = string(ff)
				fm := []byte(p)
				fm[L/2] ^= 0x80
				probes["flipmid"] = string(fm)
			}
			for _, cut := range []int{8, 16, 32, 55, 56, 64, 72, 128, 255, 256, 512, 1000, 1024, 2048, 4096, 8192, 65535, 65536} {
				if cut < L {
					probes[fmt.Sprintf("trunc@%d", cut)] = p[:cut]
				}
			}
			for kind, q := range probes {
				if q == p || (algo == "scrypt" && concrete.ScryptEquivalent(q, p)) {
					continue
				}
				ok, _, _, _, _ := d.Authenticate(user, q)
				mu.Lock()
				out.NearMisses++
				out.Executions++
				mu.Unlock()
				if ok {
					violate("C01", fmt.Sprintf("length-sweep:%s:near-miss-accepted:%s", algo, kind),
						fmt.Sprintf("stored password of %d bytes, accepted %s (%d bytes)", L, kind, len(q)), nil, "")
				}
			}
		}
		// ... and after passwords of every length have gone through this one object, each user's own password still
		// authenticates (in descending and ascending order of length), on this object and on a fresh one: nothing a
		// hasher has seen earlier may leak into a later computation
		d2, err := store.NewDirFromConfig(sb.cfg)
		must(err)
		for round := 0; round < 2; round++ {
			for k := range stored {
				i := k
				if round == 0 {
					i = len(stored) - 1 - k
				}
				if stored[i] == nil {
					continue
				}
				user := fmt.Sprintf("len%d", i)
				for which, dd := range []*store.Dir{d, d2} {
					ok, _, _, _, _ := dd.Authenticate(user, *stored[i])
					mu.Lock()
					out.Executions++
					mu.Unlock()
					if !ok {
						violate("C01", fmt.Sprintf("length-sweep:%s:own-password-rejected-after-other-lengths", algo),
							fmt.Sprintf("L=%d, object %d (0 = the one that handled every length, 1 = fresh), round %d", len(*stored[i]), which, round), nil, "")
					}
				}
			}
		}
		os.RemoveAll(filepath.Join(scratch, fmt.Sprintf("len%d", def)))
	}
}

// runBehaviour replays one history of the Store model against a single real directory: nothing is
// re-materialised between the steps, so salts, time stamps and aux bytes are carried by the real files.
// userHashReuse: the library hands out UserHash values (store.NewUserHash); a caller may keep one and use it for
// several operations.  Sequences on ONE value, with a write that fails in between (the work area is a regular file for
// a moment): a failure changes nothing, the next operation works, the verdicts follow the last successful write.
func userHashReuse(dir string) {
	for _, adm := range []bool{false, true} {
		for _, def := range setIDs {
			e := Edge{Op: "noop", Def: def, Pre: map[string]FileState{}, Post: map[string]FileState{}}
			sb := newSandbox(filepath.Join(dir, fmt.Sprintf("reuse-%v-%d", adm, def)), &e, 0)
			d, err := store.NewDirFromConfig(sb.cfg)
			must(err)
			uh := store.NewUserHash(d, "alice")
			tag := fmt.Sprintf("userhash-reuse:set%d", def)
			if err := uh.Add(pws["p1"], adm); err != nil {
				violate("C01", tag+":add-refused", err.Error(), nil, "")
				continue
			}
			ext := ".user"
			if adm {
				ext = ".admin"
			}
			file := filepath.Join(sb.base, "alice"+ext)
			before := concrete.Snapshot(sb.root)
			tmp := filepath.Join(sb.base, ".tmp")
			os.RemoveAll(tmp)
			must(os.WriteFile(tmp, []byte("x"), 0600))
			uerr := uh.Update(pws["p2"])
			os.Remove(tmp)
			must(os.MkdirAll(tmp, 0700)) // the work area as it was before
			if uerr == nil {
				violate("C15", tag+":update-succeeded-without-work-area", "", nil, "")
				continue
			}
			if diff := concrete.DiffSnap(before, concrete.Snapshot(sb.root)); len(diff) > 0 {
				violate("C15", tag+":failed-update-changed-store", fmt.Sprintf("Update on the value that had added the user failed (%v) and changed: %v", uerr, diff), nil, "")
				continue
			}
			if ok, _, _, _, _ := uh.Authenticate(pws["p1"]); !ok {
				violate("C01", tag+":verdict-after-failed-update", "the password of the last successful write is refused", nil, "")
			}
			if err := uh.Update(pws["p2"]); err != nil {
				violate("C15", tag+":update-refused-after-failure", err.Error(), nil, "")
				continue
			}
			ok1, _, _, _, _ := uh.Authenticate(pws["p1"])
			ok2, _, _, _, _ := uh.Authenticate(pws["p2"])
			if ok1 || !ok2 {
				violate("C01", tag+":verdict-after-update", fmt.Sprintf("old password %v, new password %v", ok1, ok2), nil, "")
			}
			if err := uh.SetAdmin(!adm); err != nil {
				violate("C15", tag+":setadmin-refused", err.Error(), nil, "")
			}
			if _, err := os.Stat(file); err == nil {
				violate("C16", tag+":two-files-after-setadmin", file+" still exists", nil, "")
			}
			uh.Remove()
			if ex, _, _ := uh.Exists(); ex {
				violate("C01", tag+":exists-after-remove", "", nil, "")
			}
			if err := uh.Add(pws["p3"], adm); err != nil {
				violate("C01", tag+":re-add-refused", err.Error(), nil, "")
			} else if ok, _, _, _, _ := uh.Authenticate(pws["p2"]); ok {
				violate("C01", tag+":old-password-after-re-add", "", nil, "")
			}
			mu.Lock()
			out.Executions += 12
			mu.Unlock()
		}
	}
}

func runBehaviour(dir string, steps []Edge) {
	if len(steps) == 0 {
		return
	}
	first := steps[0]
	empty := Edge{Op: "noop", Def: first.Def, Pre: map[string]FileState{}, Post: map[string]FileState{}}
	for u := range first.Pre {
		empty.Pre[u] = FileState{Ext: "none", Kind: "none", Aux: "none"}
	}
	sb := newSandbox(dir, &empty, 0)
	cur := empty.Pre
	for i := range steps {
		e := &steps[i]
		if e.Op == "external" || e.Op == "reconfigure" { // environment steps: put the file there ourselves
			for u, f := range e.Post {
				if f != cur[u] {
					os.Remove(filepath.Join(sb.base, u+".user"))
					os.Remove(filepath.Join(sb.base, u+".admin"))
					if f.Ext != "none" {
						must(os.WriteFile(filepath.Join(sb.base, u+"."+f.Ext), fileBytes(f, i), 0600))
					}
				}
			}
			cur = e.Post
			continue
		}
		if isUser(e, e.Name) || e.Name == "" {
			runEdgeIn(sb, e, e.Name, "", i, true)
		}
		cur = e.Post
		// the model's state and the real directory must still agree, else later steps would be judged wrongly
		for u, f := range cur {
			_, e1 := os.Stat(filepath.Join(sb.base, u+".user"))
			_, e2 := os.Stat(filepath.Join(sb.base, u+".admin"))
			realExt := "none"
			if e1 == nil {
				realExt = "user"
			}
			if e2 == nil {
				realExt = "admin"
			}
			if realExt != f.Ext {
				return // already reported by runEdgeIn; stop this history here
			}
		}
	}
	mu.Lock()
	out.Behaviours++
	mu.Unlock()
}

func main() {
	behaviours := flag.String("behaviours", "", "ndjson file with one history (array of Store edges) per line")
	sweep := flag.Bool("lengthsweep", false, "also run the password-length boundary sweep")
	edgesFile := flag.String("edges", "", "ndjson file with one Store edge per line")
	scratch := flag.String("scratch", "/dev/shm/verif-storereplay", "scratch directory")
	workers := flag.Int("workers", 16, "parallel workers")
	flag.Int64Var(&seed, "seed", 1, "concretisation seed")
	outFile := flag.String("out", "", "result JSON")
	flag.Parse()
	pws = concrete.Passwords(seed)
	out.PerOp = map[string]int{}
	start := time.Now()

	if *behaviours != "" {
		bf, err := os.Open(*behaviours)
		must(err)
		bsc := bufio.NewScanner(bf)
		bsc.Buffer(make([]byte, 1<<20), 1<<28)
		bch := make(chan []Edge, 16)
		var bwg sync.WaitGroup
		for i := 0; i < *workers; i++ {
			bwg.Add(1)
			go func(i int) {
				defer bwg.Done()
				for b := range bch {
					runBehaviour(filepath.Join(*scratch, fmt.Sprintf("b%d", i)), b)
				}
			}(i)
		}
		for bsc.Scan() {
			var steps []Edge
			must(json.Unmarshal(bsc.Bytes(), &steps))
			out.Edges += len(steps)
			bch <- steps
		}
		close(bch)
		bwg.Wait()
		userHashReuse(filepath.Join(*scratch, "reuse"))
	}
	if *edgesFile == "" {
		*edgesFile = "/dev/null"
	}
	f, err := os.Open(*edgesFile)
	must(err)
	defer f.Close()
	sc := bufio.NewScanner(f)
	sc.Buffer(make([]byte, 1<<20), 1<<26)
	ch := make(chan *Edge, 256)
	var wg sync.WaitGroup
	for i := 0; i < *workers; i++ {
		wg.Add(1)
		go worker(i, *scratch, ch, &wg)
	}
	distinct := map[string]bool{}
	for sc.Scan() {
		var e Edge
		if err := json.Unmarshal(sc.Bytes(), &e); err != nil {
			must(fmt.Errorf("bad edge line: %v", err))
		}
		out.Edges++
		out.PerOp[e.Op]++
		distinct[sc.Text()] = true
		if len(out.Samples) < 3 || (out.Edges%9973 == 0 && len(out.Samples) < 8) {
			out.Samples = append(out.Samples, e)
		}
		ee := e
		ch <- &ee
	}
	close(ch)
	wg.Wait()
	if *sweep {
		lengthSweep(*scratch)
	}
	out.Distinct = len(distinct)
	out.ElapsedSecs = time.Since(start).Seconds()
	sort.Slice(out.Violations, func(i, j int) bool { return out.Violations[i].Key < out.Violations[j].Key })
	b, _ := json.MarshalIndent(out, "", " ")
	if *outFile != "" {
		must(os.WriteFile(*outFile, b, 0644))
	} else {
		os.Stdout.Write(b)
	}
}
