// pidir prints the projection pi of a store directory as JSON: for every entry its name, a
// content class and, for parsable records, which of the given passwords the digest belongs to
// (recomputed independently of the repository's hashers).
package main

import (
	"bytes"
	"crypto/sha256"
	"encoding/json"
	"flag"
	"fmt"
	"os"
	"path/filepath"
	"sort"

	"verifharness/concrete"
)

type entry struct {
	Name   string `json:"name"`
	Kind   string `json:"kind"` // file | dir | other
	Size   int    `json:"size"`
	Sha    string `json:"sha"`
	Parsed bool   `json:"parsed"`
	Format string `json:"format"`
	Time   int64  `json:"time"`
	Param  uint   `json:"param"`
	Salt   string `json:"salt"`
	SaltN  int    `json:"saltlen"`
	Pw     string `json:"pw"`     // tag of the password whose digest matches, "" if none
	AuxSha string `json:"auxsha"` // hash of everything after the first line
	AuxLen int    `json:"auxlen"`
	Mode   string `json:"mode"`
}

func main() {
	dir := flag.String("dir", "", "directory")
	pwjson := flag.String("pws", "{}", "JSON map tag -> password (or @file)")
	flag.Parse()
	pws := map[string]string{}
	src := []byte(*pwjson)
	if len(src) > 0 && src[0] == '@' {
		b, err := os.ReadFile(string(src[1:]))
		if err != nil {
			fmt.Fprintln(os.Stderr, err)
			os.Exit(2)
		}
		src = b
	}
	if err := json.Unmarshal(src, &pws); err != nil {
		fmt.Fprintln(os.Stderr, err)
		os.Exit(2)
	}
	sets := concrete.DefaultSets()
	var out []entry
	var walk func(rel string)
	walk = func(rel string) {
		ents, _ := os.ReadDir(filepath.Join(*dir, rel))
		for _, e := range ents {
			name := filepath.Join(rel, e.Name())
			info, err := os.Lstat(filepath.Join(*dir, name))
			if err != nil {
				continue
			}
			en := entry{Name: name, Mode: fmt.Sprintf("%o", info.Mode().Perm())}
			switch {
			case info.IsDir():
				en.Kind = "dir"
				out = append(out, en)
				walk(name)
				continue
			case info.Mode().IsRegular():
				en.Kind = "file"
			default:
				en.Kind = "other"
				out = append(out, en)
				continue
			}
			b, _ := os.ReadFile(filepath.Join(*dir, name))
			en.Size = len(b)
			h := sha256.Sum256(b)
			en.Sha = fmt.Sprintf("%x", h[:12])
			line, rest := concrete.SplitFile(b)
			ah := sha256.Sum256(rest)
			en.AuxSha, en.AuxLen = fmt.Sprintf("%x", ah[:12]), len(rest)
			if rec, err := concrete.ParseLine(line); err == nil {
				en.Parsed, en.Format, en.Time, en.Param = true, rec.Format, rec.Time, rec.Param
				en.Salt, en.SaltN = fmt.Sprintf("%x", rec.Salt), len(rec.Salt)
				if ps, ok := sets[rec.Param]; ok && ps.FormatID() == rec.Format {
					tags := []string{}
					for t := range pws {
						tags = append(tags, t)
					}
					sort.Strings(tags)
					for _, t := range tags {
						if bytes.Equal(ps.Digest([]byte(pws[t]), rec.Salt), rec.Digest) {
							en.Pw = t
							break
						}
					}
				}
			}
			out = append(out, en)
		}
	}
	walk("")
	b, _ := json.Marshal(out)
	fmt.Println(string(b))
}
