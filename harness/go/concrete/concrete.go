// Package concrete maps values of the TLA+ models (passwords, parameter sets, auxiliary data,
// file states, invalid-name classes) to real bytes, and projects real store directories back
// to model values.  Digests are recomputed here with x/crypto only (never through the
// repository's hashers), so the package is an independent implementation of doc/SCHEMA.md.
package concrete

import (
	"bytes"
	"crypto/hmac"
	"crypto/sha256"
	"encoding/base64"
	"fmt"
	"math/rand"
	"os"
	"path/filepath"
	"sort"
	"strconv"
	"strings"

	"golang.org/x/crypto/argon2"
	"golang.org/x/crypto/scrypt"
)

// ParamSet is one parameter set as it is written into the store configuration.
type ParamSet struct {
	ID      uint
	Algo    string // "scrypt" | "argon"
	Cost    uint
	R, P    int // 0 = omitted in YAML (defaults 8 / 1)
	HmacKey []byte
	Time    uint32
	Memory  uint32
	Threads uint8
	Length  uint32
}

func (p ParamSet) FormatID() string {
	if p.Algo == "scrypt" {
		return "hmac_sha256_scrypt"
	}
	return "argon2id"
}

func (p ParamSet) SaltLen() int {
	if p.Algo == "scrypt" {
		return 32
	}
	return 16
}

// Digest is the schema's function, recomputed independently.
func (p ParamSet) Digest(pw, salt []byte) []byte {
	if p.Algo == "scrypt" {
		r, pp := p.R, p.P
		if r <= 0 {
			r = 8
		}
		if pp <= 0 {
			pp = 1
		}
		k, err := scrypt.Key(pw, salt, 1<<p.Cost, r, pp, 32)
		if err != nil {
			panic(err)
		}
		m := hmac.New(sha256.New, p.HmacKey)
		m.Write(k)
		return m.Sum(nil)
	}
	return argon2.IDKey(pw, salt, p.Time, p.Memory, p.Threads, p.Length)
}

func (p ParamSet) YAML() string {
	var b strings.Builder
	fmt.Fprintf(&b, "  - id: %d\n", p.ID)
	if p.Algo == "scrypt" {
		fmt.Fprintf(&b, "    scryptauth:\n      hmackey: %s\n      cost: %d\n", base64.StdEncoding.EncodeToString(p.HmacKey), p.Cost)
		if p.R > 0 {
			fmt.Fprintf(&b, "      r: %d\n", p.R)
		}
		if p.P > 0 {
			fmt.Fprintf(&b, "      p: %d\n", p.P)
		}
	} else {
		fmt.Fprintf(&b, "    argon2id:\n      time: %d\n      memory: %d\n      threads: %d\n      length: %d\n", p.Time, p.Memory, p.Threads, p.Length)
	}
	return b.String()
}

func key(seed byte) []byte {
	k := make([]byte, 32)
	for i := range k {
		k[i] = seed + byte(i*7)
	}
	return k
}

// DefaultSets are the cheap real parameter sets behind model set ids 1..3.
func DefaultSets() map[uint]ParamSet {
	return map[uint]ParamSet{
		1: {ID: 1, Algo: "scrypt", Cost: 2, HmacKey: key(0x11)},
		2: {ID: 2, Algo: "argon", Time: 1, Memory: 8, Threads: 1, Length: 32},
		3: {ID: 3, Algo: "scrypt", Cost: 1, R: 1, P: 2, HmacKey: key(0x77)},
	}
}

// ConfigYAML renders a store configuration file.
func ConfigYAML(basedir string, def uint, sets map[uint]ParamSet, ids []uint) string {
	var b strings.Builder
	fmt.Fprintf(&b, "basedir: %q\ndefault: %d\nparams:\n", basedir, def)
	for _, id := range ids {
		b.WriteString(sets[id].YAML())
	}
	return b.String()
}

// Record is a parsed first line.
type Record struct {
	Format string
	Time   int64
	Param  uint
	Salt   []byte
	Digest []byte
}

// Line renders a record line (with trailing newline).
func Line(format string, ts int64, param uint, salt, digest []byte) string {
	return fmt.Sprintf("%s:%d:%d:%s:%s\n", format, ts, param,
		base64.URLEncoding.EncodeToString(salt), base64.URLEncoding.EncodeToString(digest))
}

// MakeRecord builds a valid record for pw under set with a deterministic pseudo-random salt.
func MakeRecord(set ParamSet, pw []byte, ts int64, rng *rand.Rand) (line string, salt []byte) {
	salt = make([]byte, set.SaltLen())
	rng.Read(salt)
	return Line(set.FormatID(), ts, set.ID, salt, set.Digest(pw, salt)), salt
}

// ParseLine is the independent strict parser of the schema's first line.
func ParseLine(line string) (Record, error) {
	var r Record
	if !strings.HasSuffix(line, "\n") {
		return r, fmt.Errorf("no newline")
	}
	line = strings.TrimSuffix(line, "\n")
	f := strings.Split(line, ":")
	if len(f) != 5 {
		return r, fmt.Errorf("%d fields", len(f))
	}
	r.Format = f[0]
	t, err := strconv.ParseInt(f[1], 10, 64)
	if err != nil {
		return r, err
	}
	r.Time = t
	p, err := strconv.ParseUint(f[2], 10, 32)
	if err != nil {
		return r, err
	}
	r.Param = uint(p)
	if r.Salt, err = base64.URLEncoding.DecodeString(f[3]); err != nil {
		return r, err
	}
	if r.Digest, err = base64.URLEncoding.DecodeString(f[4]); err != nil {
		return r, err
	}
	return r, nil
}

// SplitFile splits file content into first line (incl. newline if any) and the rest.
func SplitFile(b []byte) (string, []byte) {
	i := bytes.IndexByte(b, '\n')
	if i < 0 {
		return string(b), nil
	}
	return string(b[:i+1]), b[i+1:]
}

// Passwords assigns concrete byte strings to the model passwords p1, p1z, p2, p3 for a seed.
// p1z is key-equivalent to p1 under hmac_sha256_scrypt (trailing NULs / SHA-256 of a >64 byte
// password) and a different password under argon2id.
func Passwords(seed int64) map[string]string {
	rng := rand.New(rand.NewSource(seed*7919 + 17))
	fam := []string{
		"secret", "p", "correct horse battery staple", "pass:word", "line\nbreak", "tab\tsep",
		"sp ace ", "\xff\xfe\x80bin", "ünïcödé", strings.Repeat("a", 63), strings.Repeat("b", 60) + "cdef",
		"UPPERlower", "a:b:c:d", "$2y$10$abc", "nul\x00inside",
	}
	p1 := fam[rng.Intn(len(fam))]
	var p1z string
	switch rng.Intn(4) {
	case 0: // long password vs its SHA-256
		p1 = strings.Repeat("long-", 13) + fmt.Sprint(rng.Intn(1000)) + strings.Repeat("x", rng.Intn(4000))
		s := sha256.Sum256([]byte(p1))
		p1z = string(s[:])
	case 1:
		p1 = ""
		p1z = strings.Repeat("\x00", 1+rng.Intn(3))
	default:
		n := 1 + rng.Intn(3)
		if len(p1)+n > 64 {
			n = 64 - len(p1)
		}
		p1z = p1 + strings.Repeat("\x00", n)
	}
	p2 := fam[rng.Intn(len(fam))] + "2"
	p3 := "third-" + fam[rng.Intn(len(fam))]
	return map[string]string{"p1": p1, "p1z": p1z, "p2": p2, "p3": p3, "": ""}
}

// NearMisses returns passwords that must not authenticate against a record for pw under the
// given algorithm (key-equivalent ones are filtered out for scrypt).
func NearMisses(pw string, algo string, others []string) []string {
	var out []string
	add := func(s string) {
		if s == pw {
			return
		}
		if algo == "scrypt" && scryptEquivalent(s, pw) {
			return
		}
		out = append(out, s)
	}
	for i := 0; i < len(pw); i++ { // every proper prefix = truncation at any length
		add(pw[:i])
	}
	for i := 1; i < len(pw); i++ { // suffixes
		add(pw[i:])
	}
	for _, x := range []string{"x", " ", "\n", "\t", "\r\n", "0", ":", "\x01", "\xff"} {
		add(pw + x)
		add(x + pw)
	}
	add(strings.ToUpper(pw))
	add(strings.ToLower(pw))
	add(strings.TrimSpace(pw))
	add(pw + pw)
	if len(pw) > 0 {
		b := []byte(pw)
		for i := range b {
			c := append([]byte{}, b...)
			c[i] ^= 0x01
			add(string(c))
			c[i] = b[i] ^ 0x20
			add(string(c))
		}
	}
	for _, o := range others {
		add(o)
	}
	add("")
	return out
}

func hmacKeyOf(p string) [64]byte {
	var k [64]byte
	if len(p) > 64 {
		s := sha256.Sum256([]byte(p))
		copy(k[:], s[:])
	} else {
		copy(k[:], p)
	}
	return k
}

func scryptEquivalent(a, b string) bool { return hmacKeyOf(a) == hmacKeyOf(b) }

// ScryptEquivalent reports whether PBKDF2-HMAC-SHA256 (inside scrypt) maps both passwords to one key.
func ScryptEquivalent(a, b string) bool { return scryptEquivalent(a, b) }

// AuxBytes gives concrete auxiliary data for a model aux value.
func AuxBytes(aux string, seed int64) []byte {
	if aux == "none" {
		return nil
	}
	rng := rand.New(rand.NewSource(seed*31 + int64(len(aux))))
	bin := make([]byte, 300)
	rng.Read(bin)
	long := bytes.Repeat([]byte("A"), 70000)
	fam := [][]byte{
		[]byte("totp: AAAA\n"),
		[]byte("totp: AAAA\nu2f: BBBB\n"),
		[]byte("totp: no-trailing-newline"),
		[]byte("totp: AAAA\r\nu2f: BBBB\r\n"),
		append(append([]byte("bin: "), bin...), '\n'),
		append(append([]byte("long: "), long...), '\n'),
		[]byte("\n\n"),
		[]byte("hmac_sha256_scrypt:1:1:AAAA:BBBB\n"),
		bytes.Repeat([]byte("k: v\n"), 4096/5+1),
		bytes.Repeat([]byte("x"), 4095),
		bytes.Repeat([]byte("y"), 4096),
		bytes.Repeat([]byte("z"), 4097),
	}
	return fam[rng.Intn(len(fam))]
}

// Snapshot maps every path below root to a description of its type, mode and content.
func Snapshot(root string) map[string]string {
	m := map[string]string{}
	filepath.Walk(root, func(p string, info os.FileInfo, err error) error {
		if err != nil {
			m[p] = "ERR " + err.Error()
			return nil
		}
		rel, _ := filepath.Rel(root, p)
		switch {
		case info.IsDir():
			m[rel] = "dir"
		case info.Mode()&os.ModeSymlink != 0:
			t, _ := os.Readlink(p)
			m[rel] = "link " + t
		case info.Mode().IsRegular():
			b, _ := os.ReadFile(p)
			h := sha256.Sum256(b)
			m[rel] = fmt.Sprintf("file %o %d %x", info.Mode().Perm(), len(b), h[:8])
		default:
			m[rel] = "special " + info.Mode().String()
		}
		return nil
	})
	return m
}

// DiffSnap lists paths that differ between two snapshots.
func DiffSnap(a, b map[string]string) []string {
	var d []string
	for k, v := range a {
		if w, ok := b[k]; !ok {
			d = append(d, "-"+k)
		} else if w != v {
			d = append(d, "~"+k)
		}
	}
	for k := range b {
		if _, ok := a[k]; !ok {
			d = append(d, "+"+k)
		}
	}
	sort.Strings(d)
	return d
}

// BadNames gives concrete instances for a class of invalid user name.  root is the sandbox
// root (the parent of the base directory "base").
func BadNames(class, root string) []string {
	switch class {
	case "empty":
		return []string{""}
	case "leadDash":
		return []string{"-u1", "-"}
	case "leadDot":
		return []string{".u1", ".hidden", "..u1"}
	case "leadUnderscore":
		return []string{"_u1"}
	case "leadAt":
		return []string{"@u1", "@"}
	case "slash":
		return []string{"a/b", "sub/u1", "/u1"}
	case "dotdotSibling":
		return []string{"../sib/victim", "../sib/./victim", "x/../../sib/victim"}
	case "dotdot":
		return []string{"..", "../base/u1", "../u1", "../base"}
	case "dot":
		return []string{".", "./"}
	case "absolute":
		return []string{filepath.Join(root, "sib", "victim"), filepath.Join(root, "base", "u1")}
	case "aliasU1":
		return []string{"./u1", "x/../u1", ".//u1"}
	case "aliasU1Dot":
		return []string{"u1/", "u1/.", "u1//"}
	case "ctl":
		return []string{"u1\x07", "a\tb", "u1\r", "\x1bu1"}
	case "nul":
		return []string{"u1\x00", "\x00", "u1\x00.user"}
	case "tooLong":
		return []string{strings.Repeat("a", 300), strings.Repeat("a", 251)}
	case "colon":
		return []string{"u:1", ":"}
	case "space":
		return []string{"u 1", " u1", "u1 "}
	case "trailingNewline":
		return []string{"u1\n", "u1\n\n"}
	case "nonAscii":
		// incl. the letters that Unicode case folding maps onto ASCII (KELVIN SIGN -> k, LONG S -> s), look-alikes and
		// combining marks
		return []string{"\xc3\xbc1", "u1\xff", "ué", "mar\u212a", "\u212aarl", "ro\u017fe", "\uff55\uff11", "\u0430dmin", "u1\u0301", "\u0131d", "u\u00a01"}
	}
	panic("unknown bad-name class " + class)
}
