#!/usr/bin/env python3
"""Regenerates MANIFEST.json from the table below (single source of truth for what is claimed)."""
import json, os, subprocess
V = os.path.dirname(os.path.dirname(os.path.abspath(__file__)))
props = [json.loads(l) for l in open(os.path.join(V, "properties.jsonl"))]

# id -> (technique, level text, level note, design ref)
CLAIMED = {
 "C01": ("TLC exhaustive enumeration of the Store module; every printed edge, every 5-step history (exhaustive) and simulated 30-step histories replayed against store.Dir (one long-lived object per history)",
         "TLC checks AuthIffLastPw / ListExistsAgree and the action properties on the bounded Store model and prints every transition; each transition (pre-state, operation, result, post-state) is materialised and executed against the real store.Dir with concretised passwords (incl. every truncation / near-miss of the stored password), so every reachable (state, operation) pair of the bounded model is a test of the code.",
         "Bounded model (2-3 users, 3-4 passwords, 2-3 parameter sets). Projection pi and the independent digest recomputation (x/crypto) are trusted. Passwords beyond a few KiB not exercised.",
         "4/C01"),
 "C03": ("TLC enumeration of invalid-name classes in Store (BadNameInert) + replay in a sandbox tree with sibling store and decoys",
         "TLC enumerates (operation x invalid-name class x store state); every edge is executed for several concrete names per class inside a sandbox tree (sibling store, decoys next to the base directory) whose complete before/after snapshot must be identical and whose result must be a failure/no-op.",
         "Names are class representatives (3-4 concrete strings per class), not all strings. Frontend leg and strace path invariant are separate parts of the check (see DESIGN 4/C03).",
         "4/C03"),
 "C10": ("TLC deadlock + liveness check of the Agent module in every upgrade mode; wrong-variant counterexample replayed on the real dispatcher with gates; trace validation of seeded loads; Listeners.tla (one goroutine per listener, process life cycle) exhaustively, wrong variant fail-fast refuted, its start-up environments replayed on the real binary",
         "TLC proves deadlock freedom and `every call returns` (under weak fairness of dispatcher, hooks consumer, upgrader) for the bounded Agent model in modes off/local/remote, and refutes the blocking self-send variant; that counterexample (update queue full + successful login of an upgradeable user) is converted into a gated scenario and executed on the real dispatcher at the real capacity, a watchdog plus goroutine dump decides wedged-or-not; seeded concurrent loads in all modes are recorded through the verif hooks and validated against TraceAgent.tla.",
         "Bounded model (3 clients, 1-2 calls each, channel capacity 2, 1 user). Liveness on the code is observed as completion within a watchdog, not proved. Go's select choice is not forced.",
         "4/C10"),
 "C11": ("TLC invariants (AckedNotUndone) on Agent + trace validation of the real dispatcher against TraceAgent.tla with the exec.* hook as linearization point",
         "Every recorded run of the real dispatcher (gated replays of TLC-simulated behaviours, the counterexample of the no-recheck variant, seeded concurrent loads over overlapping users) is checked line by line by TLC against TraceAgent.tla: each response must equal the sequential store semantics at its linearization point, acknowledged writes may only be changed by later client writes, and at idle the projected directory must equal the model's store and be valid.",
         "Queues are abstracted to a bag of pending calls in the trace spec (FIFO order per channel is not checked). Frontend-level (socket) histories are covered by C04/C05, not here.",
         "4/C11"),
 "C08": ("TLC over StoreFS (every crash point x power-loss view of the write protocol) + strace-observed system calls of the real store validated against TracePosixFS + real kill-before-each-call runs",
         "TLC checks CrashAtomic over the kill view and every power-loss view in every state of the StoreFS model (and refutes the no-fsync and write-in-place variants); the real store.Dir is run under strace for every operation instance and its mutating system calls are validated by TLC against TracePosixFS (CrashAtomic after every real call); the driver is additionally killed right before each mutating call, the real directory is projected and must equal the model's kill view, and a fresh store instance must show old-until-new, never a third password, unchanged other users and a passing consistency check.",
         "Standard persistence model (file data durable after fsync of the file, directory entries after fsync of the directory, rename atomic); power loss is derived by TLC, not performed. Content classes (old/new/torn) are computed by the harness from the logged byte counts and data. Concurrent readers are covered only through the kill views.",
         "4/C08"),
 "C09": ("TLC AckDurable / NoVisibleBeforeDurable over all power-loss views, on the StoreFS model and on the strace-observed system-call order of the real code",
         "The verdict is the invariant evaluated by TLC on the real order of write / fsync / rename / unlink / directory-fsync calls of every operation instance (generic PosixFS layer), over every subset of not-yet-durable directory operations and every torn version of un-fsynced data; the wrong variants (no dir fsync for add/update, set-admin, remove; the code before the fix) are refuted on the model.",
         "Standard persistence model; .tmp entries are never durable by design and treated as permitted residue.",
         "4/C09"),
 "C15": ("TLC FailureChangesNothing on StoreFS with single-call faults + every Store edge replayed (aux, other users, failures, read-only) + strace fault injection into every system call of every operation",
         "Semantic failures, read-only calls, aux preservation and untouched other users are checked on every edge of the bounded Store model against the real store.Dir with byte-level tree snapshots; I/O failures are checked by failing each system call of each operation instance with ENOSPC/EIO/EACCES/EMFILE under strace and comparing the reported result with a byte-level snapshot; read-only operations are straced and must issue no mutating call.",
         "Single fault per operation. Two known findings (failure reported after the commit rename) are listed in known_findings.json. Agent-level read-only guarantee (SASL/LDAP/refused HTTP) is exercised in C04/C06.",
         "4/C15"),
 "C07": ("TLC enumeration of the Session module (issue / tick / restart / check x candidate kinds); every Check edge concretised against real webSessionFactory objects",
         "TLC enumerates every (state, instance, candidate kind) of the bounded Session model with the verdict and identity the property demands; each edge is concretised in-package against real factories: every single-bit flip of nonce, body and tag, every truncation length, extensions, every single-character text mutation, nonce/ciphertext splices between tokens, other-instance and pre-restart tokens, back-dated and future-dated tokens (sealed with the factory's own AEAD), malformed plaintexts; 200 000 generated tokens are checked for nonce reuse; one real-time expiry is waited for.",
         "AES-GCM treated as ideal AEAD. Time is back-dated with the factory's own sealToken rather than waited for (except one 2 s wait). Bounded model: 2 instances, 2 tokens, 4 time steps.",
         "4/C07"),
 "C12": ("TLC safety + liveness (LoginConverges) on Agent in all modes, Store edges for the upgradeable flag and written parameter set, gated/ungated upgrade scenarios on the real agent with trace validation and byte-level snapshots",
         "The `upgradeable` flag and the parameter set of every written record are checked on every Store edge; the Agent model is checked for UpgradeKeepsPasswordAndAdmin, UpgradeOnlyAfterLogin, NoUpgradeWhenOff and the liveness property LoginConverges; on the real agent, idle-convergence scenarios (record rewritten under the default set, same password, admin flag and aux), wrong-password / up-to-date / upgrades-off / remote-mode scenarios (directory byte-identical), the stale-upgrade counterexample and simulated behaviours are executed and their traces validated against TraceAgent. The two-host deployment (Sync.tla: master, rsync-fed slave, forwarded upgrade requests, configuration roll-out and retirement) is model-checked exhaustively incl. liveness (Converges), its wrong variants are refuted, and generated histories are replayed on two real agents with real rsync runs (directories projected and compared after every step).",
         "Bounded models (Agent: 3 clients; Sync: 2 users, 2 passwords, 2 parameter sets, 3-5 management steps). The master of the Sync replay runs in the same process as the slave; rsync runs between two local directories (no ssh).",
         "4/C12"),
 "C06": ("TLC enumeration of the WebApi authorisation matrix; every (state, request) edge executed against the real handler mux on the real dispatcher",
         "TLC checks EffectOnlyIfAuthorised, RefusedChangesNothing, NoListDisclosure, NeverBothCredentials and InvalidTokenNeverWorks on the WebApi model and prints every edge (endpoint x session credential kind x old-password kind x target x body shape x reachable state); each edge is one HTTP request through newWebHandler and the real dispatcher with real tokens (logins, a demoted administrator's token, expired / future / tampered / other-instance / garbage tokens); status class, disclosed list, issued token identity and a byte-level snapshot (refusals) or projection (effects) of the store are compared with the model.",
         "States within MaxDepth effective changes from the initial store (1 quick, 2 thorough). HTTP framing outside the JSON body is not varied.",
         "4/C06"),
 "C13": ("TLC over SaslCodec: every delivery schedule of every stream of a bounded set against the declarative Expected(stream); every stream replayed on the real codec under dense read schedules via two length homomorphisms",
         "TLC checks ResultIsFunctionOfStream, ReencodeEqualsConsumed, OverLimitRefused for every fragmentation (any chunking, zero-length reads, EOF with or after the last chunk) of every stream in the bounded set (all 4-field messages over a scaled alphabet incl. over-limit and cut fields, every prefix, trailing bytes; all response strings up to 7 bytes) and prints Expected(stream); each stream is mapped to real bytes (lengths 0,1,255,256,257,...,65535; random contents) and Request/Response Decode, Unmarshal, Marshal, Encode are compared with it under single, 1-byte, all 2-way, random, zero-length and EOF-with-data read schedules; encoder limits/round trips at the real boundary lengths.",
         "bufio.Scanner is trusted. Byte fidelity inside fields rests on the concretised replays. PAM encoder equality is checked in C20.",
         "4/C13"),
 "C05": ("TLC over SaslConn (2 connections, all callback outcomes and client endings; wrong no-clip variant refuted) + every connection edge executed as raw unix-socket connections against a real sasl.Server",
         "TLC checks AtMostOneCallback, CallbackOnlyIfDecoded, PositiveOnlyIfApproved, ExactlyOneReplyThenClose, NoCrossTalk, ReplyDecodableByGoClient/Pam and the liveness property Answered; each (stream class, client ending, callback outcome incl. message lengths 0..65600 and errors) edge is executed several times against a real server with streams from the SaslCodec model, random fragmentation, 32 connections in parallel, a recording callback and per-connection tokens; replies are decoded with the bundled Go client and the PAM read rule.",
         "A silent client (neither finishes nor closes) is only required to get no positive answer. Socket reads cannot be forced to given boundaries; fragmentation is by write size and pacing.",
         "4/C05"),
 "C20": ("TLC over PamClient (module as saslauthd client vs arbitrary server scripts; stale-errno variant refuted on termination) + every script replayed against the compiled unmodified pam_whawty.c under ASan/UBSan",
         "TLC checks PamSuccessOnlyOnOK / PamSuccessOnOK and the liveness property PamTerminates for every server script (17 reply shapes incl. over-long and inconsistent lengths x cut at 0..4, need-1, need, need+1, all bytes x delay none/short/long x close/stall x errno on entry) and prints the demanded outcome; each script is played by a scripted unix-socket server against the module compiled unmodified against stub PAM headers with AddressSanitizer and UBSan; PAM return code, wall time, the request bytes received (wire format with 256-byte clipping) and sanitizer reports are compared.",
         "libpam replaced by a small stub; memory safety is decided by the sanitizers during replays, not by TLA+; timeout=1 only.",
         "4/C20"),
 "C02": ("TLC enumeration of the Record case analysis (first-line field classes, three-valued verdicts) replayed as real files through store.Dir, plus every Store edge with unsupported files",
         "TLC enumerates every combination of first-line field classes with at most 2 (thorough: 3) deviations from a canonical record and checks the laws of the case analysis (no authentication without a matching digest, malformed never authenticates); each case is built as real bytes for both algorithms and exercised through authenticate (right, wrong, empty, near-miss passwords), list, list-full, add, exists, update (refused => byte-identical) and remove under a watchdog with panic capture; the schema's rules inside histories are checked on every Store edge.",
         "Byte strings outside the modelled classes are only sampled (binary-junk). Lenient spellings whose meaning satisfies the property's condition may go either way ('may').",
         "4/C02"),
 "C16": ("TLC enumeration of the DirCheck case analysis (29 160 directory contents) replayed against Check/List/ListFull/Init; validity after every Store edge and at every idle point of agent histories; CLI leg on the built binary",
         "Every directory-content case (valid names x {absent, .user/.admin with supported/unsupported/empty hash, both}, other extensions, sub-directories, .tmp absent/dir/file, invalid-named files) is materialised in two creation orders and Check, List, ListFull and Init are compared with the declarative predicate; every Store edge checks `valid stays valid`, one file per user and an empty work area; idle points of concurrent agent histories must pass Check with an empty .tmp; the built binary must exit with status 3 for every command on directories that fail the check and run with --do-check=false.",
         "Directory names are two valid names plus representatives; unreadable directories are not generated (the harness runs as root).",
         "4/C16"),
 "C17": ("TLC NoWriteWithoutPolicy on Agent with a restrictive policy + Policy case analysis replayed through NewPasswordPolicy/NewStore + every write path of the real agent validated against TraceAgent with an independently computed PolicyOK",
         "TLC checks NoWriteWithoutPolicy (incl. the internal hash upgrade) on the Agent model and enumerates the Policy condition-string cases; each case goes through NewPasswordPolicy and NewStore (an unparsable policy must stop the agent) and accepted policies are compared with an independent zxcvbn call on probe passwords; add/update through the in-process interface and the HTTP API, init, local upgrades of weak passwords and seeded loads are run for score/entropy/time conditions and their traces validated against TraceAgent whose PolicyOK constant is computed by the harness itself; the built binary is driven for add/update with passing/failing passwords and unparsable conditions.",
         "zxcvbn-go is trusted (called independently of policy.go). Passwords whose verdict depends on the user name are avoided in scenarios.",
         "4/C17"),
 "C18": ("TLC enumeration of the Config case analysis replayed through NewDirFromConfig with accepted sets used in a child process; reload sequences on a real agent (SIGHUP) validated by TLC against Reload.tla",
         "Every Config case (<= 2 deviations from a good document: YAML shape, basedir, default, parameter list shapes, scrypt/argon2id value classes, unknown keys) is rendered as YAML and the loader's verdict compared (must / may / mustnot); every accepted configuration is used - add + authenticate per set - in a child process where a crash or hang is an outcome; sequences of on-disk configurations (valid, other base/default/sets, unparsable, unknown key, bad default, missing, directory failing the check) with SIGHUP are run on a real agent under continuous requests and the hook-reported outcome, the location/parameter set of subsequent writes and per-set logins are validated line by line against Reload.tla (never a mixture; in-flight requests answered).",
         "Memory-exhausting values (scrypt cost 31, argon2 memory 2^32-1) are not generated. One process per reload sequence (SIGHUP is process-wide).",
         "4/C18"),
 "C19": ("TLC safety + liveness on the Hooks timing model (wrong thresholds and the no-drain variant refuted); real HooksCaller driven through timing scenarios with its loop events validated by TLC against TraceHooks; HookFiles case analysis replayed; agent-side notifications via TraceAgent",
         "TLC checks NoChangeForgotten, AtMostTwoRoundsPerInterval, RoundCarriesCurrentStore and the liveness property EveryChangeCovered on the discrete-time Hooks model (free choice among ready select arms); on the code, a HooksCaller with a 180 ms rate limit and logging hook scripts is driven through 0/1/2/many changes per interval, changes just before/after the timer, reloads, gated new-store/notification races and a hanging hook; the loop's verif events are validated per scenario against TraceHooks (pending counter, leading/trailing rounds, store carried by each round, every change covered at the end), real time between rounds i and i+2 is bounded from below, the scripts' own logs give argument and WHAWTY_AUTH_STORE; every HookFiles case (kind x mode x hidden x directory mode) is materialised; the dispatcher's notifications are validated against TraceAgent.",
         "Event order and lower time bounds only (no wall-clock closeness). The one-minute kill is exercised in the thorough tier.",
         "4/C19"),
 "C04": ("TLC enumeration of the Frontends case analysis (transport x user-name class x password class: name rule and limits); every case submitted to the running agent binary through all five transports against the library's verdict; Listeners.tla start-up environments (TLS listeners, second socket, listeners that cannot start) replayed on the binary",
         "TLC enumerates the credential-transformation rule and the limit class of every (transport, user class, password class); each case is instantiated with real bytes (':' in passwords, JSON escapes and non-BMP code points, '@' names, 0x01-0xff, 255/256/257-byte fields, near misses, padded/case-changed names, leading '-') and submitted to the real `whawty-auth run` process over the saslauthd socket, HTTP basic-auth, the JSON API, an LDAP simple bind (hand-built BER) and the CLI; the expected verdict is store.Dir.Authenticate on the same directory for the name the model prescribes; accept => store accepts always, accept <=> store accepts inside the limits.",
         "systemd socket activation and LDAP StartTLS not exercised. The expected verdict comes from the library (judged by C01/C02).",
         "4/C04"),
 "C14": ("Written.tla trace specification (fresh salt, default set, current time, shape) over events projected from real writes with an independent digest recomputation; every write edge of the Store model",
         "Every add/update/init edge of the Store model checks the written line (five fields, format id and id of the default set, time within the operation, schema salt size, salt different from the previous record's, digest equal to the independent recomputation, aux preserved, file mode); 20 (thorough: 60) generated parameter sets covering scrypt cost/r/p/hmackey with and without r and p and argon2id time/memory/threads/length are loaded from YAML and written through add and update for 9 passwords each; every written record is projected to an event and the trace validated by TLC against Written.tla (no salt ever reused, default set, current time, url-safe padded base64); the directory is scanned for passwords and HMAC keys in five encodings.",
         "Encode fidelity is decided by the independent projection (x/crypto), the TLA+ part is small (freshness, default, time, shape). Salt freshness is judged over one run.",
         "4/C14"),
}

checks = []
for p in props:
    i = p["id"]
    if i not in CLAIMED:
        continue
    tech, text, note, ref = CLAIMED[i]
    checks.append({
        "property_id": i,
        "quick_cmd": "bin/check %s --tier quick" % i,
        "thorough_cmd": "bin/check %s --tier thorough" % i,
        "evidence_file": "/verif/evidence/%s.json" % i,
        "replay_cmd_template": "bin/check %s --replay {path}" % i,
        "engine": "tlc+goreplay",
        "level_claimed": {"category": "model_checking", "text": text, "design_ref": "DESIGN.md section " + ref},
        "level_note": note,
        "technique": tech,
    })

hooks_commits = []
try:
    out = subprocess.run(["git", "-C", "/repo", "log", "--format=%h %s"], stdout=subprocess.PIPE, text=True).stdout
    hooks_commits = [l.split()[0] for l in out.splitlines() if " verif:" in l or l.split(" ", 1)[1].startswith("verif")]
except Exception:
    pass

m = {
 "version": 1,
 "setup_cmd": "bin/setup",
 "hooks": {
  "guard": "verif",
  "enable": "go build/test -tags verif (checks copy /repo's working tree to /dev/shm and build there)",
  "baseline_off_cmd": "cd /repo && GOFLAGS=-mod=mod GOPROXY=off GOSUMDB=off GOTOOLCHAIN=local go test -vet=off -count=1 ./...",
  "source_commits": hooks_commits,
  "add_only": True,
 },
 "engines": [
  {"name": "tlc+goreplay", "path": "bin/check", "serves_properties": [c["property_id"] for c in checks],
   "kind_free_text": "TLA+ specification in spec/, checked by TLC; bound to the code by replaying TLC-generated edges/behaviours into the real code (harness/go, harness/inpkg) and by validating traces recorded from the real code (verif hooks, strace, wire) against Trace*.tla"},
 ],
 "checks": checks,
 "not_applicable": [{"property_id": p["id"], "reason": "check not built yet (work in progress; planned in DESIGN.md section 4)"}
                    for p in props if p["id"] not in CLAIMED],
 "notes": "All checks: exit 0 = held (KNOWN-FINDING lines for entries of known_findings.json), 1 = VIOLATION line, 2 = inconclusive (tool failure/timeout; evidence not rewritten).",
}
json.dump(m, open(os.path.join(V, "MANIFEST.json"), "w"), indent=1)
print("claimed:", [c["property_id"] for c in checks])
