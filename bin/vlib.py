"""Shared machinery of the whawty/auth verification framework.

run_tlc()        TLC under timeout in a scratch copy of /verif/spec, parses counts and printed JSON
snapshot_repo()  copy of /repo's *working tree* (so checks rebuild from whatever is there now)
build_harness()  builds the Go harness module against that copy
Evidence / findings / verdict helpers
"""
import json, os, re, shutil, subprocess, sys, time, hashlib

VERIF = os.path.dirname(os.path.dirname(os.path.abspath(__file__)))
REPO = os.environ.get("VERIF_REPO", "/repo")
SHM = "/dev/shm" if os.path.isdir("/dev/shm") else "/tmp"
JAR = "/opt/veriftools/tla/tla2tools.jar:/opt/veriftools/tla/CommunityModules-deps.jar"
NCPU = os.cpu_count() or 4


def goenv():
    e = dict(os.environ)
    e.update(GOFLAGS="-mod=mod", GOPROXY="off", GOSUMDB="off", GOTOOLCHAIN="local", CGO_ENABLED="0")
    return e


class Ctx:
    """One run of one property's check."""

    def __init__(self, pid, tier, seed):
        self.pid, self.tier, self.seed = pid, tier, seed
        self.t0 = time.time()
        # a run against another tree (VERIF_REPO, seeded changes) must not share its scratch directory with a run on /repo
        self.scratch = os.path.join(SHM, "verif", "%s-%s%s" % (pid, tier, "" if REPO == "/repo" else "-alt%d" % os.getpid()))
        shutil.rmtree(self.scratch, ignore_errors=True)
        os.makedirs(self.scratch)
        self.repo = os.path.join(self.scratch, "repo")
        self.violations = []      # dicts: prop,key,detail,...
        self.notes = []
        self.coverage = {"samples": []}
        self.assumptions = []
        self.inconclusive = []
        self._snap = False

    # ------------------------------------------------------------------ repo / harness
    def snapshot_repo(self):
        if self._snap:
            return self.repo
        subprocess.check_call(["rsync", "-a", "--delete", "--exclude", ".git", REPO + "/", self.repo + "/"])
        self._snap = True
        return self.repo

    def harness_dir(self):
        """Copy of harness/go with go.mod pointing at the repo snapshot."""
        self.snapshot_repo()
        h = os.path.join(self.scratch, "harness")
        if os.path.isdir(h):
            return h
        shutil.copytree(os.path.join(VERIF, "harness", "go"), h)
        mod = open(os.path.join(h, "go.mod.tmpl")).read().replace("@REPO@", self.repo)
        # the harness needs exactly the repository's dependency versions
        req = []
        inreq = False
        for line in open(os.path.join(self.repo, "go.mod")):
            s = line.strip()
            if s.startswith("require ("):
                inreq = True
                continue
            if inreq and s == ")":
                inreq = False
                continue
            if inreq and s:
                req.append("\t" + s.split("//")[0].strip())
        mod += "\nrequire (\n" + "\n".join(req) + "\n)\n"
        open(os.path.join(h, "go.mod"), "w").write(mod)
        shutil.copy(os.path.join(self.repo, "go.sum"), os.path.join(h, "go.sum"))
        return h

    def build(self, pkg, out=None, tags="verif"):
        h = self.harness_dir()
        out = out or os.path.join(self.scratch, "bin", os.path.basename(pkg))
        os.makedirs(os.path.dirname(out), exist_ok=True)
        r = subprocess.run(["go", "build", "-tags", tags, "-o", out, pkg], cwd=h, env=goenv(),
                           stdout=subprocess.PIPE, stderr=subprocess.STDOUT, text=True)
        if r.returncode != 0:
            self.fatal("harness build failed for %s:\n%s" % (pkg, r.stdout))
        return out

    def build_agent(self, tags="verif"):
        """The real whawty-auth binary from the snapshot."""
        self.snapshot_repo()
        out = os.path.join(self.scratch, "bin", "whawty-auth")
        os.makedirs(os.path.dirname(out), exist_ok=True)
        r = subprocess.run(["go", "build", "-tags", tags, "-o", out, "./cmd/whawty-auth"], cwd=self.repo,
                           env=goenv(), stdout=subprocess.PIPE, stderr=subprocess.STDOUT, text=True)
        if r.returncode != 0:
            self.fatal("agent build failed:\n" + r.stdout)
        return out

    def inpkg_test(self, files, run, tags="verif", timeout=900, env=None, pkg="./cmd/whawty-auth", extra=None):
        """Drop harness/inpkg files into the snapshot's package and run `go test -run`."""
        self.snapshot_repo()
        dst = os.path.join(self.repo, pkg)
        for f in sorted(os.listdir(os.path.join(VERIF, "harness", "inpkg"))):   # the in-package drivers share helpers
            if f.endswith(".go") and pkg == "./cmd/whawty-auth":
                shutil.copy(os.path.join(VERIF, "harness", "inpkg", f), os.path.join(dst, "zz_verif_" + f))
        if os.path.isdir(os.path.join(VERIF, "harness", "go", "concrete")):
            cdst = os.path.join(self.repo, "verifconcrete")
            shutil.rmtree(cdst, ignore_errors=True)
            shutil.copytree(os.path.join(VERIF, "harness", "go", "concrete"), cdst)
        e = goenv()
        e.update(env or {})
        cmd = ["go", "test", "-vet=off", "-count=1", "-tags", tags, "-timeout", "%ds" % timeout, "-run", run, pkg]
        if extra:
            cmd += extra
        r = subprocess.run(cmd, cwd=self.repo, env=e, stdout=subprocess.PIPE, stderr=subprocess.STDOUT, text=True)
        return r.returncode, r.stdout

    def inpkg_binary(self, tags="verif"):
        """Compiles the in-package test binary of cmd/whawty-auth once; run it with run_inpkg()."""
        out = os.path.join(self.scratch, "bin", "inpkg.test")
        if os.path.exists(out):
            return out
        self.snapshot_repo()
        dst = os.path.join(self.repo, "cmd", "whawty-auth")
        for f in sorted(os.listdir(os.path.join(VERIF, "harness", "inpkg"))):
            if f.endswith(".go"):
                shutil.copy(os.path.join(VERIF, "harness", "inpkg", f), os.path.join(dst, "zz_verif_" + f))
        cdst = os.path.join(self.repo, "verifconcrete")
        shutil.rmtree(cdst, ignore_errors=True)
        shutil.copytree(os.path.join(VERIF, "harness", "go", "concrete"), cdst)
        os.makedirs(os.path.dirname(out), exist_ok=True)
        r = subprocess.run(["go", "test", "-c", "-vet=off", "-tags", tags, "-o", out, "./cmd/whawty-auth"], cwd=self.repo,
                           env=goenv(), stdout=subprocess.PIPE, stderr=subprocess.STDOUT, text=True)
        if r.returncode != 0:
            self.fatal("in-package test binary does not build:\n" + r.stdout[-3000:])
        return out

    def run_inpkg(self, run, env=None, timeout=900):
        exe = self.inpkg_binary()
        e = goenv()
        e.update(env or {})
        try:
            r = subprocess.run([exe, "-test.run", "^" + run + "$", "-test.timeout", "%ds" % timeout, "-test.count", "1"],
                               cwd=os.path.join(self.repo, "cmd", "whawty-auth"), env=e, stdout=subprocess.PIPE,
                               stderr=subprocess.STDOUT, text=True, timeout=timeout + 30)
            return r.returncode, r.stdout
        except subprocess.TimeoutExpired as ex:
            return 124, "timeout"

    # ------------------------------------------------------------------ TLC
    def run_tlc(self, module, cfg, workers=1, simulate=None, depth=None, timeout=600, heap="6g",
                extra=None, name=None, defines=None, dfs=False, deadlock=True):
        """Runs TLC; returns dict(rc, out, generated, distinct, depth, edges, hists, status).
        status: ok | violation | error | timeout"""
        name = name or cfg.replace(".cfg", "")
        wd = os.path.join(self.scratch, "tlc-" + name)
        shutil.rmtree(wd, ignore_errors=True)
        shutil.copytree(os.path.join(VERIF, "spec"), wd)
        for k, v in (defines or {}).items():   # files generated by this run (traces, cfg overrides)
            open(os.path.join(wd, k), "w").write(v)
        cmd = ["java", "-Xmx" + heap, "-Xss64m", "-XX:+UseParallelGC"]
        if dfs:
            cmd.append("-Dtlc2.tool.queue.IStateQueue=StateDeque")
        cmd += ["-cp", JAR, "tlc2.TLC", "-workers", str(workers), "-metadir", os.path.join(wd, "meta"),
                "-config", cfg]
        if not deadlock:
            pass
        if simulate is not None:
            cmd += ["-simulate", "num=%d" % simulate, "-depth", str(depth or 20), "-seed", str(self.seed)]
        if extra:
            cmd += extra
        cmd.append(module)
        outp = os.path.join(wd, "tlc.out")
        t = time.time()
        status = "ok"
        with open(outp, "w") as fo:
            try:
                p = subprocess.run(["timeout", "-k", "5", str(timeout)] + cmd, cwd=wd, stdout=fo,
                                   stderr=subprocess.STDOUT)
                rc = p.returncode
            except Exception as ex:  # pragma: no cover
                rc = 99
        res = {"rc": rc, "wd": wd, "outfile": outp, "wall": time.time() - t, "edges": [], "hists": [],
               "generated": 0, "distinct": 0, "depth": 0, "other": []}
        err = []
        with open(outp) as fi:
            for line in fi:
                if line.startswith('"{') or line.startswith('"['):
                    try:
                        res["edges"].append(json.loads(json.loads(line)))
                    except Exception:
                        res["other"].append(line)
                    continue
                if line.startswith('<<"H", '):
                    s = line.strip()[len('<<"H", '):-2]
                    try:
                        res["hists"].append(json.loads(json.loads(s)))
                    except Exception:
                        res["other"].append(line)
                    continue
                m = re.match(r"(\d+) states generated, (\d+) distinct states found", line)
                if m:
                    res["generated"], res["distinct"] = int(m.group(1)), int(m.group(2))
                m = re.match(r"The depth of the complete state graph search is (\d+)", line)
                if m:
                    res["depth"] = int(m.group(1))
                m = re.match(r"Progress\((\d+)\).*?([\d,]+) states generated.*?([\d,]+) distinct", line)
                if m and not res["generated"]:
                    res["_pg"] = (int(m.group(2).replace(",", "")), int(m.group(3).replace(",", "")))
                if line.startswith("Error:") or "is violated" in line or "Exception" in line:
                    err.append(line.strip())
        if not res["generated"] and "_pg" in res:
            res["generated"], res["distinct"] = res["_pg"]
        if rc == 124 or rc == 137:
            status = "timeout"
        elif any("violated" in e or "Deadlock reached" in e for e in err) or rc in (11, 12, 13):
            status = "violation"
        elif rc != 0 or err:
            status = "error"
        res["status"], res["errors"] = status, err
        return res

    def tlc_must_pass(self, res, what):
        if res["status"] == "ok":
            return True
        tail = subprocess.run(["tail", "-40", res["outfile"]], stdout=subprocess.PIPE, text=True).stdout
        if res["status"] == "violation":
            # a property false on the *model of the code as it is* is a modelling/verdict matter of
            # its own: reported as inconclusive here, the code-level verdict comes from the bindings.
            self.inconclusive.append("TLC reports a violated property in %s:\n%s" % (what, tail))
        else:
            self.inconclusive.append("TLC %s in %s:\n%s" % (res["status"], what, tail))
        return False

    # ------------------------------------------------------------------ verdicts
    def violation(self, prop, key, detail, **kw):
        d = {"prop": prop, "key": key, "detail": detail}
        d.update(kw)
        self.violations.append(d)

    def fatal(self, msg):
        print("INCONCLUSIVE (%s): %s" % (self.pid, msg))
        self.finish(exit_code=2)

    def sample(self, s):
        if len(self.coverage["samples"]) < 12:
            self.coverage["samples"].append(s)

    def finish(self, level="model_checking", exit_code=None):
        known = load_known()
        mine = [v for v in self.violations if v["prop"] == self.pid]
        new, kn = [], []
        for v in mine:
            k = match_known(known, v)
            (kn if k else new).append((v, k))
        seen = set()
        for v, k in kn:
            if k["key"] in seen:
                continue
            seen.add(k["key"])
            print("KNOWN-FINDING: property=%s %s (%s)" % (self.pid, k["what"], k["key"]))
        rc = 0
        if new:
            rdir = os.path.join(VERIF if REPO == "/repo" else os.path.join(SHM, "verif"), "replays", self.pid)
            os.makedirs(rdir, exist_ok=True)
            for v, _ in new:
                h = hashlib.sha1((v["key"]).encode()).hexdigest()[:10]
                path = os.path.join(rdir, "%s.json" % h)
                with open(path, "w") as f:
                    json.dump({"property": self.pid, "tier": self.tier, "seed": self.seed, "violation": v},
                              f, indent=1, default=str)
                print("VIOLATION property=%s replay=%s" % (self.pid, path))
                print("  key=%s detail=%s" % (v["key"], str(v["detail"])[:600]))
            rc = 1
        if self.inconclusive and rc == 0:
            for m in self.inconclusive:
                print("INCONCLUSIVE (%s): %s" % (self.pid, m))
            rc = 2
        if exit_code is not None:
            rc = exit_code
        cov = self.coverage
        cov.setdefault("states", 0)
        cov.setdefault("transitions", 0)
        cov.setdefault("traces_validated_against_impl", 0)
        if not cov["samples"]:
            cov["samples"] = ["(none)"]
        cov["known_findings_reported"] = sorted(seen)
        cov["notes"] = self.notes
        ev = {"property_id": self.pid, "tier": self.tier, "seed": int(self.seed), "level": level,
              "coverage": cov, "assumptions": self.assumptions, "wall_s": round(time.time() - self.t0, 2),
              "violations": len(new)}
        evdir = os.path.join(VERIF, "evidence") if REPO == "/repo" else os.path.join(SHM, "verif", "evidence-alt")
        if rc != 2:
            os.makedirs(evdir, exist_ok=True)
            with open(os.path.join(evdir, self.pid + ".json"), "w") as f:
                json.dump(ev, f, indent=1, default=str)
        if os.environ.get("VERIF_KEEP") != "1":
            shutil.rmtree(self.scratch, ignore_errors=True)
        print("%s tier=%s seed=%s: %s (%d new violations, %d known, %.1fs)" % (
            self.pid, self.tier, self.seed, {0: "PASS", 1: "FAIL", 2: "INCONCLUSIVE"}.get(rc, rc), len(new),
            len(seen), time.time() - self.t0))
        sys.exit(rc)


def load_known():
    p = os.path.join(VERIF, "known_findings.json")
    if not os.path.exists(p):
        return []
    return [f for f in json.load(open(p))["findings"] if f.get("status") == "open"]


def match_known(known, v):
    for k in known:
        if k["property"] == v["prop"] and re.fullmatch(k["key"], v["key"]):
            return k
    return None


def write_ndjson(path, rows):
    with open(path, "w") as f:
        for r in rows:
            f.write(json.dumps(r, separators=(",", ":")) + "\n")


def run(cmd, timeout=900, cwd=None, env=None):
    r = subprocess.run(cmd, cwd=cwd, env=env, stdout=subprocess.PIPE, stderr=subprocess.STDOUT, text=True,
                       timeout=timeout)
    return r.returncode, r.stdout
